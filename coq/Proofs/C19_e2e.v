(* C19 -- end-to-end statements over the raise sites and message sites (proof-only round).
   Composition of: site_model_is_spec / site_m_model_is_spec (regenerated site expression +
   regenerated constructor / prepare / __call__ = specification), html_body_shape (explicit HTML
   page of a default-template class), escape_no_markup (html_escape output), and the structure of
   prepare (label = negotiated form). *)
From Coq Require Import List NArith ZArith Bool Lia.
Import ListNotations.
Require Import Verif.Lib.Wire Verif.Lib.Utf8 Verif.Model.C19_base Verif.Gen.Facts_C19 Verif.Model.C19 Verif.Proofs.C19 Verif.Proofs.C19_gen.
Open Scope N_scope.

(* ---- the label: a response is labelled text/html only when the HTML form was negotiated, so a
   plain-text or JSON body (where supplied text is verbatim) is never served as text/html *)
Theorem html_label_only_html_form i o :
  spec i = Some (Ok o) -> o_ctype o = t_html -> chosen_type i = t_html.
Proof.
  unfold spec, prepare. destruct (find_cls (i_cls i) classes) as [c|]; [|discriminate].
  destruct (c_empty c).
  - intros H; injection H as <-. cbn [o_ctype]. discriminate.
  - cbn [pick_branch p_branches spec_policy b_test].
    destruct (text_eqb (chosen_type i) t_html) eqn:E1; [intros _ _; apply text_eqb_eq; exact E1|].
    destruct (text_eqb (chosen_type i) t_json) eqn:E2; intros H; injection H as H;
      apply rbind_ok in H as [page [_ H]]; apply rmap_ok in H as [bytes [_ ->]]; cbn [o_ctype b_ctype]; discriminate.
Qed.

(* ---- the HTML page of a default-template class without comment and custom template: fixed text that depends
   on the class and the explanation only, the escaped detail, fixed text *)
Definition page_pre (c : cls) (expl : text) : text :=
  H1 ++ status_of c ++ H2 ++ status_of c ++ H3 ++ html_escape expl ++ s_br_html ++ s_br_html ++ [10].
Definition page_post : text := [10; 10] ++ H4.

Lemma detail_page_html i c :
  find_cls (i_cls i) classes = Some c -> c_empty c = false -> c_default_tmpl c = true ->
  i_tmpl i = None -> i_comment i = None -> chosen_type i = t_html ->
  spec i = Some (rmap (mkOutput (status_of c) t_html cs_utf8)
                      (utf8_bytes (page_pre c (expl_of c i) ++ html_escape (or_empty (i_detail i)) ++ page_post))).
Proof.
  intros Hf He Hd Ht Hcm Hc. rewrite (html_body_shape i c Hf He Hd Ht Hc).
  rewrite Hcm. cbn [or_empty is_nil]. unfold page_pre, page_post.
  do 3 f_equal. rewrite <- !app_assoc. reflexivity.
Qed.

(* ---- message sites (predicate mismatch of multiviews / predicated views, secured view, CSRF origin):
   end to end, from the formats regenerated from the source to the bytes of the HTML page *)
Theorem msite_html_safe name args g en ofs :
  msite_gen name args = Some g ->
  chosen_type (input_of_m g en ofs) = t_html ->
  exists c,
    find_cls (fst (fst g)) classes = Some c /\
    model (input_of_m g en ofs) =
      Some (rmap (mkOutput (status_of c) t_html cs_utf8)
                 (utf8_bytes (page_pre c (match snd g with Some e => e | None => c_expl c end)
                              ++ html_escape (snd (fst g)) ++ page_post))) /\
    (forall ch, In ch (html_escape (snd (fst g))) -> is_markup ch = false /\ ch <? 128 = true).
Proof.
  intros Hg Hc. destruct (site_m_model_is_spec name args g en ofs Hg) as [Hr Hm]. rewrite Hm.
  assert (Hcls : exists c, find_cls (fst (fst g)) classes = Some c /\ c_empty c = false /\ c_default_tmpl c = true).
  { unfold msite_ref, msite_with in Hr.
    repeat match type of Hr with (if ?b then _ else _) = _ => destruct b end;
      repeat match type of Hr with match ?l with _ => _ end = _ => destruct l end; try discriminate;
      injection Hr as <-; cbn [fst snd]; eexists; (split; [vm_compute; reflexivity|split; reflexivity]). }
  destruct Hcls as (c & Hf & He & Hd). exists c. split; [exact Hf|]. split; [|intros ch; apply escape_no_markup].
  rewrite (detail_page_html (input_of_m g en ofs) c Hf He Hd eq_refl eq_refl Hc). reflexivity.
Qed.

(* ---- the not-found raise sites (router, static view: missing / out of bounds) *)
Definition detail_site (name : text) : bool :=
  text_eqb name [114; 111; 117; 116; 101; 114] || text_eqb name [115; 116; 97; 116; 105; 99; 95; 109; 105; 115; 115; 105; 110; 103]
  || text_eqb name [115; 116; 97; 116; 105; 99; 95; 111; 111; 98].

Theorem site_html_safe name g f r en ofs :
  detail_site name = true -> site_gen name = Some g -> site_ref name = Some f ->
  chosen_type (input_of (f r) en ofs) = t_html ->
  exists c d,
    find_cls n_HTTPNotFound classes = Some c /\ ra_detail (f r) = Some d /\
    (exists pre, d = pre ++ r_path_info r \/ d = pre ++ r_url r) /\
    model (input_of (g r) en ofs) =
      Some (rmap (mkOutput (status_of c) t_html cs_utf8)
                 (utf8_bytes (page_pre c (c_expl c) ++ html_escape d ++ page_post))) /\
    (forall ch, In ch (html_escape d) -> is_markup ch = false /\ ch <? 128 = true).
Proof.
  intros Hd Hg Hf Hc. rewrite (site_model_is_spec name g f r en ofs Hg Hf).
  destruct (find_cls n_HTTPNotFound classes) as [c|] eqn:Hfc; [|vm_compute in Hfc; discriminate].
  assert (He : c_empty c = false) by (vm_compute in Hfc; injection Hfc as <-; reflexivity).
  assert (Hdt : c_default_tmpl c = true) by (vm_compute in Hfc; injection Hfc as <-; reflexivity).
  unfold detail_site in Hd. unfold site_ref in Hf.
  destruct (text_eqb name [114; 111; 117; 116; 101; 114]);
    [|destruct (text_eqb name [115; 116; 97; 116; 105; 99; 95; 109; 105; 115; 115; 105; 110; 103]);
      [|destruct (text_eqb name [115; 116; 97; 116; 105; 99; 95; 111; 111; 98]); [|discriminate Hd]]];
    injection Hf as <-; exists c; eexists; (split; [reflexivity|]); (split; [reflexivity|]).
  - split; [exists []; left; reflexivity|]. split; [|intros ch; apply escape_no_markup].
    match goal with |- spec ?i = _ => rewrite (detail_page_html i c Hfc He Hdt eq_refl eq_refl Hc) end. reflexivity.
  - split; [exists []; right; reflexivity|]. split; [|intros ch; apply escape_no_markup].
    match goal with |- spec ?i = _ => rewrite (detail_page_html i c Hfc He Hdt eq_refl eq_refl Hc) end. reflexivity.
  - split; [exists s_out_of_bounds; right; reflexivity|]. split; [|intros ch; apply escape_no_markup].
    match goal with |- spec ?i = _ => rewrite (detail_page_html i c Hfc He Hdt eq_refl eq_refl Hc) end. reflexivity.
Qed.

(* ---- every site, every form: whatever a site raises, the response the regenerated program gives is
   labelled text/html only in the HTML form *)
Theorem site_label name g f r en ofs o :
  site_gen name = Some g -> site_ref name = Some f ->
  model (input_of (g r) en ofs) = Some (Ok o) -> o_ctype o = t_html ->
  chosen_type (input_of (f r) en ofs) = t_html.
Proof.
  intros Hg Hf Hm. rewrite (site_model_is_spec name g f r en ofs Hg Hf) in Hm. apply html_label_only_html_form. exact Hm.
Qed.
Theorem msite_label name args g en ofs o :
  msite_gen name args = Some g ->
  model (input_of_m g en ofs) = Some (Ok o) -> o_ctype o = t_html -> chosen_type (input_of_m g en ofs) = t_html.
Proof.
  intros Hg Hm. destruct (site_m_model_is_spec name args g en ofs Hg) as [_ E]. rewrite E in Hm.
  apply html_label_only_html_form. exact Hm.
Qed.

(* non-vacuity: the CSRF-origin site with markup in the Origin header, HTML form *)
Example ex_msite_html : exists g o,
  msite_gen [99; 115; 114; 102; 95; 111; 114; 105; 103; 105; 110] [[60; 98; 62]] = Some g /\
  chosen_type (input_of_m g [] [t_html]) = t_html /\
  model (input_of_m g [] [t_html]) = Some (Ok o) /\ o_ctype o = t_html.
Proof. eexists. eexists. split; [reflexivity|]. split; [reflexivity|]. split; [vm_compute; reflexivity|reflexivity]. Qed.

(* ---- the same label statement for the regenerated program on ANY input (direct construction, or the class
   exception_response picked for a status code), and with json_formatter= / content_type= / charset= keywords *)
Theorem model_label i o : model i = Some (Ok o) -> o_ctype o = t_html -> chosen_type i = t_html.
Proof. rewrite generated_is_spec. apply html_label_only_html_form. Qed.

Theorem model_x_label x o : model_x x = Some (Ok o) -> o_ctype o = t_html -> chosen_type (x_in x) = t_html.
Proof.
  rewrite generated_is_spec_x. unfold spec_x, prepare_x. cbv zeta.
  destruct (find_cls (i_cls (x_in x)) classes) as [c|]; [|discriminate].
  destruct (c_empty c).
  - intros H; injection H as <-. cbn [o_ctype]. discriminate.
  - cbn [pick_branch p_branches spec_policy b_test].
    destruct (text_eqb (chosen_type (x_in x)) t_html) eqn:E1; [intros _ _; apply text_eqb_eq; exact E1|].
    destruct (text_eqb (chosen_type (x_in x)) t_json) eqn:E2; intros H; injection H as H;
      apply rbind_ok in H as [page [_ H]]; apply rmap_ok in H as [bytes [_ ->]]; cbn [o_ctype b_ctype]; discriminate.
Qed.

(* exception_response(code): the class it picks, rendered in the HTML form when it is a default-template class
   (without comment / custom template): fixed text, escaped detail, fixed text *)
Theorem factory_html_safe code c i :
  status_class code = Some c -> find_cls (c_name c) classes = Some c -> i_cls i = c_name c ->
  c_empty c = false -> c_default_tmpl c = true -> i_tmpl i = None -> i_comment i = None -> chosen_type i = t_html ->
  c_code c = code /\
  model i = Some (rmap (mkOutput (status_of c) t_html cs_utf8)
                       (utf8_bytes (page_pre c (expl_of c i) ++ html_escape (or_empty (i_detail i)) ++ page_post))) /\
  (forall ch, In ch (html_escape (or_empty (i_detail i))) -> is_markup ch = false /\ ch <? 128 = true).
Proof.
  intros Hs Hf Hi He Hd Ht Hcm Hc. destruct (status_class_sound code c Hs) as (_ & Hcode & _).
  split; [exact Hcode|]. split; [|intros ch; apply escape_no_markup].
  rewrite generated_is_spec. rewrite <- Hi in Hf. exact (detail_page_html i c Hf He Hd Ht Hcm Hc).
Qed.
Example ex_factory_404 : exists c, status_class [52; 48; 52] = Some c /\ find_cls (c_name c) classes = Some c /\
  c_empty c = false /\ c_default_tmpl c = true.
Proof. eexists. split; [vm_compute; reflexivity|]. repeat split; vm_compute; reflexivity. Qed.
