(* C06: generation does not depend on what was generated before in the same process
   (traversal._segment_cache is transparent when its key is the stringified segment). *)
From Coq Require Import List NArith ZArith Bool.
Import ListNotations.
Require Import Verif.Lib.Wire Verif.Lib.Text Verif.Lib.Utf8 Verif.Lib.Percent.
Require Verif.Gen.Facts_C01 Verif.Model.C01.
Require Import Verif.Gen.Facts_C17 Verif.Model.C17 Verif.Proofs.C17.
Require Import Verif.Gen.Facts_C06 Verif.Model.C06.
Open Scope N_scope.

Lemma Facts_ok_segment_key : segment_key_stringified = true.
Proof. reflexivity. Qed.

Definition is_canon (k : pval) : bool := match k with PStr _ | PBytes _ => true | _ => false end.
(* every entry was computed by quote_path_segment for its own (stringified) key *)
Definition sound (c : scache) : Prop :=
  Forall (fun kr : pval * text => is_canon (fst kr) = true /\ q_value (fst kr) = Ok (snd kr)) c.

Lemma py_eq_canon a b : is_canon a = true -> is_canon b = true -> py_eq a b = true -> a = b.
Proof.
  destruct a, b; try discriminate; intros _ _ H; cbn [py_eq] in H; apply text_eqb_eq in H; congruence.
Qed.

Lemma canon_is_canon v : is_canon (canon v) = true.
Proof. destruct v; reflexivity. Qed.

Lemma q_value_canon v : q_value (canon v) = q_value v.
Proof. destruct v; reflexivity. Qed.

Lemma sc_find_sound c k r : sound c -> is_canon k = true -> sc_find c k = Some r -> q_value k = Ok r.
Proof.
  induction 1 as [|[k' r'] c [Hk' Hq'] _ IH]; intros Hk H; [discriminate|].
  cbn [sc_find] in H. destruct (py_eq k k') eqn:E; [|auto].
  inversion H; subst r'. cbn [fst snd] in *. rewrite (py_eq_canon _ _ Hk Hk' E). exact Hq'.
Qed.

Lemma qv_ck_true c v : sound c -> exists c', qv_ck true c v = (q_value v, c') /\ sound c'.
Proof.
  intros Hs. unfold qv_ck. destruct (sc_find c (canon v)) as [r|] eqn:E.
  - exists c. split; [|exact Hs]. rewrite <- q_value_canon, (sc_find_sound _ _ _ Hs (canon_is_canon v) E). reflexivity.
  - destruct (q_value v) as [r|e] eqn:Eq; eexists; (split; [reflexivity|]); [|exact Hs].
    apply Forall_app. split; [exact Hs|]. constructor; [|constructor]. cbn [fst snd].
    split; [apply canon_is_canon|]. rewrite q_value_canon. exact Eq.
Qed.

Lemma seq_ck_true l : forall c, sound c -> exists c', seq_ck true c l = (mapM q_value l, c') /\ sound c'.
Proof.
  induction l as [|x r IH]; intros c Hs; [exists c; split; [reflexivity|exact Hs]|].
  cbn [seq_ck mapM]. destruct (qv_ck_true c x Hs) as (c1 & -> & Hs1).
  destruct (q_value x) as [q|e]; cbn [rbind]; [|exists c1; split; [reflexivity|exact Hs1]].
  destruct (IH c1 Hs1) as (c2 & -> & Hs2). exists c2. split; [|exact Hs2].
  destruct (mapM q_value r); reflexivity.
Qed.

Lemma gen_value_ck_true c b v : sound c -> exists c', gen_value_ck true c b v = (gen_value b v, c') /\ sound c'.
Proof.
  intros Hs. destruct v as [x|l shown].
  - cbn [gen_value_ck]. destruct x as [t|bs|z|k s]; cbn [text_of].
    + apply (qv_ck_true c (PStr t) Hs).
    + cbn [gen_value]. unfold utf8_dec. destruct (decode bs) as [t|]; cbn [rbind]; [apply (qv_ck_true c (PStr t) Hs)|].
      exists c. split; [reflexivity|exact Hs].
    + apply (qv_ck_true c (canon (PInt z)) Hs).
    + apply (qv_ck_true c (canon (PNum k s)) Hs).
  - cbn [gen_value_ck gen_value]. destruct b; [|apply (qv_ck_true c (PStr shown) Hs)].
    destruct (seq_ck_true l c Hs) as (c1 & -> & Hs1). exists c1. split; [|exact Hs1].
    destruct (mapM q_value l); reflexivity.
Qed.

Lemma newdict_ck_true g kw : forall c, sound c ->
  exists c', newdict_ck true c g kw = (build_newdict g kw, c') /\ sound c'.
Proof.
  unfold build_newdict. induction kw as [|[k v] kw IH]; intros c Hs; [exists c; split; [reflexivity|exact Hs]|].
  cbn [newdict_ck mapM fst snd]. destruct (gen_value_ck_true c (is_star_key g k) v Hs) as (c1 & -> & Hs1).
  destruct (gen_value (is_star_key g k) v) as [q|e]; cbn [rbind]; [|exists c1; split; [reflexivity|exact Hs1]].
  destruct (IH c1 Hs1) as (c2 & -> & Hs2). exists c2. split; [|exact Hs2].
  destruct (mapM _ kw); reflexivity.
Qed.

(* one call: whatever the cache holds, the answer is the uncached one, and the cache stays sound *)
Theorem generate_cache_transparent c g kw : sound c ->
  exists c', generate_ck true c g kw = (generate g kw, c') /\ sound c'.
Proof.
  intros Hs. unfold generate_ck, generate. destruct (gen_template g) as [tpl|e]; cbn [rbind]; [|exists c; split; [reflexivity|exact Hs]].
  destruct (newdict_ck_true g kw c Hs) as (c1 & -> & Hs1). exists c1. split; [|exact Hs1].
  destruct (build_newdict g kw); reflexivity.
Qed.

(* any history of calls: every call is answered as if it were the first *)
Theorem history_independent g calls : forall c, sound c -> history_ck true c g calls = map (generate g) calls.
Proof.
  induction calls as [|kw r IH]; intros c Hs; [reflexivity|].
  cbn [history_ck map]. destruct (generate_cache_transparent c g kw Hs) as (c1 & -> & Hs1). rewrite (IH c1 Hs1). reflexivity.
Qed.

(* for the generator of the current source (depends on the regenerated fact) *)
Theorem generation_history_independent g calls :
  history_ck segment_key_stringified [] g calls = map (generate g) calls.
Proof. rewrite Facts_ok_segment_key. apply history_independent. constructor. Qed.

(* keyed on the raw segment it is false: rest=(1,) then rest=(True,) on '/s/*rest' answers '/s/1' twice *)
Definition hist_pat : pattern := mkPat [47; 115; 47] [] (Some [114]).
Definition hist_calls : list (list (text * kwval)) :=
  [[([114], KSeq [PInt 1] [40; 49; 44; 41])];
   [([114], KSeq [PNum 1 [84; 114; 117; 101]] [40; 84; 114; 117; 101; 44; 41])]].

Theorem raw_key_history_refuted : history_ck false [] hist_pat hist_calls <> map (generate hist_pat) hist_calls.
Proof. vm_compute. discriminate. Qed.

Example history_example :
  map (generate hist_pat) hist_calls = [Ok [47; 115; 47; 49]; Ok [47; 115; 47; 84; 114; 117; 101]]   (* /s/1, /s/True *)
  /\ history_ck false [] hist_pat hist_calls = [Ok [47; 115; 47; 49]; Ok [47; 115; 47; 49]].
Proof. vm_compute. split; reflexivity. Qed.
