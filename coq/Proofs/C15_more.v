(* C15 -- two compositions.
   (1) Requests along histories: what the harness judges request histories with -- the expectation [hexpect]
       (traces separated by re-initialisations) combined with the generated _call_view -- is sound: whenever the
       expectation constrains the lookup of a request, the request is answered by the first candidate of
       lookup_all that does not raise PredicateMismatch.
   (2) lookup_fresh along histories with re-initialisations does not need the lock either. *)
From Coq Require Import List NArith ZArith Bool Arith Lia.
Import ListNotations.
Require Import Verif.Lib.Wire Verif.Lib.C15Prog Verif.Lib.C15Init Verif.Gen.Facts_C15 Verif.Model.C15.
Require Import Verif.Proofs.C15 Verif.Proofs.C15_hist.

Lemma hist_request_answer_sound : forall sro R0 hs j vs t tbl,
  reinit_idle sro KeyFull lookup_prog register_prog init_prog hs (init R0) = true ->
  hexpect sro KeyFull lookup_prog register_prog init_prog (init R0) hs (fun _ => None) j = Some vs ->
  threads (hexec sro KeyFull lookup_prog register_prog init_prog hs (init R0)) j = Some t -> cont t = [] ->
  request_answer tbl (tres t) = Some (first_answer tbl vs).
Proof.
  intros sro R0 hs j vs t tbl Hid He Ht Hc.
  destruct (hist_expect_sound sro R0 hs j vs t Hid He Ht Hc) as [_ H].
  unfold request_answer. rewrite facts_call_view_reads_only, facts_multiview_stateless, H. simpl.
  rewrite call_view_first_answer. reflexivity.
Qed.

(* non-vacuity: a lookup served, the registry re-initialised, the same lookup again: the expectation constrains
   both (answers [1] and []), and with the table "view 1 answers 7" the first request is answered 7, the
   second by nobody *)
Example hist_request_answer_nonvacuous :
  let hs := [HTrace (SpawnLookup k1 :: steps 0 40); HReinit; HTrace (SpawnLookup k1 :: steps 1 40)] in
  let ex := hexpect sro1 KeyFull lookup_prog register_prog init_prog (init R1) hs (fun _ => None) in
  reinit_idle sro1 KeyFull lookup_prog register_prog init_prog hs (init R1) = true /\
  ex 0 = Some [1%N] /\ ex 1 = Some [] /\
  first_answer [(1%N, Some 7%N)] [1%N] = Some 7%N /\ first_answer [(1%N, Some 7%N)] [] = None.
Proof. vm_compute. repeat split; reflexivity. Qed.

Lemma hist_lookup_fresh_nolock :
  hist_fresh_claim KeyFull (lookup_with wb_nolock) register_prog init_prog /\
  hist_fresh_claim KeyFull (lookup_with wb_nolock_split) register_prog init_prog.
Proof.
  rewrite facts_register_prog. split; intros sro R0 hs k tr2.
  - exact (hist_lookup_fresh_std sro KeyFull HkmF _ HwbN init_prog facts_init_prog R0 hs k tr2).
  - exact (hist_lookup_fresh_std sro KeyFull HkmF _ HwbS init_prog facts_init_prog R0 hs k tr2).
Qed.
