(* C20 -- the relation graph is symmetric (and has no self links) in every state reached WITHOUT `remove`: any sequence
   of adds, registrations with recorded relate / unrelate relations (also re-registrations), relate / unrelate of any
   number of entries, and reads. *)
From Coq Require Import List NArith ZArith Bool.
Import ListNotations.
Require Import Verif.Lib.Wire Verif.Lib.C20Types Verif.Gen.Facts_C20 Verif.Model.C20 Verif.Proofs.C20 Verif.Proofs.C20_wf Verif.Proofs.C20_rel Verif.Proofs.C20_rm.

Definition no_remove (o : op) : Prop := match o with ORemove _ _ => False | _ => True end.

Lemma in_product l a b : In (a, b) (product l) <-> In a l /\ In b l.
Proof.
  unfold product. rewrite in_flat_map. split.
  - intros (x & Hx & Hin). apply in_map_iff in Hin. destruct Hin as (y & E & Hy). inversion E; subst. auto.
  - intros [Ha Hb]. exists a. split; [exact Ha|]. apply in_map_iff. exists b. auto.
Qed.

Section Sym.
Variable U : intr -> Prop.
Hypothesis Hinj : forall a b, U a -> U b -> cont_eq a b = true -> a = b.

Definition SymInv (s : st) : Prop :=
  (forall a b, U a -> U b -> (Lk s a b <-> Lk s b a)) /\ (forall a, U a -> ~ Lk s a a).

Lemma relate_sym s ps s' : RelInv U s -> SymInv s -> relate s ps = Ok s' -> SymInv s'.
Proof.
  intros (HU & Hrf & Hnd) [Sym NS]. unfold relate. destruct (intrs_by_pairs s ps) as [l|e0] eqn:E; [|discriminate].
  intros H. inversion H; subst s'; clear H.
  pose proof (product_U U l (intrs_by_pairs_U U s ps l HU E)) as Hps.
  destruct (fold_relate1_spec U Hinj _ _ Hps Hrf) as [_ Sp]. split.
  - intros a b Ha Hb. unfold Lk. simpl. rewrite (Sp a b Ha Hb), (Sp b a Hb Ha), !in_product.
    pose proof (Sym a b Ha Hb) as S0. unfold Lk in S0. rewrite S0.
    split; (intros [H|[[H1 H2] H3]]; [left; exact H|right; split; [split; assumption|intros E0; apply H3; symmetry; exact E0]]).
  - intros a Ha. unfold Lk. simpl. rewrite (Sp a a Ha Ha). intros [H|[_ H]]; [exact (NS a Ha H)|apply H; reflexivity].
Qed.

Lemma unrelate_sym s ps s' : RelInv U s -> SymInv s -> unrelate s ps = Ok s' -> SymInv s'.
Proof.
  intros (HU & Hrf & Hnd) [Sym NS]. unfold unrelate. destruct (intrs_by_pairs s ps) as [l|e0] eqn:E; [|discriminate].
  intros H. inversion H; subst s'; clear H.
  pose proof (product_U U l (intrs_by_pairs_U U s ps l HU E)) as Hps.
  destruct (fold_unrelate1_spec U Hinj _ _ Hps Hrf Hnd) as (_ & _ & Sp). split.
  - intros a b Ha Hb. unfold Lk. simpl. rewrite (Sp a b Ha Hb), (Sp b a Hb Ha), !in_product.
    pose proof (Sym a b Ha Hb) as S0. unfold Lk in S0. rewrite S0. tauto.
  - intros a Ha. unfold Lk. simpl. rewrite (Sp a a Ha Ha). intros [H _]. exact (NS a Ha H).
Qed.

Lemma replay_sym rs : forall s i s' e, RelInv U s -> SymInv s -> replay s i rs = (s', e) -> SymInv s'.
Proof.
  induction rs as [|[c d|c d] r IH]; intros s i s' e HI HS H; simpl in H.
  - inversion H; subst; exact HS.
  - destruct (relate s _) as [s1|] eqn:E; [|inversion H; subst; exact HS].
    eapply IH; [| |exact H]; [eapply relate_inv; eassumption|eapply relate_sym; eassumption].
  - destruct (unrelate s _) as [s1|] eqn:E; [|inversion H; subst; exact HS].
    eapply IH; [| |exact H]; [eapply unrelate_inv; eassumption|eapply unrelate_sym; eassumption].
Qed.

Lemma sym_same_refs s s' : refs s' = refs s -> SymInv s -> SymInv s'.
Proof. unfold SymInv, Lk. intros ->. auto. Qed.

Lemma step_sym s o : op_in U o -> no_remove o -> RelInv U s -> SymInv s -> SymInv (fst (step s o)).
Proof.
  intros Ho Hn HI HS. destruct o; simpl in *.
  - eapply sym_same_refs; [|exact HS]. reflexivity.
  - exact (sym_same_refs s (fst (get s c d)) (get_refs s c d) HS).
  - exact HS.
  - destruct (relate s ps) eqn:E; simpl; [eapply relate_sym; eassumption|exact HS].
  - destruct (unrelate s ps) eqn:E; simpl; [eapply unrelate_sym; eassumption|exact HS].
  - destruct Hn.
  - exact HS.
  - destruct (register s i rs) as [s' [e|]] eqn:E; simpl; unfold register in E;
      (eapply replay_sym; [| |exact E]; [apply add_inv; assumption|eapply sym_same_refs; [|exact HS]; reflexivity]).
  - exact HS.
Qed.

Theorem reachable_sym ops :
  Forall (op_in U) ops -> Forall no_remove ops -> RelInv U (run_state init ops) /\ SymInv (run_state init ops).
Proof.
  assert (G : forall s, WF s -> KeysOwn s -> RelInv U s -> SymInv s -> Forall (op_in U) ops -> Forall no_remove ops ->
                        RelInv U (run_state s ops) /\ SymInv (run_state s ops)).
  { induction ops as [|o r IH]; intros s Hw Hk HI HS Ho Hn; simpl; [split; assumption|].
    inversion Ho as [|? ? Ho1 Ho2]; subst. inversion Hn as [|? ? Hn1 Hn2]; subst.
    apply IH; [apply WF_step; assumption|apply KeysOwn_step; assumption|apply step_inv; assumption
              |apply step_sym; assumption|exact Ho2|exact Hn2]. }
  apply G.
  - apply WF_init.
  - intros c d i Hl. discriminate.
  - split; [intros c d t Hl; discriminate|]. split; constructor.
  - split; [intros a b _ _; unfold Lk; simpl; tauto|intros a _ H; exact H].
Qed.
End Sym.

(* closed statement: objects from a pool of pairwise distinguishable introspectables *)
Theorem relations_symmetric_reachable (pool : list intr) ops a b :
  (forall x y, In x pool -> In y pool -> cont_eq x y = true -> x = y) ->
  Forall (op_in (fun t => In t pool)) ops -> Forall no_remove ops ->
  In a pool -> In b pool ->
  linked (run_state init ops) a b = linked (run_state init ops) b a /\ linked (run_state init ops) a a = false.
Proof.
  intros Hinj Ho Hn Ha Hb.
  destruct (reachable_sym _ Hinj ops Ho Hn) as ((_ & Hrf & _) & [Sym NS]).
  split.
  - apply Bool.eq_iff_eq_true.
    rewrite (linked_Lk _ Hinj _ a b Hb Hrf), (linked_Lk _ Hinj _ b a Ha Hrf). apply Sym; assumption.
  - destruct (linked (run_state init ops) a a) eqn:E; [|reflexivity].
    apply (linked_Lk _ Hinj _ a a Ha Hrf) in E. exfalso. exact (NS a Ha E).
Qed.

(* non-vacuity: re-registration, relate of three entries at once, unrelate, registration with an Unrel relation *)
Example symmetric_history_example :
  let a := mkIntr [97]%N [49]%N [120]%N 0 in
  let b := mkIntr [98]%N [49]%N [121]%N 1 in
  let c := mkIntr [99]%N [49]%N [122]%N 2 in
  let ka := ([97]%N, [49]%N) in let kb := ([98]%N, [49]%N) in let kc := ([99]%N, [49]%N) in
  let s := run_state init [OAdd a; OAdd b; ORegister c [Rel [97]%N [49]%N]; ORelate [ka; kb; kc];
                           OUnrelate [kb; kc]; ORegister c [Unrel [97]%N [49]%N]] in
  (linked s a b, linked s b a, linked s a c, linked s c a, linked s b c, linked s c b)
  = (true, true, false, false, false, false).
Proof. vm_compute. reflexivity. Qed.

(* the same read through `related`: for two live entries, y is listed for x exactly when x is listed for y *)
Theorem related_symmetric_reachable (pool : list intr) ops a b la lb :
  (forall x y, In x pool -> In y pool -> cont_eq x y = true -> x = y) ->
  Forall (op_in (fun t => In t pool)) ops -> Forall no_remove ops ->
  In a pool -> In b pool ->
  lookup (run_state init ops) (icat a) (idisc a) = Some a ->
  lookup (run_state init ops) (icat b) (idisc b) = Some b ->
  related (run_state init ops) a = Ok la -> related (run_state init ops) b = Ok lb ->
  (In b la <-> In a lb).
Proof.
  intros Hinj Ho Hn Ha Hb La Lb Ra Rb.
  destruct (reachable_sym _ Hinj ops Ho Hn) as (_ & [Sym _]).
  unfold related in Ra, Rb. rewrite La in Ra. rewrite Lb in Rb. inversion Ra; subst la. inversion Rb; subst lb.
  exact (Sym a b Ha Hb).
Qed.
