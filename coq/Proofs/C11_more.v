(* C11 -- proof-only round: monotonicity of the decision in the ancestors, for the reference model, the regenerated
   program, and the world form (lineage() + scan).
     permits_app_decided       a decision taken by an ACE of L is not changed by ANY ancestors appended above L
                               (same verdict, same deciding location and ACE);
     permits_app_default       if nothing in L matches, the verdict over L ++ A is the verdict over A alone
                               (with the location index shifted by the length of L);
     world_permits_ancestors   the same for worlds: a world in which the context's lineage is longer (more ancestors above
                               the old root, same ACLs below) leaves every non-default decision unchanged;
     has_permission_ancestors  ... and so does request.has_permission. *)
From Coq Require Import List NArith ZArith Bool Lia.
Import ListNotations.
Require Import Verif.Lib.Wire Verif.Gen.Facts_C11 Verif.Model.C11 Verif.Proofs.C11 Verif.Proofs.C11_gen
               Verif.Proofs.C11_char Verif.Proofs.C11_lineage.

Lemma permits_from_app_decided L A ps p : forall d,
  permits_from d L ps p <> DefaultDeny -> permits_from d (L ++ A) ps p = permits_from d L ps p.
Proof.
  induction L as [|[a|] r IH]; intros d H; simpl in *.
  - contradiction.
  - destruct (scan_acl ps p a 0) as [[[|] i]|]; try reflexivity. apply IH. exact H.
  - apply IH. exact H.
Qed.

Theorem permits_app_decided L A ps p :
  permits L ps p <> DefaultDeny -> permits (L ++ A) ps p = permits L ps p.
Proof. apply permits_from_app_decided. Qed.

Definition shift (n : nat) (d : decision) : decision :=
  match d with Allowed k i => Allowed (n + k) i | Denied k i => Denied (n + k) i | DefaultDeny => DefaultDeny end.

Lemma permits_from_shift L ps p : forall d, permits_from d L ps p = shift d (permits_from 0 L ps p).
Proof.
  induction L as [|[a|] r IH]; intros d; simpl.
  - reflexivity.
  - destruct (scan_acl ps p a 0) as [[[|] i]|]; simpl; try (rewrite Nat.add_0_r; reflexivity).
    rewrite (IH (S d)), (IH 1). destruct (permits_from 0 r ps p); simpl; try reflexivity; f_equal; lia.
  - rewrite (IH (S d)), (IH 1). destruct (permits_from 0 r ps p); simpl; try reflexivity; f_equal; lia.
Qed.

Lemma permits_from_app_default L A ps p : forall d,
  permits_from d L ps p = DefaultDeny -> permits_from d (L ++ A) ps p = permits_from (d + length L) A ps p.
Proof.
  induction L as [|[a|] r IH]; intros d H; simpl in *.
  - rewrite Nat.add_0_r. reflexivity.
  - destruct (scan_acl ps p a 0) as [[[|] i]|]; try discriminate.
    rewrite (IH (S d) H). f_equal. lia.
  - rewrite (IH (S d) H). f_equal. lia.
Qed.

Theorem permits_app_default L A ps p :
  permits L ps p = DefaultDeny -> permits (L ++ A) ps p = shift (length L) (permits A ps p).
Proof.
  intros H. unfold permits. rewrite (permits_from_app_default L A ps p 0 H). simpl. apply permits_from_shift.
Qed.

(* the regenerated program *)
Theorem gen_permits_app_decided L A ps p :
  gen_permits L ps p <> DefaultDeny -> gen_permits (L ++ A) ps p = gen_permits L ps p.
Proof. rewrite !gen_permits_is_model. apply permits_app_decided. Qed.

Theorem gen_permits_app_default L A ps p :
  gen_permits L ps p = DefaultDeny -> gen_permits (L ++ A) ps p = shift (length L) (gen_permits A ps p).
Proof. rewrite !gen_permits_is_model. apply permits_app_default. Qed.

(* verdict level, no case distinction: the lineage decides if it can, else the ancestors do *)
Theorem spec_granted_app L A ps p :
  spec_granted (L ++ A) ps p =
  match first_match L ps p with Some _ => spec_granted L ps p | None => spec_granted A ps p end.
Proof.
  unfold spec_granted, first_match.
  assert (F : flatten (L ++ A) = flatten L ++ flatten A) by (unfold flatten; rewrite map_app, concat_app; reflexivity).
  rewrite F, find_app. destruct (find (spec_matches ps p) (flatten L)); reflexivity.
Qed.

(* ---------- worlds: more ancestors above the old root *)
Theorem world_permits_ancestors W W' ctx l l' fuel fuel' ps p d :
  is_lineage W ctx l -> length l < fuel ->
  is_lineage W' ctx (l ++ l') -> length (l ++ l') < fuel' ->
  map (acl_of W') l = map (acl_of W) l ->
  world_permits W fuel ctx ps p = Some d -> d <> DefaultDeny ->
  world_permits W' fuel' ctx ps p = Some d.
Proof.
  intros Hl Hf Hl' Hf' Hacl H Hd. unfold world_permits, world_acls in *.
  rewrite (proj2 (gen_lineage_exact W ctx l fuel Hf) Hl) in H.
  rewrite (proj2 (gen_lineage_exact W' ctx (l ++ l') fuel' Hf') Hl').
  inversion H as [H1]. rewrite map_app, Hacl. f_equal.
  rewrite gen_permits_app_decided; [reflexivity|]. rewrite H1. exact Hd.
Qed.

Theorem has_permission_ancestors R W W' ctx l l' reqctx ps p :
  has_policy R = true ->
  is_lineage W ctx l -> is_lineage W' ctx (l ++ l') -> map (acl_of W') l = map (acl_of W) l ->
  first_match (map (acl_of W) l) ps p <> None ->
  hp_granted (gen_has_permission R (Some (map (acl_of W') (l ++ l'))) reqctx ps p)
  = hp_granted (gen_has_permission R (Some (map (acl_of W) l)) reqctx ps p).
Proof.
  intros HR _ _ Hacl Hm.
  pose proof (has_permission_first_match R (Some (map (acl_of W') (l ++ l'))) reqctx ps p HR) as E1.
  pose proof (has_permission_first_match R (Some (map (acl_of W) l)) reqctx ps p HR) as E2.
  cbv beta iota in E1, E2. rewrite map_app, Hacl in E1. rewrite map_app, Hacl.
  refine (eq_trans E1 (eq_trans _ (eq_sym E2))).
  rewrite spec_granted_app. destruct (first_match (map (acl_of W) l) ps p); [reflexivity|contradiction].
Qed.

(* non-vacuity: a child Deny stays a Deny whatever is put above it; a child without match inherits *)
Example ancestors_nonvacuous :
  let a := [97]%N in let v := [118]%N in
  let child := [Some [mkAce Deny a (PEq v)]] in
  let above := [None; Some [mkAce Allow a PAll]] in
  permits child [a] v = Denied 0 0 /\ permits (child ++ above) [a] v = Denied 0 0
  /\ permits [Some []] [a] v = DefaultDeny /\ permits ([Some []] ++ above) [a] v = Allowed 2 0
  /\ shift 1 (permits above [a] v) = Allowed 2 0.
Proof. vm_compute. repeat split. Qed.
