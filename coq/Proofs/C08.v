(* C08 -- proofs about the store model of Model/C08.v:
   the store a conflict-free flat commit produces does not depend on the order in which the
   configuration statements were declared (commit_permutation_invariant), a reader sees the
   final value of the keys it reads wherever its writers were declared (forward_reference_ok),
   the executable checks h1b / h2b imply the Prop-level hypotheses, and the directive table's
   phase discipline (table_ok) lifts to H2 for every program whose statements conform to rows. *)
From Coq Require Import List NArith ZArith Bool Lia Permutation Sorted.
Import ListNotations.
Require Import Verif.Lib.Wire Verif.Lib.C04Sort Verif.Gen.Facts_C08 Verif.Model.C04 Verif.Model.C08.

(* ------------------------------------------------------------------ hypotheses *)
Definition H1 (l : list stmt) : Prop :=   (* write discipline *)
  forall a b k, In a l -> In b l -> sid a <> sid b -> writes k a = true -> writes k b = true ->
    (smode a = MSeq /\ smode b = MSeq) \/ (smode a = MAcc /\ smode b = MAcc /\ sacc a <> sacc b).
Definition H2 (l : list stmt) : Prop :=   (* phase discipline *)
  forall a b k, In a l -> In b l -> In k (sreads a) -> writes k b = true -> (sphase b < sphase a)%Z.
Definition Horder (l l' : list stmt) : Prop :=   (* members of each ordered container keep their relative order *)
  forall k, filter (seq_writer k) l = filter (seq_writer k) l'.
Definition store_eq (s1 s2 : store) : Prop := forall k, s1 k = s2 k.

(* ------------------------------------------------------------------ generic list facts *)
Lemma filter_perm {A} (p : A -> bool) l l' : Permutation l l' -> Permutation (filter p l) (filter p l').
Proof.
  induction 1 as [|x l l' P IH|x y l|l l' l'' P1 IH1 P2 IH2]; cbn [filter].
  - constructor.
  - destruct (p x); [constructor|]; exact IH.
  - destruct (p x), (p y); try reflexivity. apply perm_swap.
  - etransitivity; eassumption.
Qed.

Lemma NoDup_map_filter {A B} (f : A -> B) (p : A -> bool) l : NoDup (map f l) -> NoDup (map f (filter p l)).
Proof.
  induction l as [|x r IH]; cbn [map filter]; intros H; [constructor|].
  inversion H as [|? ? Hn Hr]; subst.
  destruct (p x); [|auto]. cbn [map]. constructor; [|auto].
  intros Hin. apply Hn. apply in_map_iff in Hin. destruct Hin as [z [Ez Hz]].
  apply filter_In in Hz. apply in_map_iff. exists z. tauto.
Qed.

Lemma NoDup_map_inj {A B} (f : A -> B) l a b : NoDup (map f l) -> In a l -> In b l -> f a = f b -> a = b.
Proof.
  induction l as [|x r IH]; cbn [map]; intros H Ha Hb E; [destruct Ha|].
  inversion H as [|? ? Hn Hr]; subst.
  destruct Ha as [->|Ha], Hb as [->|Hb]; auto.
  - exfalso. apply Hn. rewrite E. apply in_map. exact Hb.
  - exfalso. apply Hn. rewrite <- E. apply in_map. exact Ha.
Qed.

Lemma NoDup_map_of_map {A B C} (f : A -> B) (g : A -> C) l :
  NoDup (map f l) -> (forall a b, In a l -> In b l -> f a <> f b -> g a <> g b) -> NoDup (map g l).
Proof.
  induction l as [|x r IH]; cbn [map]; intros H Hg; [constructor|].
  inversion H as [|? ? Hn Hr]; subst. constructor.
  - intros Hin. apply in_map_iff in Hin. destruct Hin as [z [Ez Hz]].
    apply (Hg z x); [right; exact Hz|left; reflexivity| |exact Ez].
    intros E. apply Hn. rewrite <- E. apply in_map. exact Hz.
  - apply IH; [exact Hr|]. intros a b Ha Hb. apply Hg; right; assumption.
Qed.

Lemma NoDup_all_same {A} (w : A) W : NoDup W -> In w W -> (forall z, In z W -> z = w) -> W = [w].
Proof.
  intros Hnd Hin Hall. destruct W as [|x [|y R]].
  - destruct Hin.
  - rewrite (Hall x (or_introl eq_refl)). reflexivity.
  - exfalso. inversion Hnd as [|? ? Hn _]; subst. apply Hn. left.
    rewrite (Hall x (or_introl eq_refl)). apply Hall. right. left. reflexivity.
Qed.

(* filtering commutes with the stable insertion sort *)
Section FilterSort.
  Context {A : Type}.
  Variable leb : A -> A -> bool.
  Hypothesis leb_total : forall x y, leb x y = true \/ leb y x = true.
  Hypothesis leb_trans : forall x y z, leb x y = true -> leb y z = true -> leb x z = true.

  Lemma insert_le_all x l : (forall z, In z l -> leb x z = true) -> insert leb x l = x :: l.
  Proof.
    destruct l as [|y r]; intros H; [reflexivity|]. cbn [insert].
    rewrite (H y (or_introl eq_refl)). reflexivity.
  Qed.

  Lemma filter_insert (q : A -> bool) x l :
    StronglySorted (le leb) l ->
    filter q (insert leb x l) = if q x then insert leb x (filter q l) else filter q l.
  Proof.
    intros S. destruct (q x) eqn:Qx; [|apply insert_filter_out; exact Qx].
    induction S as [|y r Hs IH Hall]; cbn [insert filter]; [rewrite Qx; reflexivity|].
    destruct (leb x y) eqn:E.
    - cbn [filter]. rewrite Qx. symmetry. apply insert_le_all.
      intros z Hz. destruct (q y).
      + destruct Hz as [<-|Hz]; [exact E|]. apply filter_In in Hz. destruct Hz as [Hz _].
        rewrite Forall_forall in Hall. eapply leb_trans; [exact E|apply Hall; exact Hz].
      + apply filter_In in Hz. destruct Hz as [Hz _].
        rewrite Forall_forall in Hall. eapply leb_trans; [exact E|apply Hall; exact Hz].
    - cbn [filter]. destruct (q y).
      + cbn [insert]. rewrite E. rewrite IH. reflexivity.
      + exact IH.
  Qed.

  Lemma filter_sort_comm (q : A -> bool) l : filter q (sort leb l) = sort leb (filter q l).
  Proof.
    induction l as [|x r IH]; cbn [sort filter]; [reflexivity|].
    rewrite filter_insert by (apply sort_sorted; assumption).
    rewrite IH. destruct (q x); reflexivity.
  Qed.
End FilterSort.

(* ------------------------------------------------------------------ the order *)
Lemma phase_total x y : phase_leb x y = true \/ phase_leb y x = true.
Proof. unfold phase_leb. rewrite !Z.leb_le. lia. Qed.

Lemma phase_trans x y z : phase_leb x y = true -> phase_leb y z = true -> phase_leb x z = true.
Proof. unfold phase_leb. rewrite !Z.leb_le. lia. Qed.

Lemma schedule_sorted l : StronglySorted (le phase_leb) (schedule l).
Proof. apply sort_sorted; [exact phase_total|exact phase_trans]. Qed.

Lemma schedule_In x l : In x (schedule l) <-> In x l.
Proof. apply sort_In. Qed.

Lemma schedule_filter q l : filter q (schedule l) = schedule (filter q l).
Proof. apply filter_sort_comm; [exact phase_total|exact phase_trans]. Qed.

(* ------------------------------------------------------------------ runl *)
Lemma runl_app a b st : runl (a ++ b) st = runl b (runl a st).
Proof. unfold runl. apply fold_left_app. Qed.

Lemma runl_cons s L st : runl (s :: L) st = runl L (exec_stmt s st).
Proof. reflexivity. Qed.

Lemma runl_nowriter L : forall st k, (forall s, In s L -> writes k s = false) -> runl L st k = st k.
Proof.
  induction L as [|s L IH]; intros st k H; [reflexivity|].
  rewrite runl_cons, IH by (intros; apply H; right; assumption).
  unfold exec_stmt. rewrite (H s (or_introl eq_refl)). reflexivity.
Qed.

Lemma mkval_ext s st1 st2 : (forall r, In r (sreads s) -> st1 r = st2 r) -> mkval s st1 = mkval s st2.
Proof.
  intros H. unfold mkval. f_equal. apply map_ext_in. intros r Hr. rewrite (H r Hr). reflexivity.
Qed.

(* nobody at or after a statement writes a key the statement reads *)
Fixpoint okL (L : list stmt) : Prop :=
  match L with
  | [] => True
  | s :: B => (forall r s', In r (sreads s) -> In s' (s :: B) -> writes r s' = false) /\ okL B
  end.

Lemma H2_incl l l' : (forall x, In x l' -> In x l) -> H2 l -> H2 l'.
Proof. intros Hi H a b k Ha Hb. apply H; apply Hi; assumption. Qed.

Lemma sorted_H2_okL L : StronglySorted (le phase_leb) L -> H2 L -> okL L.
Proof.
  induction 1 as [|s B Hs IH Hall]; intros H; cbn [okL]; [exact I|]. split.
  - intros r s' Hr Hs'. destruct (writes r s') eqn:W; [exfalso|reflexivity].
    assert (sphase s' < sphase s)%Z as Hlt by (apply (H s s' r); [left; reflexivity|exact Hs'|exact Hr|exact W]).
    destruct Hs' as [<-|Hs']; [lia|].
    rewrite Forall_forall in Hall. specialize (Hall _ Hs'). unfold le, phase_leb in Hall.
    apply Z.leb_le in Hall. lia.
  - apply IH. eapply H2_incl; [|exact H]. intros x Hx. right. exact Hx.
Qed.

Lemma okL_app_r A B : okL (A ++ B) -> okL B.
Proof. induction A as [|a A IH]; cbn [app okL]; [auto|]. intros [_ H]. auto. Qed.

Lemma schedule_okL l : H2 l -> okL (schedule l).
Proof.
  intros H. apply sorted_H2_okL; [apply schedule_sorted|].
  eapply H2_incl; [|exact H]. intros x. apply schedule_In.
Qed.

(* what a list of writers of one key leaves in it, all values being made from the store G *)
Definition comb (G : store) (W : list stmt) (init : list (N * value)) : list (N * value) :=
  fold_left (fun acc s => upd s (mkval s G) acc) W init.

Lemma comb_cons G s W init : comb G (s :: W) init = comb G W (upd s (mkval s G) init).
Proof. reflexivity. Qed.

Lemma comb_ext G1 G2 W : forall init,
  (forall s r, In s W -> In r (sreads s) -> G1 r = G2 r) -> comb G1 W init = comb G2 W init.
Proof.
  induction W as [|s W IH]; intros init H; [reflexivity|].
  rewrite !comb_cons. rewrite (mkval_ext s G1 G2) by (intros r Hr; apply (H s r); [left; reflexivity|exact Hr]).
  apply IH. intros s' r Hs' Hr. apply (H s' r); [right; exact Hs'|exact Hr].
Qed.

(* main characterisation: in a trace where nobody overwrites what was read, every cell is what its
   writers leave, each writing the value made from the FINAL store *)
Lemma runl_char L : forall st, okL L -> forall k,
  runl L st k = comb (runl L st) (filter (writes k) L) (st k).
Proof.
  induction L as [|s L IH]; intros st Hok k; [reflexivity|].
  destruct Hok as [Hs Hok].
  assert (Hm : mkval s st = mkval s (runl (s :: L) st)).
  { apply mkval_ext. intros r Hr. rewrite runl_cons.
    rewrite runl_nowriter by (intros s' Hs'; apply Hs; [exact Hr|right; exact Hs']).
    unfold exec_stmt. rewrite (Hs r s Hr (or_introl eq_refl)). reflexivity. }
  cbn [filter]. rewrite runl_cons in *. rewrite (IH (exec_stmt s st) Hok k).
  assert (He : exec_stmt s st k = if writes k s then upd s (mkval s st) (st k) else st k) by reflexivity.
  rewrite He. destruct (writes k s) eqn:W.
  - rewrite comb_cons. rewrite <- Hm. reflexivity.
  - reflexivity.
Qed.

Lemma final_char l k : H2 l -> final l k = comb (final l) (schedule (filter (writes k) l)) [].
Proof.
  intros H. unfold final. rewrite (runl_char (schedule l) empty (schedule_okL l H) k).
  rewrite schedule_filter. reflexivity.
Qed.

(* ------------------------------------------------------------------ multiview cells (MAcc) *)
Lemma ins_perm x l : Permutation (ins x l) (x :: l).
Proof.
  induction l as [|y r IH]; cbn [ins]; [reflexivity|].
  destruct (N.ltb (fst x) (fst y)); [reflexivity|].
  rewrite IH. apply perm_swap.
Qed.

Lemma ins_sorted x l :
  StronglySorted (key_le (@fst N value)) l -> StronglySorted (key_le (@fst N value)) (ins x l).
Proof.
  induction 1 as [|y r Hs IH Hall]; cbn [ins]; [repeat constructor|].
  destruct (N.ltb (fst x) (fst y)) eqn:E.
  - apply N.ltb_lt in E. constructor; [constructor; assumption|].
    constructor; [unfold key_le; lia|].
    eapply Forall_impl; [|exact Hall]. unfold key_le. intros z Hz. lia.
  - apply N.ltb_ge in E. constructor; [exact IH|].
    rewrite Forall_forall. intros z Hz.
    apply (Permutation_in _ (ins_perm x r)) in Hz. destruct Hz as [<-|Hz]; [exact E|].
    rewrite Forall_forall in Hall. auto.
Qed.

Definition accv (G : store) (s : stmt) : N * value := (sacc s, mkval s G).

Lemma comb_acc G W : (forall s, In s W -> smode s = MAcc) -> forall init,
  Permutation (comb G W init) (map (accv G) W ++ init) /\
  (StronglySorted (key_le (@fst N value)) init -> StronglySorted (key_le (@fst N value)) (comb G W init)).
Proof.
  induction W as [|s W IH]; intros HA init; [split; [reflexivity|auto]|].
  rewrite comb_cons. assert (E : upd s (mkval s G) init = ins (accv G s) init).
  { unfold upd. rewrite (HA s (or_introl eq_refl)). reflexivity. }
  rewrite E. destruct (IH (fun z Hz => HA z (or_intror Hz)) (ins (accv G s) init)) as [P S]. split.
  - rewrite P. rewrite ins_perm. cbn [map app]. symmetry. apply Permutation_middle.
  - intros Hi. apply S. apply ins_sorted. exact Hi.
Qed.

Lemma comb_acc_eq G V1 V2 :
  (forall s, In s V1 -> smode s = MAcc) -> NoDup (map sacc V1) -> Permutation V1 V2 ->
  comb G V1 [] = comb G V2 [].
Proof.
  intros HA Hnd P.
  assert (HA2 : forall s, In s V2 -> smode s = MAcc)
    by (intros s Hs; apply HA; eapply Permutation_in; [symmetry; exact P|exact Hs]).
  destruct (comb_acc G V1 HA []) as [P1 S1]. destruct (comb_acc G V2 HA2 []) as [P2 S2].
  rewrite app_nil_r in P1, P2.
  apply (sorted_perm_unique (@fst N value)).
  - apply (Permutation_NoDup (l := map sacc V1)); [|exact Hnd].
    symmetry. rewrite P1. rewrite map_map. cbn [accv fst]. reflexivity.
  - apply S1. constructor.
  - apply S2. constructor.
  - rewrite P1, P2. apply Permutation_map. exact P.
Qed.

(* ------------------------------------------------------------------ the writers of one key *)
Lemma writers_class l k : NoDup (map sid l) -> H1 l ->
  (length (filter (writes k) l) <= 1)%nat \/
  (forall s, In s (filter (writes k) l) -> smode s = MSeq) \/
  ((forall s, In s (filter (writes k) l) -> smode s = MAcc) /\ NoDup (map sacc (filter (writes k) l))).
Proof.
  intros Hnd H.
  assert (HndW : NoDup (map sid (filter (writes k) l))) by (apply NoDup_map_filter; exact Hnd).
  assert (HW : forall s, In s (filter (writes k) l) -> In s l /\ writes k s = true) by (intros s; apply filter_In).
  remember (filter (writes k) l) as W eqn:EW. clear EW.
  destruct W as [|x [|y R]]; [left; cbn [length]; lia|left; cbn [length]; lia|right].
  set (W := x :: y :: R) in *.
  assert (Hx : In x W) by (left; reflexivity).
  assert (Hy : In y W) by (right; left; reflexivity).
  assert (Hmode : forall z, In z W -> smode z = smode x).
  { intros z Hz. destruct (N.eq_dec (sid z) (sid x)) as [E|NE].
    - rewrite (NoDup_map_inj sid l z x Hnd (proj1 (HW z Hz)) (proj1 (HW x Hx)) E). reflexivity.
    - destruct (H z x k (proj1 (HW z Hz)) (proj1 (HW x Hx)) NE (proj2 (HW z Hz)) (proj2 (HW x Hx)))
        as [[-> ->]|[-> [-> _]]]; reflexivity. }
  assert (Hxy : sid x <> sid y).
  { subst W. cbn [map] in HndW. inversion HndW as [|? ? Hn _]; subst. intros E. apply Hn. left. symmetry. exact E. }
  destruct (H x y k (proj1 (HW x Hx)) (proj1 (HW y Hy)) Hxy (proj2 (HW x Hx)) (proj2 (HW y Hy)))
    as [[Sx _]|[Ax _]].
  - left. intros z Hz. rewrite (Hmode z Hz). exact Sx.
  - right. split; [intros z Hz; rewrite (Hmode z Hz); exact Ax|].
    apply (NoDup_map_of_map sid sacc); [exact HndW|].
    intros a b Ha Hb Hne.
    destruct (H a b k (proj1 (HW a Ha)) (proj1 (HW b Hb)) Hne (proj2 (HW a Ha)) (proj2 (HW b Hb)))
      as [[Sa _]|[_ [_ Hd]]]; [|exact Hd].
    rewrite (Hmode a Ha), Ax in Sa. discriminate.
Qed.

Lemma writers_comb_eq l l' k G :
  NoDup (map sid l) -> Permutation l l' -> Horder l l' -> H1 l ->
  comb G (schedule (filter (writes k) l)) [] = comb G (schedule (filter (writes k) l')) [].
Proof.
  intros Hnd P Ho H.
  pose proof (filter_perm (writes k) l l' P) as PW.
  destruct (writers_class l k Hnd H) as [Hlen|[Hseq|[Hacc HndA]]].
  - assert (E : filter (writes k) l = filter (writes k) l'); [|rewrite E; reflexivity].
    destruct (filter (writes k) l) as [|x [|y R]].
    + symmetry. apply Permutation_nil. exact PW.
    + symmetry. apply Permutation_length_1_inv. exact PW.
    + cbn [length] in Hlen. lia.
  - assert (E : filter (writes k) l = filter (writes k) l'); [|rewrite E; reflexivity].
    assert (Hs : forall m, (forall s, In s m -> In s l) -> filter (writes k) m = filter (seq_writer k) m).
    { intros m Hm. apply filter_ext_in. intros s Hsm. unfold seq_writer.
      destruct (writes k s) eqn:Wr; [|rewrite andb_false_r; reflexivity].
      unfold is_seq. rewrite (Hseq s); [reflexivity|]. apply filter_In. split; [apply Hm; exact Hsm|exact Wr]. }
    rewrite (Hs l) by auto.
    rewrite (Hs l') by (intros s; apply Permutation_in; symmetry; exact P).
    apply Ho.
  - apply comb_acc_eq.
    + intros s Hs. apply Hacc. apply schedule_In. exact Hs.
    + apply (Permutation_NoDup (l := map sacc (filter (writes k) l))); [|exact HndA].
      apply Permutation_map. symmetry. apply sort_perm.
    + unfold schedule. rewrite !sort_perm. exact PW.
Qed.

(* ------------------------------------------------------------------ the theorem *)
Lemma key_step l l' k :
  NoDup (map sid l) -> Permutation l l' -> Horder l l' -> H1 l -> H2 l ->
  (forall s r, In s l -> writes k s = true -> In r (sreads s) -> final l r = final l' r) ->
  final l k = final l' k.
Proof.
  intros Hnd P Ho h1 h2 Hr.
  assert (h2' : H2 l') by (eapply H2_incl; [|exact h2]; intros x; apply Permutation_in; symmetry; exact P).
  rewrite (final_char l k h2), (final_char l' k h2').
  rewrite <- (writers_comb_eq l l' k (final l') Hnd P Ho h1).
  apply comb_ext. intros s r Hs Hrd. apply (proj1 (schedule_In _ _)) in Hs. apply (proj1 (filter_In _ _ _)) in Hs. destruct Hs as [Hs Hw].
  apply (Hr s r); assumption.
Qed.

Lemma phase_bounds l : exists b B, forall s, In s l -> (b <= sphase s < B)%Z.
Proof.
  induction l as [|x r [b [B H]]].
  - exists 0%Z, 0%Z. intros s [].
  - exists (Z.min b (sphase x)), (Z.max B (sphase x + 1)). intros s [<-|Hs]; [lia|]. specialize (H s Hs). lia.
Qed.

Theorem commit_permutation_invariant : forall l l',
  NoDup (map sid l) -> Permutation l l' -> Horder l l' -> H1 l -> H2 l ->
  store_eq (final l) (final l').
Proof.
  intros l l' Hnd P Ho h1 h2.
  destruct (phase_bounds l) as [b [B Hb]].
  assert (Hn : forall n k, (forall s, In s l -> writes k s = true -> (sphase s < b + Z.of_nat n)%Z) ->
                           final l k = final l' k).
  { induction n as [|n IH]; intros k Hk; apply (key_step l l' k Hnd P Ho h1 h2); intros s r Hs Hw Hrd.
    - exfalso. specialize (Hk s Hs Hw). specialize (Hb s Hs). lia.
    - apply IH. intros s' Hs' Hw'. specialize (h2 s s' r Hs Hs' Hrd Hw'). specialize (Hk s Hs Hw). lia. }
  intros k. apply (Hn (Z.to_nat (B - b))). intros s Hs _. specialize (Hb s Hs). lia.
Qed.

(* ------------------------------------------------------------------ forward references *)
Lemma single_set_writer l w k :
  NoDup (map sid l) -> H1 l -> In w l -> writes k w = true -> smode w = MSet ->
  filter (writes k) l = [w].
Proof.
  intros Hnd h1 Hw Wk Hm. apply NoDup_all_same.
  - apply (NoDup_map_inv sid). apply NoDup_map_filter. exact Hnd.
  - apply filter_In. tauto.
  - intros z Hz. apply (proj1 (filter_In _ _ _)) in Hz. destruct Hz as [Hz Wz].
    destruct (N.eq_dec (sid z) (sid w)) as [E|NE]; [exact (NoDup_map_inj sid l z w Hnd Hz Hw E)|].
    destruct (h1 z w k Hz Hw NE Wz Wk) as [[_ S]|[_ [S _]]]; congruence.
Qed.

Lemma suffix_nowriter l pre s post r :
  H2 l -> schedule l = pre ++ s :: post -> In r (sreads s) -> runl pre empty r = final l r.
Proof.
  intros h2 E Hr. unfold final. rewrite E, runl_app. symmetry. apply runl_nowriter.
  pose proof (schedule_okL l h2) as Hok. rewrite E in Hok. apply okL_app_r in Hok. destruct Hok as [Hok _].
  intros s' Hs'. apply Hok; assumption.
Qed.

(* the value a statement computes when its turn comes in the schedule is the one it would
   compute from the final store: nothing it reads is written at or after its turn *)
Theorem reader_sees_final : forall l s pre post,
  H2 l -> schedule l = pre ++ s :: post -> mkval s (runl pre empty) = mkval s (final l).
Proof.
  intros l s pre post h2 E. apply mkval_ext. intros r Hr. exact (suffix_nowriter l pre s post r h2 E Hr).
Qed.

Theorem forward_reference_ok : forall l s w k,
  NoDup (map sid l) -> H1 l -> H2 l -> In s l -> In w l -> In k (sreads s) -> writes k w = true -> smode w = MSet ->
  (sphase w < sphase s)%Z /\
  final l k = [(0%N, mkval w (final l))] /\
  exists pre post, schedule l = pre ++ s :: post /\ runl pre empty k = final l k.
Proof.
  intros l s w k Hnd h1 h2 Hs Hw Hr Wk Hm. split; [|split].
  - exact (h2 s w k Hs Hw Hr Wk).
  - rewrite (final_char l k h2), (single_set_writer l w k Hnd h1 Hw Wk Hm).
    cbn [schedule sort insert]. rewrite comb_cons. unfold upd. rewrite Hm. reflexivity.
  - destruct (in_split s (schedule l) (proj2 (schedule_In s l) Hs)) as [pre [post E]].
    exists pre, post. split; [exact E|]. exact (suffix_nowriter l pre s post k h2 E Hr).
Qed.

(* ------------------------------------------------------------------ executable checks imply the hypotheses *)
Lemma h1b_H1 l : h1b l = true -> H1 l.
Proof.
  unfold h1b. intros Hb a b k Ha Hb' Hne Wa Wb.
  rewrite forallb_forall in Hb. specialize (Hb a Ha). rewrite forallb_forall in Hb. specialize (Hb b Hb').
  unfold h1_pair in Hb.
  assert (E1 : same_stmt a b = false) by (unfold same_stmt; apply N.eqb_neq; exact Hne).
  assert (E2 : existsb (fun k0 => writes k0 b) (swrites a) = true).
  { apply existsb_exists. exists k. split; [apply memN_In; exact Wa|exact Wb]. }
  rewrite E1, E2 in Hb. cbn [negb orb] in Hb. unfold compat, is_seq, is_acc in Hb.
  destruct (smode a), (smode b); cbn [andb orb] in Hb; try discriminate.
  - left. split; reflexivity.
  - right. split; [reflexivity|split; [reflexivity|]]. apply N.eqb_neq. apply negb_true_iff. exact Hb.
Qed.

Lemma h2b_H2 l : h2b l = true -> H2 l.
Proof.
  unfold h2b. intros Hb a b k Ha Hb' Hr Wb.
  rewrite forallb_forall in Hb. specialize (Hb a Ha). rewrite forallb_forall in Hb. specialize (Hb b Hb').
  unfold h2_pair in Hb.
  assert (E : existsb (fun k0 => writes k0 b) (sreads a) = true) by (apply existsb_exists; exists k; tauto).
  rewrite E in Hb. cbn [negb orb] in Hb. apply Z.ltb_lt. exact Hb.
Qed.

(* ------------------------------------------------------------------ the directive table *)
Lemma table_ok_holds : table_ok = true.
Proof. vm_compute. reflexivity. Qed.

Lemma t_rows_ok : table_ok = true -> forallb row_ok rows = true.
Proof.
  intros T. unfold table_ok in T.
  apply andb_prop in T. destruct T as [T _]. apply andb_prop in T. destruct T as [T _].
  apply andb_prop in T. destruct T as [T _]. exact T.
Qed.

Lemma t_row_read r f : row_ok r = true ->
  memN f (rreads r) || (rdeferred r && memN f (rdisc r)) = true -> read_ok (rphase r) f = true.
Proof.
  intros T Ra. unfold row_ok in T.
  apply andb_prop in T. destruct T as [T _]. apply andb_prop in T. destruct T as [T1 T2].
  apply orb_true_iff in Ra. destruct Ra as [Ra|Ra].
  - rewrite forallb_forall in T1. apply T1. apply memN_In. exact Ra.
  - apply andb_true_iff in Ra. destruct Ra as [D Ra]. rewrite D in T2.
    rewrite forallb_forall in T2. apply T2. apply memN_In. exact Ra.
Qed.

Lemma t_writer r' f m : In r' rows ->
  existsb (fun w => N.eqb (fst w) f && N.eqb (snd w) m) (rwrites r') = true -> In r' (writers f).
Proof.
  intros Rr' W. unfold writers. apply filter_In. split; [exact Rr'|]. unfold writes_fam.
  apply existsb_exists in W. destruct W as [w [Hw1 Hw2]]. apply andb_true_iff in Hw2.
  apply existsb_exists. exists w. tauto.
Qed.

Lemma forallb_rphase ws p r' :
  forallb (fun w => Z.ltb (rphase w) p) ws = true -> In r' ws -> (rphase r' < p)%Z.
Proof. intros RO Wf. rewrite forallb_forall in RO. apply Z.ltb_lt. apply RO. exact Wf. Qed.

(* stated so that the kernel unfolds [read_ok] (not [forallb] over the computed table) *)
Lemma t_read_ok p f r' : read_ok p f = true -> In r' (writers f) -> (rphase r' < p)%Z.
Proof. exact (forallb_rphase (writers f) p r'). Qed.

Theorem table_discipline : table_ok = true -> forall (l : list (row * stmt)),
  (forall p, In p l -> In (fst p) rows /\ conforms (fst p) (snd p) = true) -> H2 (map snd l).
Proof.
  intros T l Hl a b k Ha Hb Hr Wb.
  apply in_map_iff in Ha. destruct Ha as [[r a'] [Ea Ha]]. cbn [snd] in Ea. subst a'.
  apply in_map_iff in Hb. destruct Hb as [[r' b'] [Eb Hb]]. cbn [snd] in Eb. subst b'.
  destruct (Hl _ Ha) as [Rr Ca]. destruct (Hl _ Hb) as [Rr' Cb]. cbn [fst snd] in Rr, Ca, Rr', Cb.
  unfold conforms in Ca, Cb.
  apply andb_prop in Ca. destruct Ca as [Ca _]. apply andb_prop in Ca. destruct Ca as [Pa Ra].
  apply andb_prop in Cb. destruct Cb as [Cb Wb']. apply andb_prop in Cb. destruct Cb as [Pb _].
  apply Z.eqb_eq in Pa. apply Z.eqb_eq in Pb. rewrite Pa, Pb.
  rewrite forallb_forall in Ra. specialize (Ra k Hr).
  rewrite forallb_forall in Wb'. specialize (Wb' k (proj1 (memN_In _ _) Wb)).
  apply t_rows_ok in T. rewrite forallb_forall in T. specialize (T r Rr).
  apply (t_read_ok (rphase r) (fam_of k) r').
  - apply t_row_read; assumption.
  - eapply t_writer; [exact Rr'|exact Wb'].
Qed.

(* every program built from the real table's rows has the phase discipline *)
Corollary table_programs_H2 : forall (l : list (row * stmt)),
  (forall p, In p l -> In (fst p) rows /\ conforms (fst p) (snd p) = true) -> H2 (map snd l).
Proof. exact (table_discipline table_ok_holds). Qed.

(* ------------------------------------------------------------------ non-vacuity *)
Module Ex.
  (* keys: 1 a utility, 2 an ordered container, 3 a multiview, 4 what the reader registers *)
  Definition rd : stmt := mkS 1%N 0%Z MSet 0%N [1%N] [4%N].        (* reads the utility; phase 0 *)
  Definition wr : stmt := mkS 2%N (-20)%Z MSet 0%N [] [1%N].       (* sets the utility; phase -20 *)
  Definition q1 : stmt := mkS 3%N (-10)%Z MSeq 0%N [1%N] [2%N].    (* two members of the container *)
  Definition q2 : stmt := mkS 4%N (-10)%Z MSeq 0%N [1%N] [2%N].
  Definition a1 : stmt := mkS 5%N 0%Z MAcc 7%N [2%N] [3%N].        (* two views of the multiview *)
  Definition a2 : stmt := mkS 6%N 0%Z MAcc 3%N [2%N] [3%N].
  Definition keys : list N := [1; 2; 3; 4]%N.

  (* the reader is declared BEFORE the writer of what it reads *)
  Definition p1 : list stmt := [rd; q1; a1; wr; q2; a2].
  Definition p2 : list stmt := [a2; wr; a1; q1; rd; q2].
  Definition p3 : list stmt := [a1; a2; q1; q2; wr; rd].

  Example p1_nodup : NoDup (map sid p1).
  Proof. vm_compute. repeat (constructor; [cbn [In]; intuition discriminate|]). constructor. Qed.

  Example p1_H1 : H1 p1.
  Proof. apply h1b_H1. vm_compute. reflexivity. Qed.

  Example p1_H2 : H2 p1.
  Proof. apply h2b_H2. vm_compute. reflexivity. Qed.

  Example p1_p2_perm : Permutation p1 p2.
  Proof.
    unfold p1, p2.
    apply (Permutation_cons_app [a2; wr; a1; q1] [q2]). cbn [app].
    apply (Permutation_cons_app [a2; wr; a1] [q2]). cbn [app].
    apply (Permutation_cons_app [a2; wr] [q2]). cbn [app].
    apply (Permutation_cons_app [a2] [q2]). cbn [app].
    apply perm_swap.
  Qed.

  Example p1_p3_perm : Permutation p1 p3.
  Proof.
    unfold p1, p3.
    apply (Permutation_cons_app [a1; a2; q1; q2; wr] []). cbn [app].
    apply (Permutation_cons_app [a1; a2] [q2; wr]). cbn [app].
    apply (Permutation_cons_app [] [a2; q2; wr]). cbn [app].
    apply (Permutation_cons_app [a2; q2] []). cbn [app].
    apply perm_swap.
  Qed.

  Lemma horder_seq2 k : forall l l',
    filter (fun s => is_seq s && writes k s) l = filter (fun s => is_seq s && writes k s) l' ->
    filter (seq_writer k) l = filter (seq_writer k) l'.
  Proof. intros l l' H. exact H. Qed.

  Example p1_p2_horder : Horder p1 p2.
  Proof.
    intros k. apply horder_seq2.
    cbv [p1 p2 rd wr q1 q2 a1 a2 filter is_seq smode writes swrites memN andb orb].
    destruct (N.eqb k 2); reflexivity.
  Qed.

  Example p1_p3_horder : Horder p1 p3.
  Proof.
    intros k. apply horder_seq2.
    cbv [p1 p3 rd wr q1 q2 a1 a2 filter is_seq smode writes swrites memN andb orb].
    destruct (N.eqb k 2); reflexivity.
  Qed.

  Example p1_ne_p2 : map sid p1 <> map sid p2 /\ map sid p1 <> map sid p3 /\ map sid p2 <> map sid p3.
  Proof. vm_compute. repeat split; discriminate. Qed.

  (* the theorem applies: all the hypotheses hold for these programs *)
  Example p1_p2_equal : store_eq (final p1) (final p2).
  Proof.
    apply commit_permutation_invariant;
      [exact p1_nodup|exact p1_p2_perm|exact p1_p2_horder|exact p1_H1|exact p1_H2].
  Qed.

  Example p1_p3_equal : store_eq (final p1) (final p3).
  Proof.
    apply commit_permutation_invariant;
      [exact p1_nodup|exact p1_p3_perm|exact p1_p3_horder|exact p1_H1|exact p1_H2].
  Qed.

  (* ... and the executable comparison agrees on the keys *)
  Example p1_p2_p3_cells :
    store_eqb keys (final p1) (final p2) = true /\ store_eqb keys (final p1) (final p3) = true.
  Proof. vm_compute. split; reflexivity. Qed.

  (* what the store contains: the reader (declared first) saw the writer's utility; the container
     keeps q1 before q2; the multiview is ordered by predicate order (3 before 7) *)
  Example p1_cells :
    final p1 1%N = [(0%N, Val 2 [])] /\
    final p1 4%N = [(0%N, Val 1 [[Val 2 []]])] /\
    map (fun c => match snd c with Val i _ => i end) (final p1 2%N) = [3%N; 4%N] /\
    map (fun c => (fst c, match snd c with Val i _ => i end)) (final p1 3%N) = [(3%N, 6%N); (7%N, 5%N)].
  Proof. vm_compute. repeat split; reflexivity. Qed.

  Example p1_forward : final p1 1%N = [(0%N, mkval wr (final p1))].
  Proof.
    refine (proj1 (proj2 (forward_reference_ok p1 rd wr 1%N p1_nodup p1_H1 p1_H2 _ _ _ _ _))).
    - left. reflexivity.
    - right. right. right. left. reflexivity.
    - left. reflexivity.
    - reflexivity.
    - reflexivity.
  Qed.

  (* H2 is needed: move the writer into the reader's phase; everything else still holds, and
     the two declaration orders now give different stores *)
  Definition wr0 : stmt := mkS 2%N 0%Z MSet 0%N [] [1%N].
  Definition c1 : list stmt := [rd; q1; a1; wr0; q2; a2].
  Definition c2 : list stmt := [a2; wr0; a1; q1; rd; q2].

  Example c1_hyps : h1b c1 = true /\ h2b c1 = false /\ horderb keys c1 c2 = true.
  Proof. vm_compute. repeat split; reflexivity. Qed.

  Example c1_c2_perm : Permutation c1 c2.
  Proof.
    unfold c1, c2.
    apply (Permutation_cons_app [a2; wr0; a1; q1] [q2]). cbn [app].
    apply (Permutation_cons_app [a2; wr0; a1] [q2]). cbn [app].
    apply (Permutation_cons_app [a2; wr0] [q2]). cbn [app].
    apply (Permutation_cons_app [a2] [q2]). cbn [app].
    apply perm_swap.
  Qed.

  Example c1_c2_differ : store_eqb keys (final c1) (final c2) = false.
  Proof. vm_compute. reflexivity. Qed.

  Example c1_c2_not_equal : ~ store_eq (final c1) (final c2).
  Proof. intros H. specialize (H 4%N). vm_compute in H. discriminate. Qed.

  (* Horder is needed: swapping the two members of the container changes the store *)
  Definition p4 : list stmt := [rd; q2; a1; wr; q1; a2].
  Example p1_p4_differ : h1b p4 = true /\ h2b p4 = true /\ horderb keys p1 p4 = false /\
                         store_eqb keys (final p1) (final p4) = false.
  Proof. vm_compute. repeat split; reflexivity. Qed.
End Ex.
