(* C09 -- end to end through the public entry points: a helper / policy CONSTRUCTED from keyword arguments (omitted ones =
   documented defaults), remember() through the policy, the cookie presented later, unauthenticated_userid() through the
   policy: exactly the user id that was remembered (type preserved; str(x) for an object outside the encoder table) while
   now <= issue + timeout, None afterwards -- never a raise, in any request state, reissue included. *)
From Coq Require Import List NArith ZArith Bool Lia.
Import ListNotations.
Require Import Verif.Lib.Wire Verif.Lib.Text Verif.Lib.Percent Verif.Lib.Utf8 Verif.Lib.C09Base Verif.Lib.C09BaseP.
Require Import Verif.Gen.Facts_C09 Verif.Model.C09 Verif.Proofs.C09 Verif.Proofs.C09_rt Verif.Proofs.C09_more
               Verif.Proofs.C09_gen Verif.Proofs.C09_w5.

Section E2E.
Variable H : text -> list N -> text.
Variable dsz : text -> nat.
Variable uni : N -> N.

(* identify() reports the user id identify_pre found, unless the reissue raises *)
Lemma identify_userid c r st ts u tk ud :
  identify_pre H dsz uni c r = ISome ts u tk ud -> snd (identify H dsz uni c r st) <> IRaise ->
  exists tk', snd (identify H dsz uni c r st) = ISome ts u tk' ud.
Proof.
  intros E. unfold identify. rewrite E.
  destruct (reissue_time c) as [rt|]; [|cbn [snd]; eauto].
  destruct (negb (reissued st) && cmp_eval reissue_cmp (now2 r - 2 * ts) (2 * rt)); [|cbn [snd]; eauto].
  destruct (remember H c (later r) u (max_age c) (filter nonempty tk)); cbn [snd]; [eauto|].
  intros X. exfalso. apply X. reflexivity.
Qed.

Theorem policy_end_to_end pol omit c r r' a ma toks st st' hs k v st2 :
  H_len H dsz -> H_head H ->
  mask_ok omit (default_eqs c) = true ->
  (0 <= now r < 4294967296)%Z -> wf_uval (uarg_val a) ->
  gen_policy_remember H (construct pol omit c) r st a ma toks = (st', Some hs) -> In k hs -> ck_value k = Some v ->
  cookie r' = Some v -> eff_ip c r' = eff_ip c r ->
  snd (gen_policy_userid H dsz uni (construct pol omit c) r' st2) =
  match spec_issued_identity c (Z.to_N (now r)) (uarg_val a) (shown_tokens toks) (now2 r') with
  | Some _ => USome (uarg_val a)
  | None => UNone
  end.
Proof.
  intros HL HH Hm Hn Hwf Hrem Hin Hv Hck Hip.
  rewrite (construct_omitting_defaults pol omit c Hm) in *.
  rewrite gen_policy_remember_is_helper, gen_remember_is_model in Hrem. unfold remember_result in Hrem.
  destruct (remember H c r (uarg_val a) ma toks) as [hs'|] eqn:R; [|discriminate].
  inversion Hrem; subst hs' st'; clear Hrem.
  destruct (remember_some _ _ _ _ _ _ _ R) as (R1 & R2 & R3).
  pose proof (encode_userid_uval_ok (uarg_val a) Hwf R2) as Hok.
  pose proof (identify_roundtrip H dsz uni c r r' (uarg_val a) ma toks hs k v HL HH Hn Hok R Hin Hv Hck Hip) as P.
  fold (shown_tokens toks) in P.
  rewrite gen_policy_userid_is_model. cbn [snd].
  destruct (spec_issued_identity c (Z.to_N (now r)) (uarg_val a) (shown_tokens toks) (now2 r')) as [[[ts u'] tk]|] eqn:S.
  - assert (Eu : u' = uarg_val a).
    { unfold spec_issued_identity in S. destruct (timeout c) as [t|].
      - destruct (negb (t =? 0)%Z && negb (now2 r' <=? 2 * (Z.of_N (Z.to_N (now r)) + t))%Z); inversion S; auto.
      - inversion S; auto. }
    subst u'.
    assert (NR : snd (identify H dsz uni c r' st2) <> IRaise)
      by (eapply issued_ticket_never_raises; eauto).
    destruct (identify_userid c r' st2 _ _ _ _ P NR) as (tk' & ->). reflexivity.
  - unfold identify. rewrite P. reflexivity.
Qed.

End E2E.

(* non-vacuity: a policy built with every keyword omitted, remember(True) at 1000, presented at 1001: the text 'True' *)
Example policy_end_to_end_nonvacuous :
  let c := default_cfg [115]%N in
  let c' := construct true (repeat true 13) c in
  match gen_policy_remember ex_H c' (ex_req None 1000) st0 (UOther [84; 114; 117; 101]%N) None [[97]%N] with
  | (_, Some [k]) =>
      match ck_value k with
      | Some v => snd (gen_policy_userid ex_H (fun _ => 2%nat) (fun _ => 63%N) c' (ex_req (Some v) 1001) st0)
                  = USome (VStr [84; 114; 117; 101]%N)
      | None => False
      end
  | _ => False
  end.
Proof. vm_compute. reflexivity. Qed.
