(* C11 -- proof-only round 3: what a child's ACL does to the principals reported for its parent.
     principals_allowed_child      q is reported for (child :: ancestors) iff the child's first entry speaking about q is an
                                   Allow, or the child has no such entry and q is reported for the ancestors;
     principals_allowed_no_acl     a location without __acl__ reports exactly what its parent reports;
     principals_allowed_inherits   a child ACL with no entry speaking about q keeps q's status;
     principals_allowed_app        the same over any number of descendants put below a lineage. *)
From Coq Require Import List NArith ZArith Bool Lia.
Import ListNotations.
Require Import Verif.Lib.Wire Verif.Gen.Facts_C11 Verif.Model.C11 Verif.Proofs.C11 Verif.Proofs.C11_gen
               Verif.Proofs.C11_char.

Theorem principals_allowed_child a L p q :
  In q (principals_allowed (Some a :: L) p) <->
  match scanx q p a with Some b => b = true | None => In q (principals_allowed L p) end.
Proof.
  rewrite principals_allowed_exact, explicitly_allowed_cons_some.
  destruct (scanx q p a) as [b|]; [reflexivity|]. symmetry. apply principals_allowed_exact.
Qed.

Theorem principals_allowed_no_acl L p : principals_allowed (None :: L) p = principals_allowed L p.
Proof. rewrite principals_allowed_cons. reflexivity. Qed.

Theorem principals_allowed_inherits a L p q :
  find (explicit_for q p) a = None ->
  (In q (principals_allowed (Some a :: L) p) <-> In q (principals_allowed L p)).
Proof. intros H. rewrite principals_allowed_child. unfold scanx. rewrite H. reflexivity. Qed.

(* any descendants D below a lineage L: q is reported iff the first entry of D speaking about q is an Allow, or D has
   none and q is reported for L *)
Theorem principals_allowed_app D L p q :
  In q (principals_allowed (D ++ L) p) <->
  match find (explicit_for q p) (flatten D) with
  | Some e => is_allow (act e) = true
  | None => In q (principals_allowed L p)
  end.
Proof.
  rewrite principals_allowed_exact. unfold explicitly_allowed.
  assert (F : flatten (D ++ L) = flatten D ++ flatten L) by (unfold flatten; rewrite map_app, concat_app; reflexivity).
  rewrite F, find_app. destruct (find (explicit_for q p) (flatten D)) as [e|]; [reflexivity|].
  symmetry. apply principals_allowed_exact.
Qed.

(* the regenerated program *)
Theorem gen_principals_allowed_child a L p q :
  In q (gen_principals_allowed (Some a :: L) p) <->
  match scanx q p a with Some b => b = true | None => In q (gen_principals_allowed L p) end.
Proof. rewrite !gen_principals_allowed_is_model. apply principals_allowed_child. Qed.

Theorem gen_principals_allowed_app D L p q :
  In q (gen_principals_allowed (D ++ L) p) <->
  match find (explicit_for q p) (flatten D) with
  | Some e => is_allow (act e) = true
  | None => In q (gen_principals_allowed L p)
  end.
Proof. rewrite !gen_principals_allowed_is_model. apply principals_allowed_app. Qed.

Example child_parent_nonvacuous :
  let a := [97]%N in let b := [98]%N in let v := [118]%N in
  let parent := [Some [mkAce Allow a (PStr v); mkAce Allow b (PStr v)]] in
  let child := [mkAce Deny a (PEq v)] in
  find (explicit_for b v) child = None /\ scanx a v child = Some false
  /\ principals_allowed parent v = [b; a] /\ principals_allowed (Some child :: parent) v = [b].
Proof. vm_compute. repeat split. Qed.
