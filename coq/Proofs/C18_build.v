(* C18 -- the graph-construction phase of TopologicalSorter.sorted
   (add_node / add_arc with the roots list) establishes the loop invariant. *)
From Coq Require Import List NArith ZArith Bool Lia.
Import ListNotations.
Require Import Verif.Lib.Wire Verif.Gen.Facts_C18 Verif.Model.C18 Verif.Proofs.C18_kahn.
Open Scope Z_scope.

Definition zero_graph (g : graph) : Prop := forall n e, aget n g = Some e -> e = (0, []).

Lemma NoDup_snoc {A} (l : list A) x : NoDup l -> ~ In x l -> NoDup (l ++ [x]).
Proof.
  induction l as [|y l IH]; intros Hnd Hx; simpl; [constructor; [intros []|constructor]|].
  inversion Hnd as [|? ? Hnot Hnd']; subst. constructor.
  - rewrite in_app_iff. simpl. intros [H|[H|[]]]; [contradiction|]. apply Hx. left. symmetry. exact H.
  - apply IH; [exact Hnd'|]. intros H. apply Hx. right. exact H.
Qed.

Lemma add_nodes_spec l : forall (g : graph) (roots : list node),
  keys g = roots -> NoDup roots -> zero_graph g ->
  forall (g' : graph) (roots' : list node), fold_left add_node l (g, roots) = (g', roots') ->
  keys g' = roots' /\ NoDup roots' /\ zero_graph g' /\ (forall n, In n roots' <-> In n roots \/ In n l).
Proof.
  induction l as [|x l IH]; intros g roots Hk Hnd Hz g' roots' Hf; simpl in Hf.
  - injection Hf as <- <-. repeat split; auto. intros [H|[]]; auto.
  - destruct (aget x g) as [e|] eqn:E.
    + destruct (IH g roots Hk Hnd Hz g' roots' Hf) as (H1 & H2 & H3 & H4).
      repeat split; auto.
      * intros H. apply H4 in H. simpl. tauto.
      * intros [H|[<-|H]]; apply H4; auto. left. rewrite <- Hk. eapply aget_Some_In; eauto.
    + assert (Hx : ~ In x (keys g)).
      { intros H. destruct (aget_In x g H) as (v & Hv). congruence. }
      assert (Hk2 : keys (g ++ [(x, (0, []))]) = roots ++ [x]).
      { unfold keys. rewrite map_app. simpl. fold (keys g). rewrite Hk. reflexivity. }
      assert (Hnd2 : NoDup (roots ++ [x])).
      { apply NoDup_snoc; [exact Hnd|rewrite <- Hk; exact Hx]. }
      assert (Hz2 : zero_graph (g ++ [(x, (0, []))])).
      { intros n e Hn. destruct (in_dec text_eq_dec n (keys g)) as [Hi|Hi].
        - rewrite aget_app_in in Hn by exact Hi. eapply Hz; eauto.
        - rewrite aget_app_notin in Hn by exact Hi. simpl in Hn.
          destruct (text_eqb n x); [congruence|discriminate]. }
      destruct (IH _ _ Hk2 Hnd2 Hz2 g' roots' Hf) as (H1 & H2 & H3 & H4).
      repeat split; auto.
      * intros H. apply H4 in H. rewrite in_app_iff in H. simpl in *. tauto.
      * intros H. apply H4. rewrite in_app_iff. simpl in H |- *. tauto.
Qed.

Definition indeg (p : list arc) (n : node) : Z := pend_in p n [].

Lemma pend_in_app p q n em : pend_in (p ++ q) n em = pend_in p n em + pend_in q n em.
Proof. induction p as [|[a b] p IH]; simpl; [reflexivity|]. rewrite IH. lia. Qed.

Lemma indeg_snoc p a b n : indeg (p ++ [(a, b)]) n = indeg p n + (if text_eqb b n then 1 else 0).
Proof. unfold indeg. rewrite pend_in_app. simpl. rewrite andb_true_r. lia. Qed.

Lemma children_of_app p q n : children_of (p ++ q) n = children_of p n ++ children_of q n.
Proof. unfold children_of. rewrite filter_app, map_app. reflexivity. Qed.

Lemma children_of_snoc p a b n : children_of (p ++ [(a, b)]) n = children_of p n ++ (if text_eqb a n then [b] else []).
Proof. rewrite children_of_app. unfold children_of at 2. simpl. destruct (text_eqb a n); reflexivity. Qed.

Record BInv (K : list node) (p : list arc) (g : graph) (roots : list node) : Prop := {
  b_keys : keys g = K;
  b_entry : forall n, In n K -> aget n g = Some (indeg p n, children_of p n);
  b_roots : roots = filter (fun n => indeg p n =? 0) K
}.

Lemma indeg_nonneg p n : 0 <= indeg p n.
Proof. apply pend_in_nonneg. Qed.

Lemma remove_first_filter f b l : NoDup l ->
  remove_first b (filter f l) = filter (fun n => f n && negb (text_eqb b n)) l.
Proof.
  induction l as [|y r IH]; intros Hnd; simpl; [reflexivity|]. inversion Hnd as [|? ? Hnot Hnd']; subst.
  destruct (f y) eqn:Ef; simpl.
  - destruct (text_eqb_spec b y) as [->|Hne]; simpl.
    + rewrite <- IH by exact Hnd'. symmetry. apply remove_first_notin.
      intros H. apply filter_In in H. tauto.
    + rewrite IH by exact Hnd'. reflexivity.
  - apply IH. exact Hnd'.
Qed.

Lemma add_arc_step K p (g : graph) roots a b (g' : graph) roots' :
  NoDup K -> BInv K p g roots -> In a K -> In b K ->
  add_arc (g, roots) (a, b) = (g', roots') -> BInv K (p ++ [(a, b)]) g' roots'.
Proof.
  intros HK [Hk He Hr] Ha Hb Hadd. unfold add_arc in Hadd. unfold graph, gentry in *.
  rewrite (He a Ha) in Hadd.
  set (g1 := aset a (indeg p a, children_of p a ++ [b]) g) in *.
  assert (Hk1 : keys g1 = K).
  { unfold g1. rewrite keys_aset_in; [exact Hk|]. pose proof Ha as Ha'. rewrite <- Hk in Ha'. exact Ha'. }
  assert (He1 : forall n, In n K ->
            aget n g1 = Some (indeg p n, children_of p n ++ (if text_eqb a n then [b] else []))).
  { intros n Hn. unfold g1. destruct (text_eqb_spec a n) as [->|Hne].
    - rewrite aget_aset_same. reflexivity.
    - rewrite aget_aset_other by exact Hne. rewrite app_nil_r. apply He, Hn. }
  rewrite (He1 b Hb) in Hadd. injection Hadd as <- <-.
  constructor.
  - rewrite keys_aset_in; [exact Hk1|]. pose proof Hb as Hb'. rewrite <- Hk1 in Hb'. exact Hb'.
  - intros n Hn. rewrite indeg_snoc, children_of_snoc.
    destruct (text_eqb_spec b n) as [->|Hne].
    + rewrite aget_aset_same. reflexivity.
    + rewrite aget_aset_other by exact Hne. rewrite Z.add_0_r. apply He1. exact Hn.
  - rewrite Hr, remove_first_filter by exact HK. apply filter_ext. intros n.
    rewrite indeg_snoc. pose proof (indeg_nonneg p n).
    destruct (text_eqb b n); simpl.
    + rewrite andb_false_r. symmetry. apply Z.eqb_neq. lia.
    + rewrite andb_true_r. f_equal. lia.
Qed.

Lemma add_arcs_spec K rest : NoDup K -> forall p (g : graph) roots,
  BInv K p g roots -> (forall a b, In (a, b) rest -> In a K /\ In b K) ->
  forall (g' : graph) roots', fold_left add_arc rest (g, roots) = (g', roots') -> BInv K (p ++ rest) g' roots'.
Proof.
  intros HK. induction rest as [|[a b] rest IH]; intros p g roots HB Hin g' roots' Hf; cbn [fold_left] in Hf.
  - injection Hf as <- <-. rewrite app_nil_r. exact HB.
  - destruct (add_arc (g, roots) (a, b)) as [g1 roots1] eqn:E.
    destruct (Hin a b (or_introl eq_refl)) as (Ha & Hb).
    pose proof (add_arc_step K p g roots a b g1 roots1 HK HB Ha Hb E) as HB1.
    replace (p ++ (a, b) :: rest) with ((p ++ [(a, b)]) ++ rest) by (rewrite <- app_assoc; reflexivity).
    apply (IH (p ++ [(a, b)]) g1 roots1 HB1); [intros a' b' H'; apply Hin; right; exact H'|exact Hf].
Qed.

Lemma fold_left_cond {A B} (f : A -> B -> A) (c : B -> bool) l : forall st,
  fold_left (fun st e => if c e then f st e else st) l st = fold_left f (filter c l) st.
Proof. induction l as [|x l IH]; intros st; simpl; [reflexivity|]. destruct (c x); simpl; apply IH. Qed.

Lemma filter_true_id {A} (f : A -> bool) l : (forall x, In x l -> f x = true) -> filter f l = l.
Proof.
  induction l as [|x l IH]; intros H; simpl; [reflexivity|].
  rewrite (H x (or_introl eq_refl)). rewrite IH; [reflexivity|]. intros; apply H; right; auto.
Qed.

(* the arcs the graph is built from *)
Definition parcs (s : sorter) : list arc := filter (arc_present (all_names s)) (all_order s).

Lemma build_cinv s (g : graph) roots :
  build s = (g, roots) ->
  CInv (parcs s) (keys g) roots g [] /\
  (forall n, In n (keys g) <-> In n (all_names s)) /\
  (forall a b, In (a, b) (parcs s) -> In a (keys g) /\ In b (keys g)).
Proof.
  unfold build. rewrite fold_left_cond. fold (parcs s).
  destruct (fold_left add_node (all_names s) ([], [])) as [g0 roots0] eqn:E0.
  intros Hb.
  destruct (add_nodes_spec (all_names s) [] [] eq_refl (NoDup_nil _) (fun n e H => ltac:(discriminate)) g0 roots0 E0)
    as (Hk0 & Hnd0 & Hz0 & Hin0).
  set (K := roots0) in *.
  assert (HB0 : BInv K [] g0 roots0).
  { constructor; [exact Hk0| |].
    - intros n Hn. rewrite <- Hk0 in Hn. destruct (aget_In n g0 Hn) as (e & He).
      rewrite He. rewrite (Hz0 _ _ He). reflexivity.
    - symmetry. apply filter_true_id. intros; reflexivity. }
  assert (HinK : forall a b, In (a, b) (parcs s) -> In a K /\ In b K).
  { intros a b H. apply filter_In in H. destruct H as (_ & H). unfold arc_present in H. cbn [fst snd] in H.
    apply andb_true_iff in H. destruct H as (H1 & H2). apply mem_text_In in H1, H2.
    split; apply Hin0; right; assumption. }
  pose proof (add_arcs_spec K (parcs s) Hnd0 [] g0 roots0 HB0 HinK g roots Hb) as [Hk He Hr].
  simpl in He, Hr. rewrite Hk.
  split; [|split].
  - constructor.
    + rewrite Hk. exact Hnd0.
    + intros n. rewrite Hk. simpl. tauto.
    + intros n c ch Hg. assert (Hn : In n K) by (rewrite <- Hk; eapply aget_Some_In; eauto).
      rewrite (He n Hn) in Hg. injection Hg as <- <-. split; reflexivity.
    + intros n. rewrite Hr, filter_In, Hk, Z.eqb_eq. reflexivity.
    + rewrite Hr. apply NoDup_filter. exact Hnd0.
    + intros l1 b l2 E. destruct l1; discriminate.
    + constructor.
    + intros n [].
  - intros n. split; intros H; [apply Hin0 in H; destruct H as [[]|H]; exact H|apply Hin0; right; exact H].
  - exact HinK.
Qed.
