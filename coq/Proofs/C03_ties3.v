(* C03 -- ties inside a MEDIA SUBSET of a MultiView.  Registrations that all carry the same accept= offer, added to an
   empty MultiView, build the subset of that offer exactly as plain registrations build [views] (simulation), so the
   first-registration-order theorem for interleaved overrides (Proofs/C03_ties2.v) holds inside the subset too. *)
From Coq Require Import List NArith ZArith Bool Lia.
Import ListNotations.
Require Import Verif.Lib.Wire Verif.Lib.Text Verif.Gen.Facts_C03 Verif.Model.C03 Verif.Proofs.C03 Verif.Proofs.C03_w
               Verif.Proofs.C03_ph Verif.Proofs.C03_loc Verif.Proofs.C03_ties Verif.Proofs.C03_ties2.

Definition media_of (m : mview) (a : offer) : list entry :=
  match assoc (o_full a) (mv_media m) with Some s => s | None => [] end.
Definition accept_add (a : offer) (ao : option (list text)) (x : reg * Z * text) : add_args :=
  let '(v, o, ph) := x in (v, o, ph, Some a, ao).

Lemma assoc_media_set_same k (v : list entry) m : assoc k (media_set k v m) = Some v.
Proof.
  induction m as [|[k' v'] m IH]; simpl.
  - rewrite text_eqb_refl. reflexivity.
  - destruct (text_eqb k k') eqn:E; simpl; [rewrite text_eqb_refl; reflexivity|]. rewrite E. exact IH.
Qed.

(* one step: with no plain views, an add with accept= a acts on the subset of a as a plain add acts on views *)
Lemma accept_add_step a ao m m' v o ph :
  mv_views m = [] -> media_of m a = mv_views m' ->
  mv_views (mv_add m v o ph (Some a) ao) = [] /\
  media_of (mv_add m v o ph (Some a) ao) a = mv_views (mv_add m' v o ph None None).
Proof.
  intros Hv Hs. unfold mv_add. rewrite Hv. cbn [replace_phash].
  change (match assoc (o_full a) (mv_media m) with Some s => s | None => [] end) with (media_of m a).
  rewrite Hs. destruct (replace_phash ph (o, v, ph) (mv_views m')) as [l'|];
    cbn [mv_views mv_media]; (split; [reflexivity|]); unfold media_of; cbn [mv_media];
    rewrite assoc_media_set_same; reflexivity.
Qed.

Theorem media_subset_simulation a ao (adds : list (reg * Z * text)) : forall m m',
  mv_views m = [] -> media_of m a = mv_views m' ->
  mv_views (fold_left mv_add_args (map (accept_add a ao) adds) m) = [] /\
  media_of (fold_left mv_add_args (map (accept_add a ao) adds) m) a
  = mv_views (fold_left mv_add_args (map plain_add adds) m').
Proof.
  induction adds as [|[[v o] ph] adds IH]; intros m m' Hv Hs; [split; assumption|].
  cbn [map fold_left accept_add plain_add mv_add_args].
  destruct (accept_add_step a ao m m' v o ph Hv Hs) as [H1 H2]. apply IH; assumption.
Qed.

(* registrations and overrides that all carry accept= a, interleaved at will, order a function of the phash: among
   entries of equal order the media subset of a lists the phashes in the order of their first registration *)
Theorem media_ties_first_registration f a ao (adds : list (reg * Z * text)) k :
  Forall (fun x : reg * Z * text => snd (fst x) = f (snd x)) adds ->
  filter (fun kp : Z * text => Z.eqb (fst kp) k)
         (map e_key (media_of (fold_left mv_add_args (map (accept_add a ao) adds) mv_empty) a))
  = map e_key (filter (same_order k) (map add_entry (first_adds [] adds))).
Proof.
  intros Hf. destruct (media_subset_simulation a ao adds mv_empty mv_empty eq_refl eq_refl) as [_ H].
  rewrite H. apply (ties_first_registration_interleaved f). exact Hf.
Qed.

Example media_ties_example :
  let a := mkOffer [116%N] [116%N] false in
  let a1 := (w_v1, 7%Z, [1%N]) in let a2 := (w_v2, 7%Z, [2%N]) in let a1' := (w_v2, 7%Z, [1%N]) in
  map e_key (media_of (fold_left mv_add_args (map (accept_add a None) [a1; a2; a1']) mv_empty) a)
  = [(7%Z, [1%N]); (7%Z, [2%N])].
Proof. vm_compute. reflexivity. Qed.
