(* C11 proofs: the loops of ACLHelper equal the declarative first-match
   specification, for lineages and ACLs of any size. *)
From Coq Require Import List NArith ZArith Bool Lia.
Import ListNotations.
Require Import Verif.Lib.Wire Verif.Gen.Facts_C11 Verif.Model.C11.

(* ---------- sets as lists *)
Lemma In_add q x l : In q (add x l) <-> q = x \/ In q l.
Proof.
  unfold add. destruct (mem_text x l) eqn:E.
  - apply mem_text_In in E. split; [auto|intros [->|H]; auto].
  - simpl. split; intros [H|H]; auto.
Qed.

Lemma In_remove q x l : In q (remove x l) <-> In q l /\ q <> x.
Proof.
  induction l as [|y r IH]; simpl; [tauto|].
  destruct (text_eqb_spec x y) as [->|Hne].
  - rewrite IH. split; [intros [H1 H2]; auto|intros [[->|H1] H2]; [contradiction|auto]].
  - simpl. rewrite IH. split.
    + intros [->|[H1 H2]]; auto.
    + intros [[->|H1] H2]; auto.
Qed.

Lemma In_union q a b : In q (union a b) <-> In q a \/ In q b.
Proof.
  unfold union. induction b as [|y r IH]; simpl; [tauto|].
  rewrite In_add, IH. split; [intros [->|[H|H]]|intros [H|[->|H]]]; auto.
Qed.

(* ---------- the permission test of the code is containment in the ACE's permission set.
   [perm_in] runs the REGENERATED is_nonstr_iter and AllPermissionsList.__contains__; the script only computes, so a
   rewrite of those functions with the same answers on the four kinds of objects is absorbed, any other fails. *)
Lemma perm_in_spec p v : perm_in p v = perm_has p v.
Proof. destruct v; reflexivity. Qed.

Lemma normalise_never_self_atom v : normalise gen_is_nonstr_iter v <> Self PAtom.
Proof. destruct v; discriminate. Qed.

(* what the normalisation is for: a bare str is wrapped (compared as a whole), every iterable is used as it is *)
Lemma normalise_spec v :
  normalise gen_is_nonstr_iter v = match v with PStr _ | PAtom | PEq _ => Wrapped v | _ => Self v end.
Proof. destruct v; reflexivity. Qed.

(* without the normalisation Python's [in] on a bare str is a substring test ("treats a string permission as a
   character set"): it differs from containment, e.g. "vi" in "view" *)
Lemma raw_membership_is_substring p s : contains gen_all_contains p (Self (PStr s)) = is_substr p s.
Proof. reflexivity. Qed.

Example raw_membership_differs :
  let vi := [118; 105]%N in let view := [118; 105; 101; 119]%N in
  contains gen_all_contains vi (Self (PStr view)) = true /\ perm_has vi (PStr view) = false.
Proof. vm_compute. split; reflexivity. Qed.

(* an application object (no str, no __iter__) whose __eq__ equals exactly the name s is, for the code, the permission s *)
Lemma eq_object_is_its_name p s : perm_in p (PEq s) = perm_in p (PStr s).
Proof. reflexivity. Qed.

Lemma ace_matches_spec ps p e : ace_matches ps p e = spec_matches ps p e.
Proof. unfold ace_matches, spec_matches. rewrite perm_in_spec. reflexivity. Qed.

(* ---------- permits = first match *)
Definition decide (o : option ace) : bool :=
  match o with Some e => match act e with Allow => true | _ => false end | None => false end.

Lemma scan_acl_find ps p a i :
  match scan_acl ps p a i with
  | Some (b, j) => exists e, find (spec_matches ps p) a = Some e /\ nth_error a (j - i) = Some e
                             /\ i <= j /\ b = decide (Some e)
  | None => find (spec_matches ps p) a = None
  end.
Proof.
  revert i; induction a as [|e r IH]; intros i; simpl; [reflexivity|].
  rewrite ace_matches_spec. destruct (spec_matches ps p e) eqn:E.
  - exists e. rewrite Nat.sub_diag. simpl. repeat split; auto.
  - specialize (IH (S i)). destruct (scan_acl ps p r (S i)) as [[b j]|]; [|exact IH].
    destruct IH as (e' & H1 & H2 & H3 & H4). exists e'. repeat split; auto; try lia.
    replace (j - i) with (S (j - S i)) by lia. exact H2.
Qed.

Lemma find_app {A} (f : A -> bool) l1 l2 :
  find f (l1 ++ l2) = match find f l1 with Some x => Some x | None => find f l2 end.
Proof. induction l1 as [|x l1 IH]; simpl; [reflexivity|]. destruct (f x); auto. Qed.

Lemma permits_from_granted d L ps p :
  granted (permits_from d L ps p) = spec_granted L ps p.
Proof.
  revert d; induction L as [|[a|] r IH]; intros d; simpl.
  - reflexivity.
  - unfold spec_granted, first_match, flatten in *. simpl. rewrite find_app.
    pose proof (scan_acl_find ps p a 0) as H.
    destruct (scan_acl ps p a 0) as [[b j]|].
    + destruct H as (e & H1 & _ & _ & H4). rewrite H1. simpl in H4. rewrite <- H4. destruct b; reflexivity.
    + rewrite H. apply IH.
  - unfold spec_granted, first_match, flatten in *. simpl. apply IH.
Qed.

Theorem permits_first_match L ps p :
  granted (permits L ps p) = spec_granted L ps p.
Proof. apply permits_from_granted. Qed.

(* which ACE decided: the one the declarative search finds *)
Lemma permits_from_which d L ps p :
  match permits_from d L ps p with
  | Allowed d' i | Denied d' i =>
      exists a e, d <= d' /\ nth_error L (d' - d) = Some (Some a) /\ nth_error a i = Some e
                  /\ first_match L ps p = Some e
  | DefaultDeny => first_match L ps p = None
  end.
Proof.
  revert d; induction L as [|[a|] r IH]; intros d; simpl.
  - reflexivity.
  - pose proof (scan_acl_find ps p a 0) as H.
    unfold first_match, flatten in *. simpl. rewrite find_app.
    destruct (scan_acl ps p a 0) as [[b j]|].
    + destruct H as (e & H1 & H2 & _ & _). rewrite Nat.sub_0_r in H2.
      destruct b; exists a, e; rewrite Nat.sub_diag, H1; simpl; auto.
    + rewrite H. specialize (IH (S d)).
      destruct (permits_from (S d) r ps p) as [d' i|d' i|]; auto;
        destruct IH as (a' & e & H1 & H2 & H3 & H4); exists a', e; repeat split; auto; try lia;
        replace (d' - d) with (S (d' - S d)) by lia; exact H2.
  - specialize (IH (S d)). unfold first_match, flatten in *. simpl.
    destruct (permits_from (S d) r ps p) as [d' i|d' i|]; auto;
      destruct IH as (a' & e & H1 & H2 & H3 & H4); exists a', e; repeat split; auto; try lia;
      replace (d' - d) with (S (d' - S d)) by lia; exact H2.
Qed.

Theorem permits_deciding_ace L ps p :
  match permits L ps p with
  | Allowed d i | Denied d i =>
      exists a e, nth_error L d = Some (Some a) /\ nth_error a i = Some e
                  /\ first_match L ps p = Some e
                  /\ (act e = Allow <-> granted (permits L ps p) = true)
  | DefaultDeny => first_match L ps p = None
  end.
Proof.
  pose proof (permits_from_which 0 L ps p) as H.
  pose proof (permits_first_match L ps p) as G. unfold permits in *.
  destruct (permits_from 0 L ps p) as [d i|d i|]; auto;
    destruct H as (a & e & _ & H2 & H3 & H4); rewrite Nat.sub_0_r in H2;
    exists a, e; repeat split; auto; unfold spec_granted in G; rewrite H4 in G; simpl in *;
    destruct (act e); try discriminate; auto.
Qed.

Theorem permits_default_deny L ps p :
  first_match L ps p = None -> permits L ps p = DefaultDeny.
Proof.
  intros H. pose proof (permits_from_which 0 L ps p) as W. unfold permits.
  destruct (permits_from 0 L ps p) as [d i|d i|]; auto;
    destruct W as (a & e & _ & _ & _ & H4); congruence.
Qed.

Theorem no_acl_refused L ps p :
  Forall (fun o => o = None \/ o = Some []) L -> permits L ps p = DefaultDeny.
Proof.
  intros H. apply permits_default_deny. unfold first_match, flatten.
  induction H as [|o r [->| ->] _ IH]; simpl; auto.
Qed.

(* child Deny beats parent Allow, and the dual *)
Theorem child_decides child parents ps p e :
  find (spec_matches ps p) child = Some e ->
  granted (permits (Some child :: parents) ps p) = decide (Some e).
Proof.
  intros H. rewrite permits_first_match. unfold spec_granted, first_match, flatten. simpl.
  rewrite find_app, H. reflexivity.
Qed.

(* ---------- principals_allowed is consistent with permits *)
Definition scanb (ps : list text) (p : text) (a : acl) : option bool :=
  match find (spec_matches ps p) a with Some e => Some (decide (Some e)) | None => None end.

Lemma scanb_cons ps p e r :
  scanb ps p (e :: r) = if spec_matches ps p e then Some (decide (Some e)) else scanb ps p r.
Proof. unfold scanb. simpl. destruct (spec_matches ps p e); reflexivity. Qed.

Lemma matches_pair q p e :
  spec_matches [q; everyone] p e = (text_eqb (who e) q || text_eqb (who e) everyone) && perm_has p (what e).
Proof. unfold spec_matches. simpl. rewrite orb_false_r. reflexivity. Qed.

Lemma pa_scan_keep p q a : forall al ah dh al' ah',
  forallb wf_action a = true ->
  pa_scan p a al ah dh = (al', ah') -> In q al' ->
  In q al /\ scanb [q; everyone] p a <> Some false.
Proof.
  induction a as [|e r IH]; intros al ah dh al' ah' Hwf H Hq; simpl in *.
  - inversion H; subst. split; [assumption|discriminate].
  - apply andb_true_iff in Hwf. destruct Hwf as [Hw Hwf]. unfold wf_action in Hw.
    rewrite ?perm_in_spec in H.
    rewrite scanb_cons, matches_pair.
    destruct (act e) eqn:Ea; try discriminate.
    + (* Allow *)
      assert (HH : exists ah2, pa_scan p r al ah2 dh = (al', ah')).
      { destruct (perm_has p (what e) && negb (mem_text (who e) dh)); eauto. }
      destruct HH as (ah2 & HH). destruct (IH _ _ _ _ _ Hwf HH Hq) as [I1 I2]. split; [assumption|].
      destruct ((text_eqb (who e) q || text_eqb (who e) everyone) && perm_has p (what e));
        [unfold decide; rewrite Ea; discriminate|assumption].
    + (* Deny *)
      destruct (perm_has p (what e)) eqn:Ep.
      * destruct (text_eqb_spec (who e) everyone) as [Ee|Ee].
        { inversion H; subst. contradiction. }
        destruct (IH _ _ _ _ _ Hwf H Hq) as [I1 I2]. apply In_remove in I1. destruct I1 as [I1 I3].
        split; [assumption|].
        destruct (text_eqb_spec (who e) q) as [Eq|Eq]; [congruence|]. simpl. assumption.
      * rewrite andb_false_r. eapply IH; eauto.
Qed.

Definition st_then (st : option bool) (k : option bool) : option bool :=
  match st with Some b => Some b | None => k end.

Lemma pa_scan_here p q a : forall al ah dh st al' ah',
  forallb wf_action a = true ->
  (In q ah -> st = Some true) -> (st = Some false -> In q dh) ->
  pa_scan p a al ah dh = (al', ah') -> In q ah' ->
  st_then st (scanb [q; everyone] p a) = Some true.
Proof.
  induction a as [|e r IH]; intros al ah dh st al' ah' Hwf H1 H2 H Hq; simpl in *.
  - inversion H; subst. rewrite (H1 Hq). reflexivity.
  - apply andb_true_iff in Hwf. destruct Hwf as [Hw Hwf]. unfold wf_action in Hw.
    rewrite ?perm_in_spec in H.
    rewrite scanb_cons, matches_pair.
    destruct (act e) eqn:Ea; try discriminate.
    + (* Allow *)
      set (m := (text_eqb (who e) q || text_eqb (who e) everyone) && perm_has p (what e)).
      assert (Hst : st_then st (if m then Some (decide (Some e)) else scanb [q; everyone] p r)
                    = st_then (st_then st (if m then Some true else None)) (scanb [q; everyone] p r)).
      { unfold decide. rewrite Ea. destruct st, m; reflexivity. }
      rewrite Hst.
      destruct (perm_has p (what e) && negb (mem_text (who e) dh)) eqn:Ec.
      * apply andb_true_iff in Ec. destruct Ec as [Ep Ed]. apply negb_true_iff in Ed.
        eapply IH; try eassumption.
        -- intros Hin. apply In_add in Hin. destruct Hin as [->|Hin].
           ++ destruct st as [[|]|]; simpl; auto.
              ** specialize (H2 eq_refl). apply mem_text_In in H2. congruence.
              ** unfold m. rewrite text_eqb_refl, Ep. reflexivity.
           ++ rewrite (H1 Hin). reflexivity.
        -- intros Hs. apply H2. destruct st as [[|]|]; simpl in Hs; try discriminate; auto.
           destruct m; discriminate.
      * eapply IH; try eassumption.
        -- intros Hin. rewrite (H1 Hin). reflexivity.
        -- intros Hs. apply H2. destruct st as [[|]|]; simpl in Hs; try discriminate; auto.
           destruct m; discriminate.
    + (* Deny *)
      destruct (perm_has p (what e)) eqn:Ep.
      * destruct (text_eqb_spec (who e) everyone) as [Ee|Ee].
        { inversion H; subst. rewrite (H1 Hq). reflexivity. }
        rewrite orb_false_r, andb_true_r.
        set (m := text_eqb (who e) q).
        assert (Hst : st_then st (if m then Some (decide (Some e)) else scanb [q; everyone] p r)
                      = st_then (st_then st (if m then Some false else None)) (scanb [q; everyone] p r)).
        { unfold decide. rewrite Ea. destruct st, m; reflexivity. }
        rewrite Hst. eapply IH; try eassumption.
        -- intros Hin. rewrite (H1 Hin). reflexivity.
        -- intros Hs. apply In_add. destruct st as [[|]|]; simpl in Hs; try discriminate.
           ++ right. apply H2. reflexivity.
           ++ left. unfold m in Hs. destruct (text_eqb_spec (who e) q); [auto|discriminate].
      * rewrite andb_false_r. eapply IH; eassumption.
Qed.

Lemma principals_allowed_cons o L p :
  principals_allowed (o :: L) p = pa_step p (principals_allowed L p) o.
Proof. unfold principals_allowed. simpl. rewrite fold_left_app. reflexivity. Qed.

Lemma spec_granted_cons_some a L ps p :
  spec_granted (Some a :: L) ps p =
  match scanb ps p a with Some b => b | None => spec_granted L ps p end.
Proof.
  unfold spec_granted, first_match, flatten, scanb. simpl. rewrite find_app.
  destruct (find (spec_matches ps p) a); reflexivity.
Qed.

Theorem allowed_consistent L p q :
  wf_lineage L = true ->
  In q (principals_allowed L p) ->
  granted (permits L [q; everyone] p) = true.
Proof.
  rewrite permits_first_match. unfold wf_lineage.
  induction L as [|[a|] L IH]; intros Hwf Hq.
  - contradiction.
  - rewrite principals_allowed_cons in Hq. unfold pa_step in Hq.
    destruct (pa_scan p a (principals_allowed L p) [] []) as [al ah] eqn:E.
    unfold flatten in Hwf. simpl in Hwf. rewrite forallb_app in Hwf.
    apply andb_true_iff in Hwf. destruct Hwf as [Hwa HwL].
    rewrite spec_granted_cons_some. apply In_union in Hq. destruct Hq as [Hq|Hq].
    + destruct (pa_scan_keep p q a _ _ _ _ _ Hwa E Hq) as [I1 I2].
      destruct (scanb [q; everyone] p a) as [[|]|]; try reflexivity; [congruence|].
      apply IH; assumption.
    + assert (HH : st_then None (scanb [q; everyone] p a) = Some true).
      { eapply pa_scan_here; try eassumption; [intros []|discriminate]. }
      simpl in HH. rewrite HH. reflexivity.
  - rewrite principals_allowed_cons in Hq. simpl in Hq. unfold flatten in Hwf. simpl in Hwf.
    unfold spec_granted, first_match, flatten. simpl. apply IH; assumption.
Qed.

(* ALL_PERMISSIONS contains every permission *)
Theorem all_permissions_contains_everything p : perm_in p PAll = true.
Proof. reflexivity. Qed.

(* non-vacuity: a concrete lineage in which the hypotheses are met and the
   interesting branches are taken *)
Example c11_nonvacuous :
  let alice := [97; 108]%N in let view := [118]%N in
  let L := [Some [mkAce Deny alice (PNames [view])]; Some [mkAce Allow alice PAll]] in
  wf_lineage L = true /\ permits L [alice] view = Denied 0 0
  /\ principals_allowed [Some [mkAce Allow alice PAll]] view = [alice]
  /\ principals_allowed L view = [].
Proof. vm_compute. repeat split. Qed.
