(* C14 -- part 4: view bodies that raise PredicateMismatch.  When no body outcome is a PredicateMismatch the
   pipeline with the search-goes-on loop ([run_request_pm]) is the plain pipeline ([run_request]) the theorems of
   parts 2-3 are about. *)
From Coq Require Import List NArith ZArith Bool Lia.
Import ListNotations.
Require Import Verif.Lib.Wire Verif.Gen.Facts_C03 Verif.Model.C03 Verif.Proofs.C03 Verif.Gen.Facts_C14 Verif.Model.C14
               Verif.Proofs.C14 Verif.Proofs.C14_b.

Definition no_pm (P : params) (W : world) : Prop :=
  forall sec deny site tag ctx a, is_pm W (fst (fst (run_body P W sec deny site tag ctx a))) = None.

Lemma hide_attrs_ext {A} names (f g : amap -> A * amap) m :
  (forall a, f a = g a) -> hide_attrs names f m = hide_attrs names g m.
Proof. intros H. unfold hide_attrs. destruct (hide_pop names m []) as [m1 s]. rewrite H. reflexivity. Qed.

Section NoPm.
Variables (P : params) (W : world).
Hypothesis Hno : no_pm P W.

Lemma views_loop_find deny site ctx rq l a evs :
  views_loop P W deny site ctx rq l a evs =
  match find (qualifies rq) l with
  | Some v => let '(o, ev, a') := run_body P W true deny site (r_tag v) ctx a in (Some o, evs ++ ev, a')
  | None => (None, evs, a)
  end.
Proof.
  induction l as [|v r IH]; simpl; [reflexivity|].
  destruct (qualifies rq v); [|exact IH].
  pose proof (Hno true deny site (r_tag v) ctx a) as H.
  destruct (run_body P W true deny site (r_tag v) ctx a) as [[o ev] a']. simpl in H. rewrite H. reflexivity.
Qed.

Definition pme_of (b : bool) (fpme : N) : option N := if b then Some fpme else None.

Lemma comps_loop_eq sec deny site ctx fpme rq l : forall b a evs,
  comps_loop P W sec deny site ctx fpme rq l (pme_of b fpme) a evs =
  match (if sec then call_loop rq l b else call_loop_p P rq l b) with
  | Ran t => let '(o, ev, a') := run_body P W sec deny site t ctx a in (Some o, evs ++ ev, a')
  | NotFoundPme => (Some (Raise fpme), evs, a)
  | NotFoundNone => (None, evs, a)
  end.
Proof.
  induction l as [|c r IH]; intros b a evs.
  - simpl. destruct sec, b; reflexivity.
  - destruct c as [v|m].
    + cbn [comps_loop].
      assert (Ecomp : (if sec then call_component rq (CView v) else call_component_p P rq (CView v))
                      = if qualifies rq v || (negb sec && r_secured v && negb (p_perm_checks P))
                        then Some (r_tag v) else None).
      { destruct sec; simpl; unfold call_reg.
        - rewrite orb_false_r. reflexivity.
        - destruct (r_secured v && negb (p_perm_checks P)); [rewrite orb_true_r; reflexivity|].
          rewrite orb_false_r. reflexivity. }
      destruct (qualifies rq v || (negb sec && r_secured v && negb (p_perm_checks P))).
      * pose proof (Hno sec deny site (r_tag v) ctx a) as H.
        destruct (run_body P W sec deny site (r_tag v) ctx a) as [[o ev] a'] eqn:Erb. simpl in H. rewrite H.
        destruct sec; simpl; simpl in Ecomp; rewrite Ecomp, Erb; reflexivity.
      * change (Some fpme) with (pme_of true fpme). rewrite IH.
        destruct sec; simpl; simpl in Ecomp; rewrite Ecomp; reflexivity.
    + cbn [comps_loop]. destruct sec.
      * rewrite views_loop_find. simpl call_loop. simpl call_component. rewrite mv_call_find.
        destruct (find (qualifies rq) (map e_view (get_views m rq))) as [v|]; simpl.
        -- destruct (run_body P W true deny site (r_tag v) ctx a) as [[o ev] a']. reflexivity.
        -- change (Some fpme) with (pme_of true fpme). rewrite IH. reflexivity.
      * simpl call_loop_p. simpl call_component_p. rewrite mv_call_find.
        destruct (find (qualifies rq) (map e_view (get_views m rq))) as [v|]; simpl.
        -- pose proof (Hno false deny site (r_tag v) ctx a) as H.
           destruct (run_body P W false deny site (r_tag v) ctx a) as [[o ev] a']. simpl in H. rewrite H. reflexivity.
        -- change (Some fpme) with (pme_of true fpme). rewrite IH. reflexivity.
Qed.

Lemma iev_pm_eq ri site rr sec e st : iev_pm P W ri site rr sec e st = iev P W ri site rr sec e st.
Proof.
  unfold iev_pm, iev.
  rewrite (hide_attrs_ext (p_hidden P) _
             (fun a =>
                let a := set_all (p_set_in P) e a in
                match call_view_sec P (w_reg W) sec exc_classifier_id (exc_request P W ri e) with
                | Ran tag =>
                    let '(o, evs, a2) := run_body P W sec (ri_deny ri) site tag e a in ((Some o, evs), a2)
                | NotFoundPme => ((Some (Raise (fresh_pme site)), []), a)
                | NotFoundNone => ((None, []), a)
                end)); [reflexivity|].
  intros a. cbv zeta.
  change (@None N) with (pme_of false (fresh_pme site)). rewrite comps_loop_eq.
  unfold call_view_sec, call_view.
  destruct sec;
    match goal with |- context [match ?c with Ran _ => _ | NotFoundPme => _ | NotFoundNone => _ end] =>
      destruct c as [t| |] end; try reflexivity;
    destruct (run_body P W _ (ri_deny ri) site t e (set_all (p_set_in P) e a)) as [[o ev] a']; reflexivity.
Qed.

Lemma main_handler_pm_eq ri second st : main_handler_pm P W ri second st = main_handler P W ri second st.
Proof.
  unfold main_handler_pm, main_handler. destruct (ri_root_raise ri); [reflexivity|]. cbv zeta.
  change (@None N) with (pme_of false id_h_pme). rewrite comps_loop_eq. unfold call_view.
  destruct (call_loop (req_of ri second)
              (find_views (w_reg W) view_classifier (q_req_sro (req_of ri second)) (q_ctx_sro (req_of ri second))
                 (q_view_name (req_of ri second))) false) as [t| |].
  - destruct (run_body P W true (ri_deny ri) site_main t ctx_resource (st_attrs st)) as [[o ev] a']. reflexivity.
  - simpl. rewrite app_nil_r. destruct st; reflexivity.
  - simpl. rewrite app_nil_r. destruct st; reflexivity.
Qed.

(* with no PredicateMismatch among the body outcomes the two pipelines produce the same trace *)
Theorem run_request_pm_eq ri : run_request_pm P W ri = run_request P W ri.
Proof.
  unfold run_request_pm, run_request_g, run_request.
  assert (Hu : forall st, under_tween_g W ri (main_handler_pm P W ri) (fun _ => iev_pm P W ri) st = under_tween P W ri st).
  { intros st. unfold under_tween_g, under_tween. destruct (ri_under ri) as [|e| |rr sec via thn].
    - apply main_handler_pm_eq.
    - reflexivity.
    - rewrite main_handler_pm_eq. destruct (main_handler P W ri false st) as [o st1]. apply main_handler_pm_eq.
    - rewrite main_handler_pm_eq. destruct (main_handler P W ri false st) as [[r|e] st1]; [reflexivity|].
      destruct (isa W cn_Exception e); [|reflexivity]. rewrite iev_pm_eq. reflexivity. }
  assert (He : forall o st, excview_tween_g P W (fun _ => iev_pm P W ri) o st = excview_tween P W ri o st).
  { intros o st. unfold excview_tween_g, excview_tween. destruct o as [r|e]; [reflexivity|].
    destruct (isa W (p_tween_catches P) e); [|reflexivity]. rewrite iev_pm_eq. reflexivity. }
  rewrite Hu. destruct (under_tween P W ri _) as [o1 st1]. rewrite He. reflexivity.
Qed.

End NoPm.

(* the premise, from the tables: no body raises an instance of PredicateMismatch and the framework's ValueError /
   HTTPForbidden are not PredicateMismatch *)
Lemma no_pm_from_tables P W :
  (forall tag e, b_act (body_of (w_bodies W) tag) = ARaise e -> isa W cn_PredicateMismatch e = false) ->
  (forall site, isa W cn_PredicateMismatch (fresh_ve site) = false
                /\ isa W cn_PredicateMismatch (fresh_forb site) = false) ->
  isa W cn_PredicateMismatch id_h_forb = false ->
  no_pm P W.
Proof.
  intros Hb Hf Hh sec deny site tag ctx a. unfold run_body.
  destruct (sec && b_perm (body_of (w_bodies W) tag) && deny).
  - simpl. destruct (N.eqb site site_main); [rewrite Hh|rewrite (proj2 (Hf site))]; reflexivity.
  - destruct (b_act (body_of (w_bodies W) tag)) as [| |e] eqn:E.
    + reflexivity.
    + destruct (p_default_view_ctx P && negb (N.eqb (status_of W (ctx_returned W ctx a)) 0)); simpl;
        [reflexivity|rewrite (proj1 (Hf site)); reflexivity].
    + simpl. rewrite (Hb tag e E). reflexivity.
Qed.

(* the search goes on: a single exception view whose body raises PredicateMismatch, then a less specific view *)
Definition pm_decls : list vdecl :=
  [mkDecl DExcView (Some 7%N) false true (mkArgs 1%N 0%N [] [] None false 3%N) 0%N (mkBody true (ARaise 1%N) false) None false;
   mkDecl DExcView None false false (mkArgs 1%N 0%N [] [] None false 4%N) 0%N (mkBody false ARet false) None false;
   mkDecl DView None false false (mkArgs 1%N 0%N [] [] None false 5%N) 0%N (mkBody false (ARaise 0%N) false) None false].
Definition pm_nm : named :=
  [(cn_Interface, 0%N); (cn_IRequest, 1%N); (cn_Exception, 6%N); (cn_HTTPNotFound, 8%N); (cn_HTTPForbidden, 9%N);
   (cn_IExceptionResponse, 10%N); (cn_WebobWSGIHTTPException, 11%N)].
Definition pm_excs : list exc :=
  [mkExc 0%N [7; 6; 0]%N [cn_Exception] 0%N;
   mkExc 1%N [13; 8; 10; 6; 0]%N [cn_Exception; cn_HTTPNotFound; cn_PredicateMismatch] 404%N].
Definition pm_W : world :=
  mkWorld (register_all accept_order_default (regs_upto spec_params pred_names pm_nm pm_decls 0%N))
          (bodies_of spec_params pm_nm pm_decls) pm_excs true false.
Definition pm_ri : rinfo :=
  mkRI (mkReq rm_get [] [] false None false [47%N] [([], [])] true [] [] [] [1; 0]%N [12; 0]%N [])
       None [1; 0]%N [1; 0]%N false None UPass None.

Example search_goes_on :
  run_request_pm spec_params pm_W pm_ri =
    [EBody 5 ctx_resource [None; None; None];
     EProbe (Raise 0) [None; None; None];
     EBody 3 0 [None; Some 0%N; Some 0%N];
     EBody 4 0 [Some 2003%N; Some 0%N; Some 0%N];
     EFinal (Resp (RView 4)) [None; Some 0%N; Some 0%N] (Some 0%N)]
  /\ run_request spec_params pm_W pm_ri <> run_request_pm spec_params pm_W pm_ri
  /\ judge (regs_upto spec_params pred_names pm_nm pm_decls 0%N) pm_W pm_ri (run_request_pm spec_params pm_W pm_ri) = true.
Proof. split; [vm_compute; reflexivity|]. split; [vm_compute; discriminate|vm_compute; reflexivity]. Qed.

Require Import Verif.Proofs.C14_c.

(* the judge theorem for the pipeline the correspondence run executes *)
Theorem judge_accepts_model_pm b regs W ri :
  no_pm (spec_params_b b) W ->
  b = true \/ sec_of (ri_under ri) = true ->
  (forall e, spec_ok exc_classifier_id regs (exc_request (spec_params_b b) W ri e)
               (call_view (w_reg W) exc_classifier_id (exc_request (spec_params_b b) W ri e)) = true) ->
  isa W cn_Exception ctx_resource = false ->
  (forall site, In site [site_under; site_tween] ->
     isa W cn_HTTPNotFound (fresh_nf site) = true /\ isa W cn_HTTPNotFound (fresh_pme site) = true
     /\ isa W cn_Exception (fresh_pme site) = true
     /\ isa W cn_HTTPForbidden (fresh_forb site) = true /\ isa W cn_Exception (fresh_forb site) = true
     /\ isa W cn_HTTPNotFound (fresh_forb site) = false) ->
  judge regs W ri (run_request_pm (spec_params_b b) W ri) = true.
Proof.
  intros Hno Hsec Hlook Hres Hfresh. rewrite (run_request_pm_eq _ _ Hno).
  apply judge_accepts_model; assumption.
Qed.

(* ------------------------------------------------------------------ *)
(* accept-aware: which exception view, with accept= in the configuration (C03's lookup_winner_media at the
   exception classifier): a qualifying registration before which no qualifying registration comes -- earlier
   request interface of the combined order, earlier class in the resolution order of the raised OBJECT, and inside
   one slot the accept-aware order of the MultiView (media subsets of the acceptable offers first) *)
Require Import Verif.Proofs.C03_med.

Theorem excview_nearest_class_media ao regs P W ri e :
  NoDup (map key regs) -> Forall accept_wf regs ->
  NoDup (q_req_sro (exc_request P W ri e)) -> NoDup (x_sro (find_exc (w_excs W) e)) ->
  match call_view (register_all ao regs) exc_classifier_id (exc_request P W ri e) with
  | Ran t => exists x, In x regs /\ r_tag x = t /\ candidate exc_classifier_id (exc_request P W ri e) x = true
                       /\ forall w, In w regs -> candidate exc_classifier_id (exc_request P W ri e) w = true ->
                                     strictly_before (exc_request P W ri e) w x = false
  | _ => forall w, In w regs -> candidate exc_classifier_id (exc_request P W ri e) w = false
  end.
Proof. intros Hk Hwf Hr Hc. apply lookup_winner_media; assumption. Qed.
