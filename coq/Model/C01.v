(* C01 -- URL dispatch (src/pyramid/urldispatch.py: Route, RoutesMapper.connect,
   RoutesMapper.__call__, _compile_route; traversal.split_path_info through
   Lib/PathNorm; webob's PATH_INFO decoding through Lib/Utf8).
   Executable definitions only.

   Exported for C06 (route URL generation): the pattern AST ([cls], [hre],
   [item], [pat]), [parse_pattern], [match_pat] (and the parametric
   [match_pat_with]), [mk_dict], [hole_ok]; lemmas match_sound / match_complete /
   match_greedy / match_spec are in Proofs/C01.v. *)
From Coq Require Import List NArith ZArith Bool String Ascii.
Import ListNotations.
Require Import Verif.Lib.Wire Verif.Lib.Text Verif.Lib.PathNorm Verif.Lib.Utf8 Verif.Gen.Facts_C01.
Local Close Scope N_scope.
Local Open Scope nat_scope.

(* readable ASCII constants *)
Definition T (s : string) : text := map N_of_ascii (list_ascii_of_string s).

(* ------------------------------------------------------------------ characters *)
Definition c_lbrace : N := 123.  Definition c_rbrace : N := 125.
Definition c_colon : N := 58.    Definition c_star : N := 42.
Definition c_nl : N := 10.       Definition c_gt : N := 62.

Definition is_lower (c : N) : bool := (97 <=? c)%N && (c <=? 122)%N.
Definition is_upper (c : N) : bool := (65 <=? c)%N && (c <=? 90)%N.
Definition is_digit_ascii (c : N) : bool := (48 <=? c)%N && (c <=? 57)%N.
Definition name_start (c : N) : bool := is_lower c || is_upper c || (c =? 95)%N.   (* [_a-zA-Z] *)
Definition ident_char (c : N) : bool := name_start c || is_digit_ascii c.            (* ASCII \w *)

(* Python's \w and \d on str patterns follow the Unicode database for
   non-ASCII characters; that part is an oracle (computed by the harness with
   [re] itself for the characters of the case; theorems hold for every oracle). *)
Record oracle := mkOracle { o_word : N -> bool; o_digit : N -> bool }.
Definition word (O : oracle) (c : N) : bool := if (c <? 128)%N then ident_char c else o_word O c.
Definition digit (O : oracle) (c : N) : bool := if (c <? 128)%N then is_digit_ascii c else o_digit O c.

(* ------------------------------------------------------------------ pattern AST *)
Inductive citem := CChar (c : N) | CRange (a b : N).
Inductive cls :=
| CSet (neg : bool) (items : list citem)    (* [...] / [^...] / a plain character *)
| CDigit                                    (* \d *)
| CWord                                     (* \w *)
| CDot.                                     (* .  (no DOTALL: everything but newline) *)
(* a placeholder's language: one character class repeated lo..hi times (hi = None: unbounded) *)
Record hre := mkHre { h_cls : cls; h_lo : nat; h_hi : option nat }.
Inductive item := Lit (l : text) | Hole (name : text) (h : hre).
Record pat := mkPat { items : list item; star : option text }.

Definition citem_mem (x : N) (i : citem) : bool :=
  match i with CChar c => (x =? c)%N | CRange a b => (a <=? x)%N && (x <=? b)%N end.
Definition cls_mem (O : oracle) (c : cls) (x : N) : bool :=
  match c with
  | CSet neg its => xorb neg (existsb (citem_mem x) its)
  | CDigit => digit O x
  | CWord => word O x
  | CDot => negb (x =? c_nl)%N
  end.

(* ------------------------------------------------------------------ facts decoding *)
Inductive anchor := Dollar | EndZ.
Definition anchor_of (t : text) : option anchor :=
  if text_eqb t (T "$") then Some Dollar
  else if text_eqb t (T "\Z") then Some EndZ
  else None.
Definition dotall_of (t : text) : option bool :=
  if text_eqb t (T "(?P<%s>.*?)") then Some false
  else if text_eqb t (T "(?P<%s>(?s:.*?))") then Some true
  else None.
(* what the current source says (unknown text: reported by the extractor and by
   [facts_ok]; the value used then is the strict one) *)
Definition the_anchor : anchor := match anchor_of anchor_suffix with Some a => a | None => EndZ end.
Definition the_dotall : bool := match dotall_of remainder_group_fmt with Some b => b | None => true end.

(* the hand-written parser below follows these texts *)
Definition regex_sources_ok : bool :=
  text_eqb old_route_re_src (T "(\:[_a-zA-Z]\w*)")
  && text_eqb star_at_end_src (T "\*(\w*)$")
  && text_eqb route_re_src (T "(\{[_a-zA-Z][^{}]*(?:\{[^{}]*\}[^{}]*)*\})")
  && text_eqb named_group_fmt (T "(?P<{name}>{reg})")
  && text_eqb name_reg_sep [c_colon]
  && (name_reg_maxsplit =? 1)%N
  && (compile_extra_args =? 0)%N && (module_re_flags =? 0)%N.

(* ------------------------------------------------------------------ {name:regex} sublanguage *)
Definition plain_atom (c : N) : bool :=          (* characters that stand for themselves outside a set *)
  is_lower c || is_upper c || is_digit_ascii c || (c =? 95)%N || (c =? 45)%N || (c =? 47)%N.
Definition range_end (c : N) : bool := is_lower c || is_upper c || is_digit_ascii c.
Definition set_special (c : N) : bool :=         (* characters not accepted as plain set members *)
  (c =? 92)%N || (c =? 91)%N || (c =? 93)%N || (c =? 94)%N || (c =? 45)%N
  || (c =? 38)%N || (c =? 124)%N || (c =? 126)%N.

(* items of a set up to the closing bracket; returns (items, text after the bracket) *)
Fixpoint parse_set_items (s : text) : option (list citem * text) :=
  match s with
  | [] => None
  | c :: r =>
      if (c =? 93)%N then Some ([], r)
      else if set_special c then None
      else
        let single := match parse_set_items r with Some (its, t) => Some (CChar c :: its, t) | None => None end in
        match r with
        | d :: e :: r2 =>
            if (d =? 45)%N then
              (if range_end c && range_end e && (c <=? e)%N then
                 match parse_set_items r2 with Some (its, t) => Some (CRange c e :: its, t) | None => None end
               else None)
            else single
        | _ => single
        end
  end.

(* one atom: \d \w . [set] [^set] or a plain character; returns (class, rest) *)
Definition parse_atom (s : text) : option (cls * text) :=
  match s with
  | [] => None
  | c :: r =>
      if (c =? 92)%N then
        match r with
        | d :: r2 => if (d =? 100)%N then Some (CDigit, r2) else if (d =? 119)%N then Some (CWord, r2) else None
        | [] => None
        end
      else if (c =? 46)%N then Some (CDot, r)
      else if (c =? 91)%N then
        let '(neg, r1) := match r with d :: r2 => if (d =? 94)%N then (true, r2) else (false, r) | [] => (false, r) end in
        match parse_set_items r1 with
        | Some (its, t) => match its with [] => None | _ => Some (CSet neg its, t) end
        | None => None
        end
      else if plain_atom c then Some (CSet false [CChar c], r)
      else None
  end.

(* decimal number of at most four digits *)
Fixpoint parse_digits (s : text) (acc : N) (n : nat) : option (N * text) :=
  match s with
  | c :: r => if is_digit_ascii c then
                match n with O => None | S k => parse_digits r (acc * 10 + (c - 48))%N k end
              else Some (acc, s)
  | [] => Some (acc, s)
  end.
Definition starts_digit (s : text) : bool := match s with c :: _ => is_digit_ascii c | [] => false end.

(* quantifier, which must end the regex: nothing + * ? {n} {n,} {,m} {n,m} *)
Definition parse_quant (s : text) : option (nat * option nat) :=
  match s with
  | [] => Some (1, Some 1)
  | [c] => if (c =? 43)%N then Some (1, None) else if (c =? 42)%N then Some (0, None)
           else if (c =? 63)%N then Some (0, Some 1) else None
  | c :: r =>
      if negb (c =? 123)%N then None else
      if starts_digit r then
        match parse_digits r 0 4 with
        | Some (n, r1) =>
            match r1 with
            | [e] => if (e =? 125)%N then Some (N.to_nat n, Some (N.to_nat n)) else None
            | e :: r2 =>
                if negb (e =? 44)%N then None else
                match r2 with
                | [f] => if (f =? 125)%N then Some (N.to_nat n, None) else None
                | _ => if starts_digit r2 then
                         match parse_digits r2 0 4 with
                         | Some (m, [f]) => if (f =? 125)%N && (n <=? m)%N then Some (N.to_nat n, Some (N.to_nat m)) else None
                         | _ => None
                         end
                       else None
                end
            | [] => None
            end
        | None => None
        end
      else
        match r with
        | e :: r2 =>
            if (e =? 44)%N && starts_digit r2 then
              match parse_digits r2 0 4 with
              | Some (m, [f]) => if (f =? 125)%N then Some (0, Some (N.to_nat m)) else None
              | _ => None
              end
            else None
        | [] => None
        end
  end.

Definition parse_reg (s : text) : option hre :=
  match parse_atom s with
  | Some (c, r) => match parse_quant r with Some (lo, hi) => Some (mkHre c lo hi) | None => None end
  | None => None
  end.

(* ------------------------------------------------------------------ _compile_route: pattern text -> AST *)
Inductive res (A : Type) := Ok (a : A) | CompileError | Unsupported | FactsDrift.
Arguments Ok {A} a. Arguments CompileError {A}. Arguments Unsupported {A}. Arguments FactsDrift {A}.

(* old_route_re.search: a colon followed by [_a-zA-Z] *)
Fixpoint has_old (s : text) : bool :=
  match s with
  | [] => false
  | c :: r => ((c =? c_colon)%N && match r with d :: _ => name_start d | [] => false end) || has_old r
  end.

(* route_re at one position, after the opening brace:
   a name-start character, non-brace characters, any number of one-level inner
   brace groups each followed by non-brace characters, the closing brace
   (deterministic: the classes exclude the delimiters) *)
Fixpoint brace_scan (s : text) (inner : bool) (acc_rev : text) : option (text * text) :=
  match s with
  | [] => None
  | c :: r =>
      if (c =? c_lbrace)%N then (if inner then None else brace_scan r true (c :: acc_rev))
      else if (c =? c_rbrace)%N then (if inner then brace_scan r false (c :: acc_rev) else Some (rev acc_rev, r))
      else brace_scan r inner (c :: acc_rev)
  end.
Definition brace_body (s : text) : option (text * text) :=
  match s with c :: r => if name_start c then brace_scan r false [c] else None | [] => None end.

(* route_re.search *)
Fixpoint has_brace (s : text) : bool :=
  match s with
  | [] => false
  | c :: r => ((c =? c_lbrace)%N && match brace_body r with Some _ => true | None => false end) || has_brace r
  end.

(* old_route_re.sub(update_pattern, route): every ":name" becomes "{name}" *)
Fixpoint old_sub (O : oracle) (s : text) (inname : bool) : text :=
  match s with
  | [] => if inname then [c_rbrace] else []
  | c :: r =>
      if inname && word O c then c :: old_sub O r true
      else
        (if inname then [c_rbrace] else []) ++
        (if (c =? c_colon)%N && match r with d :: _ => name_start d | [] => false end
         then c_lbrace :: old_sub O r true
         else c :: old_sub O r false)
  end.

(* route.rsplit('*', 1) *)
Fixpoint rsplit_star (s : text) : option (text * text) :=
  match s with
  | [] => None
  | c :: r => match rsplit_star r with
              | Some (a, b) => Some (c :: a, b)
              | None => if (c =? c_star)%N then Some ([], r) else None
              end
  end.

(* \w*$ : word characters, then the end or one final newline *)
Fixpoint word_then_end (O : oracle) (s : text) : bool :=
  match s with
  | [] => true
  | c :: r => match r with
              | [] => (c =? c_nl)%N || word O c
              | _ => word O c && word_then_end O r
              end
  end.

(* route_re.split(route): literal, {..}, literal, {..}, ..., literal *)
Inductive piece := PLit (t : text) | PHole (body : text).
Fixpoint split_route (s : text) (skip : nat) (lit_rev : text) : list piece :=
  match s with
  | [] => [PLit (rev lit_rev)]
  | c :: r =>
      match skip with
      | S k => split_route r k lit_rev
      | O =>
          if (c =? c_lbrace)%N then
            match brace_body r with
            | Some (body, _) => PLit (rev lit_rev) :: PHole body :: split_route r (S (List.length body)) []
            | None => split_route r 0 (c :: lit_rev)
            end
          else split_route r 0 (c :: lit_rev)
      end
  end.

(* name.split(':', 1) *)
Fixpoint split_colon (s : text) : text * option text :=
  match s with
  | [] => ([], None)
  | c :: r => if (c =? c_colon)%N then ([], Some r)
              else let '(a, b) := split_colon r in (c :: a, b)
  end.

(* group names: re requires an identifier; a '>' would end the name early and
   non-ASCII identifiers follow the Unicode database -- both outside the model *)
Definition name_check (n : text) : res unit :=
  if existsb (fun c => (128 <=? c)%N || (c =? c_gt)%N) n then Unsupported
  else match n with
       | c :: r => if name_start c && forallb ident_char r then Ok tt else CompileError
       | [] => CompileError
       end.

Definition piece_item (dflt : option hre) (p : piece) : res (option item) :=
  match p with
  | PLit [] => Ok None
  | PLit t => Ok (Some (Lit t))
  | PHole body =>
      let '(name, reg) := split_colon body in
      let h := match reg with Some r => parse_reg r | None => dflt end in
      match h with
      | None => Unsupported
      | Some h => match name_check name with
                  | Ok _ => Ok (Some (Hole name h))
                  | CompileError => CompileError
                  | Unsupported => Unsupported
                  | FactsDrift => FactsDrift
                  end
      end
  end.

(* Unsupported dominates (the model cannot tell what happens), then CompileError *)
Fixpoint seq_items (l : list (res (option item))) : res (list item) :=
  match l with
  | [] => Ok []
  | x :: r =>
      match x, seq_items r with
      | Unsupported, _ | _, Unsupported => Unsupported
      | FactsDrift, _ | _, FactsDrift => FactsDrift
      | CompileError, _ | _, CompileError => CompileError
      | Ok None, Ok l' => Ok l'
      | Ok (Some i), Ok l' => Ok (i :: l')
      end
  end.

Definition hole_names (its : list item) : list text :=
  flat_map (fun i => match i with Hole n _ => [n] | Lit _ => [] end) its.
Definition pat_names (p : pat) : list text :=
  hole_names (items p) ++ match star p with Some n => [n] | None => [] end.
Fixpoint has_dup (l : list text) : bool :=
  match l with [] => false | x :: r => mem_text x r || has_dup r end.

(* the pattern syntax as written down from the module regexes and _compile_route *)
Definition parse_core (O : oracle) (dflt : option hre) (src : text) : res pat :=
  let r1 := if has_old src && negb (has_brace src) then old_sub O src false else src in
  let r2 := if startswith [47%N] r1 then r1 else 47%N :: r1 in
  let '(r3, rem) := match rsplit_star r2 with
                    | Some (a, b) => if word_then_end O b then (a, b) else (r2, [])
                    | None => (r2, [])
                    end in
  match seq_items (map (piece_item dflt) (split_route r3 0 [])) with
  | Ok its =>
      let st := match rem with [] => Ok None
                | _ => match name_check rem with
                       | Ok _ => Ok (Some rem) | CompileError => CompileError
                       | Unsupported => Unsupported | FactsDrift => FactsDrift end
                end in
      match st with
      | Ok st => let p := mkPat its st in if has_dup (pat_names p) then CompileError else Ok p
      | CompileError => CompileError | Unsupported => Unsupported | FactsDrift => FactsDrift
      end
  | CompileError => match rem with [] => CompileError
                    | _ => match name_check rem with Unsupported => Unsupported | _ => CompileError end end
  | Unsupported => Unsupported
  | FactsDrift => FactsDrift
  end.

(* the model only claims to follow the source while the module regexes, the group format
   and the absence of re flags are the ones it was written against *)
Definition parse_pattern_with (O : oracle) (dflt : option hre) (src : text) : res pat :=
  if negb regex_sources_ok then FactsDrift else parse_core O dflt src.

(* the default placeholder regex is whatever the source says now *)
Definition parse_pattern (O : oracle) (src : text) : res pat :=
  parse_pattern_with O (parse_reg default_hole_regex) src.

(* ------------------------------------------------------------------ the compiled matcher *)
(* the end of the compiled regex: '$' also matches before one final newline *)
Definition at_end (a : anchor) (s : text) : bool :=
  match s with
  | [] => true
  | [c] => match a with Dollar => (c =? c_nl)%N | EndZ => false end
  | _ => false
  end.

(* (?P<rest>.*?) followed by the anchor: lazy, shortest capture first *)
Fixpoint lazy_star (a : anchor) (dotall : bool) (acc_rev s : text) : option text :=
  if at_end a s then Some (rev acc_rev)
  else match s with
       | [] => None
       | c :: r => if dotall || negb (c =? c_nl)%N then lazy_star a dotall (c :: acc_rev) r else None
       end.

Definition kend (a : anchor) (dotall : bool) (st : option text) (s : text) : option (list text) :=
  match st with
  | None => if at_end a s then Some [] else None
  | Some _ => match lazy_star a dotall [] s with Some v => Some [v] | None => None end
  end.

(* greedy: the longest run of class members, at most hi of them *)
Fixpoint span_upto (f : N -> bool) (hi : option nat) (s : text) : text * text :=
  match s with
  | [] => ([], [])
  | c :: r =>
      match hi with
      | Some O => ([], s)
      | _ => if f c then let '(p, q) := span_upto f (option_map pred hi) r in (c :: p, q) else ([], s)
      end
  end.

(* backtracking: tr = the run taken so far, reversed; give back one character
   at a time, never going below lo *)
Fixpoint back (lo : nat) (tr rest : text) (k : text -> option (list text)) : option (list text) :=
  match tr with
  | [] => match lo with O => option_map (cons []) (k rest) | S _ => None end
  | c :: tr' =>
      if (List.length tr <? lo)%nat then None
      else match k rest with
           | Some caps => Some (rev tr :: caps)
           | None => back lo tr' (c :: rest) k
           end
  end.

(* captures in placeholder order (the remainder capture last) *)
Fixpoint mi (ek : text -> option (list text)) (O : oracle) (its : list item) (s : text) : option (list text) :=
  match its with
  | [] => ek s
  | Lit l :: its' => match strip_prefix l s with Some r => mi ek O its' r | None => None end
  | Hole _ h :: its' =>
      let '(p, r) := span_upto (cls_mem O (h_cls h)) (h_hi h) s in
      back (h_lo h) (rev p) r (mi ek O its')
  end.

(* matcher(): groupdict, the remainder split into normalised segments *)
Inductive mval := MText (t : text) | MSegs (l : list text).
Definition matchdict := list (text * mval).
Fixpoint mk_dict (its : list item) (st : option text) (caps : list text) : matchdict :=
  match its with
  | [] => match st, caps with
          | Some n, v :: _ => [(n, MSegs (split_path_info v))]
          | _, _ => []
          end
  | Lit _ :: its' => mk_dict its' st caps
  | Hole n _ :: its' => match caps with
                        | v :: caps' => (n, MText v) :: mk_dict its' st caps'
                        | [] => []
                        end
  end.

Definition match_pat_with (a : anchor) (dotall : bool) (O : oracle) (p : pat) (s : text) : option matchdict :=
  match mi (kend a dotall (star p)) O (items p) s with
  | Some caps => Some (mk_dict (items p) (star p) caps)
  | None => None
  end.
Definition match_pat : oracle -> pat -> text -> option matchdict := match_pat_with the_anchor the_dotall.

(* ------------------------------------------------------------------ routes, predicates, mapper *)
Inductive pred := PConst (b : bool) | PMethod (m : text) | PEq (name v : text).
Record route := mkRoute { r_id : nat; r_name : text; r_pat : pat; r_preds : list pred }.

Fixpoint dict_get (d : matchdict) (k : text) : option mval :=
  match d with [] => None | (k', v) :: r => if text_eqb k k' then Some v else dict_get r k end.

Definition pred_ok (method : text) (d : matchdict) (p : pred) : bool :=
  match p with
  | PConst b => b
  | PMethod m => text_eqb m method
  | PEq n v => match dict_get d n with Some (MText t) => text_eqb t v | _ => false end
  end.

(* all(p(info, request) for p in preds): stops at the first false; returns the
   verdict and how many predicates were called *)
Fixpoint eval_preds (method : text) (d : matchdict) (ps : list pred) (n : nat) : bool * nat :=
  match ps with
  | [] => (true, n)
  | p :: r => if pred_ok method d p then eval_preds method d r (S n) else (false, S n)
  end.

Record mapper := mkMapper { routelist : list route; statics : list route; routes : list (text * route) }.
Definition empty_mapper : mapper := mkMapper [] [] [].

Fixpoint assoc_get (m : list (text * route)) (k : text) : option route :=
  match m with [] => None | (k', v) :: r => if text_eqb k k' then Some v else assoc_get r k end.
Fixpoint assoc_set (m : list (text * route)) (k : text) (v : route) : list (text * route) :=
  match m with
  | [] => [(k, v)]
  | (k', v') :: r => if text_eqb k k' then (k, v) :: r else (k', v') :: assoc_set r k v
  end.
(* list.remove(oldroute): routes compare by identity *)
Fixpoint remove_id (i : nat) (l : list route) : list route :=
  match l with [] => [] | x :: r => if Nat.eqb (r_id x) i then r else x :: remove_id i r end.

Record decl := mkDecl { d_name : text; d_src : text; d_static : bool; d_preds : list pred }.

(* RoutesMapper.connect; the old route of that name leaves routelist BEFORE the
   new pattern is compiled, so it is gone even when compilation raises *)
Definition connect (O : oracle) (m : mapper) (id : nat) (d : decl) : mapper * res unit :=
  let rl := match assoc_get (routes m) (d_name d) with
            | Some old => remove_id (r_id old) (routelist m)
            | None => routelist m
            end in
  match parse_pattern O (d_src d) with
  | Ok p =>
      let r := mkRoute id (d_name d) p (d_preds d) in
      (if d_static d
       then mkMapper rl (statics m ++ [r]) (assoc_set (routes m) (d_name d) r)
       else mkMapper (rl ++ [r]) (statics m) (assoc_set (routes m) (d_name d) r), Ok tt)
  | CompileError => (mkMapper rl (statics m) (routes m), CompileError)
  | Unsupported => (mkMapper rl (statics m) (routes m), Unsupported)
  | FactsDrift => (mkMapper rl (statics m) (routes m), FactsDrift)
  end.

Fixpoint connect_all (O : oracle) (m : mapper) (id : nat) (ds : list decl) : mapper * list (res unit) :=
  match ds with
  | [] => (m, [])
  | d :: r => let '(m1, st) := connect O m id d in
              let '(m2, sts) := connect_all O m1 (S id) r in (m2, st :: sts)
  end.

(* request.path_info or '/': PATH_INFO (latin-1 text of the bytes) decoded as
   strict UTF-8; missing key or empty -> the default *)
Inductive rpath := RErr | RPath (t : text).
Definition request_path (raw : option text) : rpath :=
  match raw with
  | None => RPath path_default
  | Some b => match Utf8.decode b with
              | None => RErr
              | Some [] => RPath path_default
              | Some t => RPath t
              end
  end.

(* RoutesMapper.__call__ after the path is known: first route whose pattern
   matches and whose predicates all hold; the trace lists (route id, number of
   predicates called) for every route whose pattern matched *)
Inductive outcome := ODecodeError | OMatch (r : route) (d : matchdict) | ONone | OConfigError.
Fixpoint dispatch_with (mt : pat -> text -> option matchdict) (method : text) (rs : list route) (path : text)
  : option (route * matchdict) * list (nat * nat) :=
  match rs with
  | [] => (None, [])
  | r :: rest =>
      match mt (r_pat r) path with
      | Some d =>
          let '(ok, n) := eval_preds method d (r_preds r) 0 in
          if ok then (Some (r, d), [(r_id r, n)])
          else let '(o, tr) := dispatch_with mt method rest path in (o, (r_id r, n) :: tr)
      | None => dispatch_with mt method rest path
      end
  end.
Definition dispatch (O : oracle) := dispatch_with (match_pat O).

Definition dispatch_request (O : oracle) (m : mapper) (method : text) (raw : option text)
  : outcome * list (nat * nat) :=
  match request_path raw with
  | RErr => (ODecodeError, [])
  | RPath path =>
      match dispatch O method (routelist m) path with
      | (Some (r, d), tr) => (OMatch r d, tr)
      | (None, tr) => (ONone, tr)
      end
  end.

(* ================================================================== declarative specification *)
(* the documented meaning of a bare {name}: one non-empty run without '/' *)
Definition spec_default_hole : hre := mkHre (CSet true [CChar 47%N]) 1 None.

Definition hole_ok (O : oracle) (h : hre) (v : text) : bool :=
  (h_lo h <=? List.length v)%nat
  && match h_hi h with Some m => (List.length v <=? m)%nat | None => true end
  && forallb (cls_mem O (h_cls h)) v.

Fixpoint lens_desc (n : nat) : list nat := match n with O => [O] | S k => n :: lens_desc k end.

(* every way of cutting the WHOLE text along the pattern; a placeholder's
   candidates are listed longest first; the remainder takes all that is left *)
Definition all_decs_end (st : option text) (s : text) : list (list text) :=
  match st with
  | None => match s with [] => [[]] | _ => [] end
  | Some _ => [[s]]
  end.
Fixpoint all_decs (O : oracle) (st : option text) (its : list item) (s : text) : list (list text) :=
  match its with
  | [] => all_decs_end st s
  | Lit l :: its' => match strip_prefix l s with Some r => all_decs O st its' r | None => [] end
  | Hole _ h :: its' =>
      flat_map (fun k => let v := firstn k s in
                         if hole_ok O h v then map (cons v) (all_decs O st its' (skipn k s)) else [])
               (lens_desc (List.length s))
  end.

Definition spec_match (O : oracle) (p : pat) (s : text) : option matchdict :=
  match all_decs O (star p) (items p) s with
  | caps :: _ => Some (mk_dict (items p) (star p) caps)
  | [] => None
  end.

(* the text a list of captures stands for (the remainder capture, if any, is the last one) *)
Fixpoint render (its : list item) (caps : list text) : text :=
  match its with
  | [] => match caps with v :: _ => v | [] => [] end
  | Lit l :: r => l ++ render r caps
  | Hole _ _ :: r => match caps with v :: c => v ++ render r c | [] => render r [] end
  end.
(* one capture per placeholder, each in its placeholder's language, plus one for the remainder *)
Fixpoint caps_ok (O : oracle) (st : option text) (its : list item) (caps : list text) : bool :=
  match its with
  | [] => match st, caps with None, [] => true | Some _, [_] => true | _, _ => false end
  | Lit _ :: r => caps_ok O st r caps
  | Hole _ h :: r => match caps with v :: c => hole_ok O h v && caps_ok O st r c | [] => false end
  end.

(* first route in order whose pattern matches the whole path and whose predicates all hold *)
Definition qualifies (O : oracle) (method path : text) (r : route) : bool :=
  match spec_match O (r_pat r) path with
  | Some d => forallb (pred_ok method d) (r_preds r)
  | None => false
  end.
Definition spec_dispatch (O : oracle) (method : text) (rs : list route) (path : text) : option (route * matchdict) :=
  match find (qualifies O method path) rs with
  | Some r => match spec_match O (r_pat r) path with Some d => Some (r, d) | None => None end
  | None => None
  end.

(* declaration order: a later declaration of a name replaces the earlier one and
   takes its (later) place; static routes are never matched *)
Fixpoint last_wins (ds : list (nat * decl)) : list (nat * decl) :=
  match ds with
  | [] => []
  | d :: r => if existsb (fun e => text_eqb (d_name (snd e)) (d_name (snd d))) r then last_wins r
              else d :: last_wins r
  end.
Fixpoint number {A} (i : nat) (l : list A) : list (nat * A) :=
  match l with [] => [] | x :: r => (i, x) :: number (S i) r end.

Fixpoint spec_routes (O : oracle) (ds : list (nat * decl)) : res (list route) :=
  match ds with
  | [] => Ok []
  | (i, d) :: r =>
      match parse_core O (Some spec_default_hole) (d_src d), spec_routes O r with
      | Ok p, Ok rs => Ok (if d_static d then rs else mkRoute i (d_name d) p (d_preds d) :: rs)
      | Unsupported, _ | _, Unsupported => Unsupported
      | FactsDrift, _ | _, FactsDrift => FactsDrift
      | _, _ => CompileError
      end
  end.

Inductive spec_outcome := SNothing (* the property says nothing *) | SDecodeError | SMatch (r : route) (d : matchdict) | SNone.
Definition all_ok (O : oracle) (ds : list decl) : bool :=
  forallb (fun d => match parse_core O (Some spec_default_hole) (d_src d) with Ok _ => true | _ => false end) ds.
Definition spec_request (O : oracle) (ds : list decl) (method : text) (raw : option text) : spec_outcome :=
  if negb (all_ok O ds) then SNothing else
  match spec_routes O (last_wins (number 0 ds)) with
  | Ok rs =>
      match request_path raw with
      | RErr => SDecodeError
      | RPath path => match spec_dispatch O method rs path with
                      | Some (r, d) => SMatch r d
                      | None => SNone
                      end
      end
  | _ => SNothing
  end.

(* ================================================================== wire glue *)
Definition get_pred (v : val) : option pred :=
  match v with
  | VL [VI 0%Z; b] => olet b := get_bool b in Some (PConst b)
  | VL [VI 1%Z; VT m] => Some (PMethod m)
  | VL [VI 2%Z; VT n; VT x] => Some (PEq n x)
  | _ => None
  end.
Definition get_decl (v : val) : option decl :=
  match v with
  | VL [VT n; VT s; st; ps] =>
      olet st := get_bool st in olet ps := get_list_of get_pred ps in Some (mkDecl n s st ps)
  | _ => None
  end.
Definition get_oracle (v : val) : option oracle :=
  match v with
  | VL [VT w; VT d] => Some (mkOracle (fun c => memN c w) (fun c => memN c d))
  | _ => None
  end.

Definition put_mval (v : mval) : val :=
  match v with MText t => VL [VI 0; VT t] | MSegs l => VL [VI 1; vtexts l] end.
Definition put_dict (d : matchdict) : val := VL (map (fun kv => VL [VT (fst kv); put_mval (snd kv)]) d).
Definition put_status (s : res unit) : val :=
  VI (match s with Ok _ => 0 | CompileError => 1 | Unsupported => 2 | FactsDrift => 3 end)%Z.
Definition put_trace (tr : list (nat * nat)) : val := VL (map (fun x => VL [vnat (fst x); vnat (snd x)]) tr).
Definition put_ids (l : list route) : val := VL (map (fun r => vnat (r_id r)) l).
Definition put_outcome (o : outcome) : val :=
  match o with
  | ODecodeError => VL [VI 0]
  | OMatch r d => VL [VI 1; vnat (r_id r); put_dict d]
  | ONone => VL [VI 2]
  | OConfigError => VL [VI 3]
  end.
Definition put_spec (o : spec_outcome) : val :=
  match o with
  | SNothing => VL []
  | SDecodeError => VL [VL [VI 0]]
  | SMatch r d => VL [VL [VI 1; vnat (r_id r); put_dict d]]
  | SNone => VL [VL [VI 2]]
  end.

Definition is_ok (s : res unit) : bool := match s with Ok _ => true | _ => false end.

(* ================================================================== second round (additive)
   1. generic connect / dispatch / spec over the parse and match functions;
   2. multi-atom placeholder regexes: {n:\d{4}-\d{2}} is a run of quantified atoms.  In the AST it
      is a run of consecutive [Hole]s carrying the SAME name (distinct placeholders can never share
      a name: re refuses the pattern), the matcher and the enumeration are the ones above, and the
      dictionary entries of such a run are concatenated by [merge_dict];
   3. a specification that also speaks when a declaration does not compile. *)

Definition connect_with (parse : text -> res pat) (m : mapper) (id : nat) (d : decl) : mapper * res unit :=
  let rl := match assoc_get (routes m) (d_name d) with
            | Some old => remove_id (r_id old) (routelist m)
            | None => routelist m
            end in
  match parse (d_src d) with
  | Ok p =>
      let r := mkRoute id (d_name d) p (d_preds d) in
      (if d_static d
       then mkMapper rl (statics m ++ [r]) (assoc_set (routes m) (d_name d) r)
       else mkMapper (rl ++ [r]) (statics m) (assoc_set (routes m) (d_name d) r), Ok tt)
  | CompileError => (mkMapper rl (statics m) (routes m), CompileError)
  | Unsupported => (mkMapper rl (statics m) (routes m), Unsupported)
  | FactsDrift => (mkMapper rl (statics m) (routes m), FactsDrift)
  end.

Fixpoint connect_all_with (parse : text -> res pat) (m : mapper) (id : nat) (ds : list decl)
  : mapper * list (res unit) :=
  match ds with
  | [] => (m, [])
  | d :: r => let '(m1, st) := connect_with parse m id d in
              let '(m2, sts) := connect_all_with parse m1 (S id) r in (m2, st :: sts)
  end.

Definition dispatch_request_with (mt : pat -> text -> option matchdict) (m : mapper) (method : text)
  (raw : option text) : outcome * list (nat * nat) :=
  match request_path raw with
  | RErr => (ODecodeError, [])
  | RPath path =>
      match dispatch_with mt method (routelist m) path with
      | (Some (r, d), tr) => (OMatch r d, tr)
      | (None, tr) => (ONone, tr)
      end
  end.

Definition qualifies_with (sm : pat -> text -> option matchdict) (method path : text) (r : route) : bool :=
  match sm (r_pat r) path with
  | Some d => forallb (pred_ok method d) (r_preds r)
  | None => false
  end.
Definition spec_dispatch_with (sm : pat -> text -> option matchdict) (method : text) (rs : list route)
  (path : text) : option (route * matchdict) :=
  match find (qualifies_with sm method path) rs with
  | Some r => match sm (r_pat r) path with Some d => Some (r, d) | None => None end
  | None => None
  end.

(* declarations that do not compile declare nothing -- but, being declarations of their name,
   they still replace an earlier route of that name (see [last_wins]) *)
Fixpoint spec_routes_with (parse : text -> res pat) (ds : list (nat * decl)) : list route :=
  match ds with
  | [] => []
  | (i, d) :: r =>
      match parse (d_src d) with
      | Ok p => if d_static d then spec_routes_with parse r
                else mkRoute i (d_name d) p (d_preds d) :: spec_routes_with parse r
      | _ => spec_routes_with parse r
      end
  end.
Definition sup_with (parse : text -> res pat) (ds : list decl) : bool :=
  forallb (fun d => match parse (d_src d) with Unsupported | FactsDrift => false | _ => true end) ds.
Definition spec_request_with (parse : text -> res pat) (sm : pat -> text -> option matchdict)
  (ds : list decl) (method : text) (raw : option text) : spec_outcome :=
  if negb (sup_with parse ds) then SNothing else
  match request_path raw with
  | RErr => SDecodeError
  | RPath path =>
      match spec_dispatch_with sm method (spec_routes_with parse (last_wins (number 0 ds))) path with
      | Some (r, d) => SMatch r d
      | None => SNone
      end
  end.

(* ---- multi-atom placeholder regexes *)
(* quantifier in front of [s] (none: exactly one); a second quantifier character right after it
   (lazy, possessive, multiple repeat) is outside the sublanguage *)
Definition quant_char (c : N) : bool := (c =? 43)%N || (c =? 42)%N || (c =? 63)%N || (c =? 123)%N.
Definition no_second_quant (s : text) : bool := match s with c :: _ => negb (quant_char c) | [] => true end.

(* text up to and including the first closing brace *)
Fixpoint upto_rbrace (s : text) : option (text * text) :=
  match s with
  | [] => None
  | c :: r => if (c =? c_rbrace)%N then Some ([c], r)
              else match upto_rbrace r with Some (a, b) => Some (c :: a, b) | None => None end
  end.

Definition parse_quant_m (s : text) : option ((nat * option nat) * text) :=
  match s with
  | [] => Some ((1, Some 1), [])
  | c :: r =>
      if (c =? 43)%N then (if no_second_quant r then Some ((1, None), r) else None)
      else if (c =? 42)%N then (if no_second_quant r then Some ((0, None), r) else None)
      else if (c =? 63)%N then (if no_second_quant r then Some ((0, Some 1), r) else None)
      else if (c =? 123)%N then
        match upto_rbrace r with
        | Some (q, rest) =>
            match parse_quant (c :: q) with
            | Some lohi => if no_second_quant rest then Some (lohi, rest) else None
            | None => None
            end
        | None => None
        end
      else Some ((1, Some 1), s)
  end.

(* atoms with quantifiers up to the end of the text; fuel = length of the text (every atom
   consumes a character; running out of fuel cannot happen and answers None) *)
Fixpoint parse_atoms (fuel : nat) (s : text) : option (list hre) :=
  match s with
  | [] => Some []
  | _ =>
      match fuel with
      | O => None
      | S k =>
          match parse_atom s with
          | Some (c, r) =>
              match parse_quant_m r with
              | Some ((lo, hi), r2) =>
                  match parse_atoms k r2 with Some l => Some (mkHre c lo hi :: l) | None => None end
              | None => None
              end
          | None => None
          end
      end
  end.
Definition parse_reg_m (s : text) : option (list hre) :=
  match parse_atoms (List.length s) s with
  | Some [] => None              (* the empty regex is not modelled *)
  | o => o
  end.

Definition piece_item_m (dflt : option (list hre)) (p : piece) : res (list text * list item) :=
  match p with
  | PLit [] => Ok ([], [])
  | PLit t => Ok ([], [Lit t])
  | PHole body =>
      let '(name, reg) := split_colon body in
      let hs := match reg with Some r => parse_reg_m r | None => dflt end in
      match hs with
      | None => Unsupported
      | Some hs => match name_check name with
                   | Ok _ => Ok ([name], map (Hole name) hs)
                   | CompileError => CompileError
                   | Unsupported => Unsupported
                   | FactsDrift => FactsDrift
                   end
      end
  end.

Fixpoint seq_items_m (l : list (res (list text * list item))) : res (list text * list item) :=
  match l with
  | [] => Ok ([], [])
  | x :: r =>
      match x, seq_items_m r with
      | Unsupported, _ | _, Unsupported => Unsupported
      | FactsDrift, _ | _, FactsDrift => FactsDrift
      | CompileError, _ | _, CompileError => CompileError
      | Ok (n, i), Ok (ns, is) => Ok (n ++ ns, i ++ is)
      end
  end.

(* r2 = the pattern text after the old-style rewrite and with its leading slash *)
Definition normalise (O : oracle) (src : text) : text :=
  let r1 := if has_old src && negb (has_brace src) then old_sub O src false else src in
  if startswith [47%N] r1 then r1 else 47%N :: r1.
(* route text and remainder name *)
Definition split_star (O : oracle) (r2 : text) : text * text :=
  match rsplit_star r2 with
  | Some (a, b) => if word_then_end O b then (a, b) else (r2, [])
  | None => (r2, [])
  end.

Definition parse_core_m (O : oracle) (dflt : option (list hre)) (src : text) : res pat :=
  let '(r3, rem) := split_star O (normalise O src) in
  match seq_items_m (map (piece_item_m dflt) (split_route r3 0 [])) with
  | Ok (names, its) =>
      let st := match rem with [] => Ok None
                | _ => match name_check rem with
                       | Ok _ => Ok (Some rem) | CompileError => CompileError
                       | Unsupported => Unsupported | FactsDrift => FactsDrift end
                end in
      match st with
      | Ok st => if has_dup (names ++ match st with Some n => [n] | None => [] end) then CompileError
                 else Ok (mkPat its st)
      | CompileError => CompileError | Unsupported => Unsupported | FactsDrift => FactsDrift
      end
  | CompileError => match rem with [] => CompileError
                    | _ => match name_check rem with Unsupported => Unsupported | _ => CompileError end end
  | Unsupported => Unsupported
  | FactsDrift => FactsDrift
  end.
Definition parse_pattern_m (O : oracle) (src : text) : res pat :=
  if negb regex_sources_ok then FactsDrift else parse_core_m O (parse_reg_m default_hole_regex) src.

(* the entries of a multi-atom placeholder (same name, consecutive) are one group: concatenate *)
Fixpoint merge_dict (d : matchdict) : matchdict :=
  match d with
  | [] => []
  | (k, MText v) :: r =>
      match merge_dict r with
      | (k', MText v') :: r' => if text_eqb k k' then (k, MText (v ++ v')) :: r'
                                else (k, MText v) :: (k', MText v') :: r'
      | r0 => (k, MText v) :: r0
      end
  | x :: r => x :: merge_dict r
  end.
Definition match_pat_m (O : oracle) (p : pat) (s : text) : option matchdict :=
  option_map merge_dict (match_pat O p s).
Definition spec_match_m (O : oracle) (p : pat) (s : text) : option matchdict :=
  option_map merge_dict (spec_match O p s).

Definition spec_parse_m (O : oracle) : text -> res pat := parse_core_m O (Some [spec_default_hole]).
Definition spec_request_m (O : oracle) : list decl -> text -> option text -> spec_outcome :=
  spec_request_with (spec_parse_m O) (spec_match_m O).
(* single-atom instance of the specification that also speaks about failing declarations *)
Definition spec_request_g (O : oracle) : list decl -> text -> option text -> spec_outcome :=
  spec_request_with (parse_core O (Some spec_default_hole)) (spec_match O).

(* printing of canonical patterns (round trip: Proofs/C01_b.v) *)
Definition print_quant (lo : nat) (hi : option nat) : option text :=
  match lo, hi with
  | 1, None => Some [43%N]
  | 0, None => Some [42%N]
  | 0, Some 1 => Some [63%N]
  | 1, Some 1 => Some []
  | _, _ => None
  end.
Definition print_citem (i : citem) : text := match i with CChar c => [c] | CRange a b => [a; 45%N; b] end.
Definition print_cls (c : cls) : text :=
  match c with
  | CSet neg its => 91%N :: (if neg then [94%N] else []) ++ flat_map print_citem its ++ [93%N]
  | CDigit => [92%N; 100%N]
  | CWord => [92%N; 119%N]
  | CDot => [46%N]
  end.
Definition print_hre (h : hre) : text :=
  print_cls (h_cls h) ++ match print_quant (h_lo h) (h_hi h) with Some q => q | None => [] end.
Definition hre_eqb_default (h : hre) : bool :=
  match h with
  | mkHre (CSet true [CChar c]) 1 None => (c =? 47)%N
  | _ => false
  end.
Definition print_item (i : item) : text :=
  match i with
  | Lit l => l
  | Hole n h => if hre_eqb_default h then c_lbrace :: n ++ [c_rbrace]
                else c_lbrace :: n ++ c_colon :: print_hre h ++ [c_rbrace]
  end.
Definition print_pat (p : pat) : text :=
  flat_map print_item (items p) ++ match star p with Some n => c_star :: n | None => [] end.

(* ---- histories (third round): several dispatches over one mapper.  matcher() builds a fresh
   dictionary on every call (fact [matcher_fresh_dict]: the "d = {} ... return d" shape, no cache
   decorator), so whatever a caller does to a dictionary it was handed cannot reach a later
   dispatch: the model of a history is the map of the stateless single dispatch.  When the fact
   does not hold the model claims nothing about histories. *)
Definition matcher_pure_ok : bool := (matcher_fresh_dict =? 1)%N.
Definition hist_outcomes (mt : pat -> text -> option matchdict) (m : mapper)
  (steps : list (option text * text)) : option (list outcome) :=
  if matcher_pure_ok
  then Some (map (fun s => fst (dispatch_request_with mt m (snd s) (fst s))) steps)
  else None.
(* specification: every dispatch is judged on its own path *)
Definition spec_hist (parse : text -> res pat) (sm : pat -> text -> option matchdict) (ds : list decl)
  (steps : list (option text * text)) : list spec_outcome :=
  map (fun s => spec_request_with parse sm ds (snd s) (fst s)) steps.
Definition get_step (v : val) : option (option text * text) :=
  match v with
  | VL [raw; VT method] => olet raw := get_opt get_text raw in Some (raw, method)
  | _ => None
  end.

(* ---- fourth round: target vocabulary of the translator (harness/c01/translate.py).  The program
   regenerated from the source (coq/Gen/Prog_C01.v) consists of control flow over these primitives
   and the definitions above. *)
(* request.path_info (WebOb): KeyError when PATH_INFO is missing, UnicodeDecodeError when it is not
   UTF-8, else the decoded text *)
Inductive pinfo := PI_missing | PI_undecodable | PI_text (t : text).
Definition req_path_info (raw : option text) : pinfo :=
  match raw with
  | None => PI_missing
  | Some b => match Utf8.decode b with None => PI_undecodable | Some t => PI_text t end
  end.
Definition l_is_nil {A} (l : list A) : bool := match l with [] => true | _ => false end.
Definition l_snoc {A} (l : list A) (x : A) : list A := l ++ [x].
Definition l_drop_last {A} (l : list A) : list A := removelast l.
(* results of RoutesMapper.__call__ with the predicate-call events of the path taken *)
Definition tracedout := (outcome * list (nat * nat))%type.
Definition ret_match (r : route) (d : matchdict) : tracedout := (OMatch r d, []).
Definition ret_none : tracedout := (ONone, []).
Definition ret_decode_error : tracedout := (ODecodeError, []).
(* all(p(info, request) for p in preds) was evaluated: n predicates of route i were called *)
Definition emit (ev : nat * nat) (k : tracedout) : tracedout := (fst k, ev :: snd k).
Definition preds_verdict (method : text) (d : matchdict) (ps : list pred) : bool := fst (eval_preds method d ps 0).
Definition preds_called (method : text) (d : matchdict) (ps : list pred) : nat := snd (eval_preds method d ps 0).
(* attribute updates of a RoutesMapper *)
Definition set_routelist (m : mapper) (l : list route) : mapper := mkMapper l (statics m) (routes m).
Definition set_statics (m : mapper) (l : list route) : mapper := mkMapper (routelist m) l (routes m).
Definition set_routes (m : mapper) (d : list (text * route)) : mapper := mkMapper (routelist m) (statics m) d.
(* oldroute in self.routelist: routes compare by identity *)
Definition mem_id (i : nat) (l : list route) : bool := existsb (fun r => Nat.eqb (r_id r) i) l.
Definition connected (m : mapper) : mapper * res unit := (m, Ok tt).
Definition connect_failed {A} (m : mapper) (e : res A) : mapper * res unit :=
  (m, match e with Ok _ => Ok tt | CompileError => CompileError | Unsupported => Unsupported | FactsDrift => FactsDrift end).
(* x.encode('latin-1') / y.decode('utf-8') *)
Definition latin1_encode (t : text) : option text := if forallb (fun c => (c <? 256)%N) t then Some t else None.
Definition utf8_decode_opt (b : option text) : option text := match b with Some x => Utf8.decode x | None => None end.

(* the matcher closure of _compile_route: d[k] = v on a dictionary, k == remainder *)
Fixpoint md_put (d : matchdict) (k : text) (v : mval) : matchdict :=
  match d with
  | [] => [(k, v)]
  | (k', v') :: r => if text_eqb k k' then (k, v) :: r else (k', v') :: md_put r k v
  end.
Definition is_remainder (k : text) (rem : option text) : bool :=
  match rem with Some n => text_eqb k n | None => false end.
(* reference model of the closure: a fresh dictionary per call, filled from the items of
   m.groupdict() in order, the remainder's value split into normalised segments *)
Definition matcher_step (rem : option text) (d : matchdict) (kv : text * text) : matchdict :=
  md_put d (fst kv) (if is_remainder (fst kv) rem then MSegs (split_path_info (snd kv)) else MText (snd kv)).
Definition matcher_model (groups : text -> option (list (text * text))) (rem : option text) (path : text)
  : option matchdict :=
  option_map (fun items => fold_left (matcher_step rem) items []) (groups path).

(* ---- fifth round: Configurator.add_route under a route prefix (config/routes.py).
   '{}/{}'.format(a, b) *)
Definition fmt_slash (a b : text) : text := a ++ 47%N :: b.
(* reference: route_prefix_context combines the prefix in force with the one of a nested
   include (None and '' are "no prefix"; surrounding slashes are dropped) *)
Definition nest_prefix_model (old new : option text) : option text :=
  let o := match old with Some x => x | None => [] end in
  let n := match new with Some x => x | None => [] end in
  let r := strip_char 47%N (fmt_slash (rstrip_char 47%N o) (lstrip_char 47%N n)) in
  if l_is_nil r then None else Some r.
(* reference: the pattern add_route hands to the mapper: the prefix without trailing slashes,
   '/', the declared pattern without LEADING slashes (its trailing slash is kept); the empty
   pattern with inherit_slash is the prefix itself; no prefix: the pattern as declared *)
Definition prefix_pattern_model (prefix : option text) (inherit : bool) (pattern : text) : text :=
  match prefix with
  | None => pattern
  | Some pf =>
      if l_is_nil pf then pattern
      else if text_eqb pattern [] && inherit then pf
      else rstrip_char 47%N pf ++ 47%N :: lstrip_char 47%N pattern
  end.
(* a declaration made inside nested includes with these route_prefix arguments (outermost first) *)
Definition effective_decl (nestf : option text -> option text -> option text)
  (prefixf : option text -> bool -> text -> text) (x : decl * list text * bool) : decl :=
  let '(d, levels, inh) := x in
  mkDecl (d_name d) (prefixf (fold_left (fun o p => nestf o (Some p)) levels None) inh (d_src d)) (d_static d) (d_preds d).
Definition get_decl_x (v : val) : option (decl * list text * bool) :=
  match v with
  | VL [VT n; VT s; st; ps] =>
      olet st := get_bool st in olet ps := get_list_of get_pred ps in Some (mkDecl n s st ps, [], false)
  | VL [VT n; VT s; st; ps; lv; inh] =>
      olet st := get_bool st in olet ps := get_list_of get_pred ps in
      olet lv := get_texts lv in olet inh := get_bool inh in Some (mkDecl n s st ps, lv, inh)
  | _ => None
  end.

(* ---- sixth round: histories on ONE long-lived mapper may also contain listings
   (get_routes / has_routes / get_route), which must leave the mapper as it is *)
Inductive hstep := HDispatch (raw : option text) (method : text) | HRoutes (include_static : bool) | HHas | HGet (name : text).
Definition get_hstep (v : val) : option hstep :=
  match v with
  | VL [VI 1%Z; b] => olet b := get_bool b in Some (HRoutes b)
  | VL [VI 2%Z] => Some HHas
  | VL [VI 3%Z; VT n] => Some (HGet n)
  | VL [raw; VT method] => olet raw := get_opt get_text raw in Some (HDispatch raw method)
  | _ => None
  end.
(* reference models of the three listings *)
Definition get_routes_model (m : mapper) (include_static : bool) : list route :=
  if include_static then routelist m ++ statics m else routelist m.
Definition has_routes_model (m : mapper) : bool := negb (l_is_nil (routelist m)).
Definition get_route_model (m : mapper) (name : text) : option route := assoc_get (routes m) name.
(* the answer of one step; the mapper is the same for every step: in the source the listings are
   functions of the mapper's attributes that assign nothing (the translator refuses any store,
   augmented assignment or mutating call in them) *)
Definition hist_item (callf : mapper -> text -> option text -> tracedout)
  (routesf : mapper -> bool -> list route) (hasf : mapper -> bool) (getf : mapper -> text -> option route)
  (m : mapper) (s : hstep) : val :=
  match s with
  | HDispatch raw method => put_outcome (fst (callf m method raw))
  | HRoutes b => VL [VI 4; put_ids (routesf m b)]
  | HHas => VL [VI 5; vbool (hasf m)]
  | HGet n => VL [VI 6; vopt (fun r => vnat (r_id r)) (getf m n)]
  end.
Definition hist_spec_item (parse : text -> res pat) (sm : pat -> text -> option matchdict) (ds : list decl) (s : hstep) : val :=
  match s with
  | HDispatch raw method => put_spec (spec_request_with parse sm ds method raw)
  | _ => VL []
  end.

Fixpoint connect_all_f (cf : mapper -> nat -> decl -> mapper * res unit) (m : mapper) (id : nat) (ds : list decl)
  : mapper * list (res unit) :=
  match ds with
  | [] => (m, [])
  | d :: r => let '(m1, st) := cf m id d in
              let '(m2, sts) := connect_all_f cf m1 (S id) r in (m2, st :: sts)
  end.

(* case   = [[wordchars; digitchars]; decls; [] | [PATH_INFO bytes]; method; mode; history?]
            mode 0: RoutesMapper driven directly; mode 1: Configurator.add_route + Router
            (duplicate names conflict and a failing connect aborts the commit)
            history = earlier dispatches [[] | [PATH_INFO]; method] over the same mapper
   answer = [[statuses; routelist ids; static ids; outcome; trace]; spec; history outcomes | ["drift"]; history spec]
   (multi-atom model and the specification that speaks about failing declarations) *)
Definition run_C01 (v : val) : val :=
  ret_or_bad (
    match v with
    | VL (o :: ds :: raw :: VT method :: VI mode :: rest) =>
        olet orc := get_oracle o in
        olet ds := get_list_of get_decl ds in
        olet raw := get_opt get_text raw in
        olet steps := match rest with
                      | [] => Some []
                      | [h] => get_list_of get_step h
                      | _ => None
                      end in
        let '(m, sts) := connect_all_with (parse_pattern_m orc) empty_mapper 0 ds in
        let router := negb (Z.eqb mode 0) in
        let cfgerr := router && (negb (forallb is_ok sts) || has_dup (map d_name ds)) in
        let model :=
          if cfgerr
          then VL [VL (map put_status sts); VL []; VL []; put_outcome OConfigError; VL []]
          else
            let '(out, tr) := dispatch_request_with (match_pat_m orc) m method raw in
            VL [VL (map put_status sts); put_ids (routelist m); put_ids (statics m); put_outcome out;
                if router then VL [] else put_trace tr] in
        let hist :=
          if cfgerr then VL []
          else match hist_outcomes (match_pat_m orc) m steps with
               | Some l => VL (map put_outcome l)
               | None => VL [VT (T "drift")]
               end in
        Some (VL [model; put_spec (spec_request_m orc ds method raw); hist;
                  VL (map put_spec (spec_hist (spec_parse_m orc) (spec_match_m orc) ds steps))])
    | _ => None
    end).

(* the same glue over any connect / __call__ functions: Extract/C01.v instantiates it with the
   program regenerated from the source (Gen/Prog_C01.v) *)
Definition run_C01_with
  (cf : (text -> res pat) -> mapper -> nat -> decl -> mapper * res unit)
  (callf : (pat -> text -> option matchdict) -> mapper -> text -> option text -> tracedout)
  (nestf : option text -> option text -> option text) (prefixf : option text -> bool -> text -> text)
  (routesf : mapper -> bool -> list route) (hasf : mapper -> bool) (getf : mapper -> text -> option route)
  (v : val) : val :=
  ret_or_bad (
    match v with
    | VL (o :: ds :: raw :: VT method :: VI mode :: rest) =>
        olet orc := get_oracle o in
        olet dxs := get_list_of get_decl_x ds in
        let ds := map (effective_decl nestf prefixf) dxs in
        let ds_spec := map (effective_decl nest_prefix_model prefix_pattern_model) dxs in
        olet raw := get_opt get_text raw in
        olet steps := match rest with
                      | [] => Some []
                      | [h] => get_list_of get_hstep h
                      | _ => None
                      end in
        let '(m, sts) := connect_all_f (cf (parse_pattern_m orc)) empty_mapper 0 ds in
        let router := negb (Z.eqb mode 0) in
        let cfgerr := router && (negb (forallb is_ok sts) || has_dup (map d_name ds)) in
        let model :=
          if cfgerr
          then VL [VL (map put_status sts); VL []; VL []; put_outcome OConfigError; VL []]
          else
            let '(out, tr) := callf (match_pat_m orc) m method raw in
            VL [VL (map put_status sts); put_ids (routelist m); put_ids (statics m); put_outcome out;
                if router then VL [] else put_trace tr] in
        let hist :=
          if cfgerr then VL []
          else if matcher_pure_ok
               then VL (map (hist_item (callf (match_pat_m orc)) routesf hasf getf m) steps)
               else VL [VT (T "drift")] in
        Some (VL [model; put_spec (spec_request_m orc ds_spec method raw); hist;
                  VL (map (hist_spec_item (spec_parse_m orc) (spec_match_m orc) ds_spec) steps)])
    | _ => None
    end).

(* ================================================================== seventh round (additive)
   Route predicates that are functions of the REQUEST (pyramid/predicates.py): request_param=,
   xhr=, plain or wrapped in not_(), and the traverse= pseudo-predicate.  A request-only predicate
   is resolved against the request it is evaluated on to its outcome ([PConst]); the mapper is the
   same for every request (its structure does not depend on the predicates), so a dispatch on
   request e is the dispatch of the declarations resolved on e. *)
Record renv := mkRenv { e_params : list (text * text); e_xhr : bool;
                         e_headers : list (text * text);   (* (header name as sent, value), distinct WSGI keys *)
                         e_orc : oracle;                    (* \w / \d of non-ASCII characters, for header regexes *)
                         e_method : text }.                 (* REQUEST_METHOD *)

(* request.params.get(k) (WebOb MultiDict / NestedMultiDict over a query string): the LAST value *)
Definition params_get (ps : list (text * text)) (k : text) : option text :=
  fold_left (fun acc kv => if text_eqb k (fst kv) then Some (snd kv) else acc) ps None.

(* str.strip(): the characters Python calls whitespace (fact [py_space_chars]) *)
Definition py_space (c : N) : bool := memN c py_space_chars.
Fixpoint lstrip_by (f : N -> bool) (s : text) : text :=
  match s with [] => [] | c :: r => if f c then lstrip_by f r else s end.
Definition strip_ws (s : text) : text := rev (lstrip_by py_space (rev (lstrip_by py_space s))).
(* s.split(c, 1) when c occurs *)
Fixpoint split_first (c : N) (s : text) : option (text * text) :=
  match s with
  | [] => None
  | x :: r => if (x =? c)%N then Some ([], r)
              else match split_first c r with Some (a, b) => Some (x :: a, b) | None => None end
  end.
(* RequestParamPredicate.__init__, one value: 'k' -> (k, None); 'k=v' -> (strip k, Some (strip v));
   a leading '=' belongs to the key ('=k=v' -> ('=k', v)); '=k' alone is a bare key *)
Definition c_eq : N := 61.
Definition param_parse (p : text) : text * option text :=
  match p with
  | c :: r =>
      if (c =? c_eq)%N
      then match split_first c_eq r with
           | Some (a, b) => (strip_ws (c_eq :: a), Some (strip_ws b))
           | None => (p, None)
           end
      else match split_first c_eq p with
           | Some (a, b) => (strip_ws a, Some (strip_ws b))
           | None => (p, None)
           end
  | [] => (p, None)
  end.
Definition param_init_model (vals : list text) : list (text * option text) := map param_parse vals.
(* RequestParamPredicate.__call__ (reference): every required key is present, and where a value is
   required (also the EMPTY value) the parameter's value equals it *)
Definition param_req_ok (ps : list (text * text)) (kv : text * option text) : bool :=
  match params_get ps (fst kv) with
  | None => false
  | Some a => match snd kv with None => true | Some v => text_eqb a v end
  end.
Definition param_call_model (reqs : list (text * option text)) (ps : list (text * text)) : bool :=
  forallb (param_req_ok ps) reqs.

(* a == b between two values that are a str or None *)
Definition otext_eqb (a b : option text) : bool :=
  match a, b with Some x, Some y => text_eqb x y | None, None => true | _, _ => false end.

(* ---- eighth round: header= predicates.  request.headers (WebOb EnvironHeaders): a header name is
   looked up under the WSGI key HTTP_ + NAME with '-' replaced by '_' (case-insensitive; Content-Type /
   Content-Length, which have no HTTP_ prefix, are not modelled) *)
Definition ascii_upper (c : N) : N := if is_lower c then (c - 32)%N else c.
Definition hdr_key (n : text) : text := map (fun c => if (c =? 45)%N then 95%N else ascii_upper c) n.
Fixpoint hdr_get (hs : list (text * text)) (n : text) : option text :=
  match hs with
  | [] => None
  | (k, v) :: r => if text_eqb (hdr_key n) (hdr_key k) then Some v else hdr_get r n
  end.
Definition hdr_mem (hs : list (text * text)) (n : text) : bool :=
  match hdr_get hs n with Some _ => true | None => false end.
(* compiled.match(value): the regex (a sequence of quantified atoms of the modelled sublanguage)
   matches a PREFIX of the value, greedy with backtracking as in the route matcher *)
Definition re_match (O : oracle) (atoms : list hre) (value : text) : bool :=
  match mi (fun _ => Some []) O (map (Hole []) atoms) value with Some _ => true | None => false end.
(* HeaderPredicate.__init__, one value: 'Name' -> (Name, None, None); 'Name:regex' -> (Name, compiled, regex)
   (split at the first colon, nothing is stripped); None = a regex outside the sublanguage *)
Definition hreq := (text * option (list hre) * option text)%type.
Definition header_parse (v : text) : option hreq :=
  match split_first c_colon v with
  | None => Some (v, None, None)
  | Some (n, r) => match parse_reg_m r with Some atoms => Some (n, Some atoms, Some r) | None => None end
  end.
Fixpoint header_init_model (vals : list text) : option (list hreq) :=
  match vals with
  | [] => Some []
  | v :: r => match header_parse v, header_init_model r with
              | Some q, Some l => Some (q :: l)
              | _, _ => None
              end
  end.
(* HeaderPredicate.__call__ (reference): EVERY requirement holds: a bare name is present; a name
   with a regex is present and the regex matches (a prefix of) its value *)
Definition header_req_ok (O : oracle) (hs : list (text * text)) (q : hreq) : bool :=
  match snd (fst q) with
  | None => hdr_mem hs (fst (fst q))
  | Some atoms => match hdr_get hs (fst (fst q)) with
                  | None => false
                  | Some value => re_match O atoms value
                  end
  end.
Definition header_call_model (O : oracle) (reqs : list hreq) (hs : list (text * text)) : bool :=
  forallb (header_req_ok O hs) reqs.

(* ---- request_method= (RequestMethodPredicate): __init__ adds HEAD to a value that has GET and no
   HEAD ("GET implies HEAD"; as_sorted_tuple's ordering is irrelevant to a membership test);
   __call__ is request.method in self.val *)
Definition t_GET : text := T "GET".
Definition t_HEAD : text := T "HEAD".
Definition mem_text (x : text) (l : list text) : bool := existsb (text_eqb x) l.
Definition method_init_model (vals : list text) : list text :=
  if mem_text t_GET vals && negb (mem_text t_HEAD vals) then vals ++ [t_HEAD] else vals.
Definition method_call_model (val : list text) (method : text) : bool := mem_text method val.

Inductive xpred :=
  | XBase (p : pred)
  | XParam (neg : bool) (vals : list text)
  | XXhr (neg : bool) (b : bool)
  | XTraverse (tp : text)
  | XHeader (neg : bool) (vals : list text)
  | XMethod (neg : bool) (vals : list text).
Definition header_verdict (hc : oracle -> list hreq -> list (text * text) -> bool) (e : renv) (vals : list text) : bool :=
  match header_init_model vals with
  | Some reqs => hc (e_orc e) reqs (e_headers e)
  | None => false     (* outside the model: such cases are reported Unsupported, see [xdecl_supported] *)
  end.
(* declarative meaning *)
Definition xpred_holds (e : renv) (method : text) (d : matchdict) (x : xpred) : bool :=
  match x with
  | XBase p => pred_ok method d p
  | XParam n vs => xorb n (forallb (param_req_ok (e_params e)) (map param_parse vs))
  | XXhr n b => xorb n (Bool.eqb (e_xhr e) b)
  | XTraverse _ => true
  | XHeader n vs => xorb n (header_verdict header_call_model e vs)
  | XMethod n vs => xorb n (method_call_model (method_init_model vs) (e_method e))
  end.
Definition xresolve (pc : list (text * option text) -> list (text * text) -> bool) (e : renv) (x : xpred) : pred :=
  match x with
  | XBase p => p
  | XParam n vs => PConst (xorb n (pc (param_init_model vs) (e_params e)))
  | XXhr n b => PConst (xorb n (Bool.eqb (e_xhr e) b))
  | XTraverse _ => PConst true
  | XHeader n vs => PConst (xorb n (header_verdict header_call_model e vs))
  | XMethod n vs => PConst (xorb n (method_call_model (method_init_model vs) (e_method e)))
  end.
(* the same with the header predicate's __call__ as a parameter (the regenerated one) *)
(* XHRPredicate.__call__ (reference): bool(request.is_xhr) is self.val *)
Definition xhr_call_model (val xhr : bool) : bool := Bool.eqb xhr val.
(* the __call__ methods of the four predicate classes, as parameters (the regenerated ones) *)
Record pcalls := mkPcalls {
  k_param : list (text * option text) -> list (text * text) -> bool;
  k_header : oracle -> list hreq -> list (text * text) -> bool;
  k_xhr : bool -> bool -> bool;
  k_method : list text -> text -> bool }.
Definition model_pcalls : pcalls := mkPcalls param_call_model header_call_model xhr_call_model method_call_model.
Definition xresolve_h (K : pcalls) (e : renv) (x : xpred) : pred :=
  match x with
  | XHeader n vs => PConst (xorb n (header_verdict (k_header K) e vs))
  | XXhr n b => PConst (xorb n (k_xhr K b (e_xhr e)))
  | XMethod n vs => PConst (xorb n (k_method K (method_init_model vs) (e_method e)))
  | _ => xresolve (k_param K) e x
  end.
Definition xpred_supported (x : xpred) : bool :=
  match x with
  | XHeader _ vs => match header_init_model vs with Some _ => true | None => false end
  | _ => true
  end.
Record xdecl := mkXDecl { x_name : text; x_src : text; x_static : bool; x_preds : list xpred;
                          x_levels : list text; x_inherit : bool;
                          x_pattern : option text;    (* ninth round: the pattern= argument as given (None = not given) *)
                          x_path : option text }.     (* the legacy path= argument *)
Definition xdecl_resolve (pc : list (text * option text) -> list (text * text) -> bool) (e : renv) (x : xdecl)
  : decl * list text * bool :=
  (mkDecl (x_name x) (x_src x) (x_static x) (map (xresolve pc e) (x_preds x)), x_levels x, x_inherit x).
Definition xdecl_resolve_h (K : pcalls) (e : renv) (x : xdecl) : decl * list text * bool :=
  (mkDecl (x_name x) (x_src x) (x_static x) (map (xresolve_h K e) (x_preds x)), x_levels x, x_inherit x).
Definition xdecl_supported (x : xdecl) : bool := forallb xpred_supported (x_preds x).
Definition is_traverse (p : xpred) : bool := match p with XTraverse _ => true | _ => false end.
Definition has_traverse_at (xs : list xdecl) (i : nat) : bool :=
  match nth_error xs i with Some x => existsb is_traverse (x_preds x) | None => false end.
(* TraversePredicate.__call__ stores m['traverse'] = <the traversal path generated from the
   dictionary> in the match dictionary it is handed, unless the dictionary already has that key
   (the pattern itself captures 'traverse': the traverse= argument is then ignored).
   The VALUE is URL generation + traversal (C06 / C02): the harness replaces it by the empty tuple. *)
Definition key_traverse : text := T "traverse".
Definition traverse_fix (xs : list xdecl) (o : outcome) : outcome :=
  match o with
  | OMatch r d => if has_traverse_at xs (r_id r)
                  then match dict_get d key_traverse with
                       | Some _ => o
                       | None => OMatch r (md_put d key_traverse (MSegs []))
                       end
                  else o
  | _ => o
  end.
(* the property: the dictionary holds exactly what the placeholders captured; a route declared
   with traverse= additionally carries the key 'traverse' -- unless a placeholder has that name *)
Definition spec_traverse_fix (xs : list xdecl) (o : spec_outcome) : spec_outcome :=
  match o with
  | SMatch r d => if has_traverse_at xs (r_id r)
                  then match dict_get d key_traverse with
                       | Some _ => o
                       | None => SMatch r (d ++ [(key_traverse, MSegs [])])
                       end
                  else o
  | _ => o
  end.

Definition get_xpred (v : val) : option xpred :=
  match v with
  | VL [VI 3%Z; n; vs] => olet n := get_bool n in olet vs := get_texts vs in Some (XParam n vs)
  | VL [VI 4%Z; n; b] => olet n := get_bool n in olet b := get_bool b in Some (XXhr n b)
  | VL [VI 6%Z; VT tp] => Some (XTraverse tp)
  | VL [VI 5%Z; n; vs] => olet n := get_bool n in olet vs := get_texts vs in Some (XHeader n vs)
  | VL [VI 7%Z; n; vs] => olet n := get_bool n in olet vs := get_texts vs in Some (XMethod n vs)
  | _ => olet p := get_pred v in Some (XBase p)
  end.
Definition get_xdecl (v : val) : option xdecl :=
  match v with
  | VL [VT n; VT s; st; ps; lv; inh] =>
      olet st := get_bool st in olet ps := get_list_of get_xpred ps in
      olet lv := get_texts lv in olet inh := get_bool inh in Some (mkXDecl n s st ps lv inh (Some s) None)
  | VL [VT n; pt; st; ps; lv; inh; lp] =>
      olet pt := get_opt get_text pt in olet lp := get_opt get_text lp in
      olet st := get_bool st in olet ps := get_list_of get_xpred ps in
      olet lv := get_texts lv in olet inh := get_bool inh in
      Some (mkXDecl n (match pt with Some s => s | None => [] end) st ps lv inh pt lp)
  | _ => None
  end.
Definition get_kv (v : val) : option (text * text) :=
  match v with VL [VT k; VT x] => Some (k, x) | _ => None end.
Definition get_renv (O : oracle) (v : val) : option renv :=
  match v with
  | VL [ps; x] => olet ps := get_list_of get_kv ps in olet x := get_bool x in Some (mkRenv ps x [] O [])
  | VL [ps; x; hs] => olet ps := get_list_of get_kv ps in olet x := get_bool x in
                      olet hs := get_list_of get_kv hs in Some (mkRenv ps x hs O [])
  | _ => None
  end.
(* a step of a history; a dispatch may come with its own request data *)
Definition get_xstep (O : oracle) (v : val) : option (hstep * option renv) :=
  match v with
  | VL [rawv; VT method; e] =>
      olet raw := get_opt get_text rawv in olet e := get_renv O e in Some (HDispatch raw method, Some e)
  | _ => olet s := get_hstep v in Some (s, None)
  end.

Definition xbuild (pc : list (text * option text) -> list (text * text) -> bool)
  (nestf : option text -> option text -> option text) (prefixf : option text -> bool -> text -> text)
  (xs : list xdecl) (e : renv) : list decl :=
  map (effective_decl nestf prefixf) (map (xdecl_resolve pc e) xs).

Definition xhist_item (xs : list xdecl) (callf : mapper -> text -> option text -> tracedout)
  (routesf : mapper -> bool -> list route) (hasf : mapper -> bool) (getf : mapper -> text -> option route)
  (m : mapper) (s : hstep) : val :=
  match s with
  | HDispatch raw method => put_outcome (traverse_fix xs (fst (callf m method raw)))
  | _ => hist_item callf routesf hasf getf m s
  end.
Definition xhist_spec_item (xs : list xdecl) (parse : text -> res pat) (sm : pat -> text -> option matchdict)
  (ds : list decl) (s : hstep) : val :=
  match s with
  | HDispatch raw method => put_spec (spec_traverse_fix xs (spec_request_with parse sm ds method raw))
  | _ => VL []
  end.

(* case   = [oracle; xdecls; [] | [PATH_INFO]; method; mode; history; request data]
   answer as [run_C01_with] *)
Definition run_C01_x
  (pc : list (text * option text) -> list (text * text) -> bool)
  (cf : (text -> res pat) -> mapper -> nat -> decl -> mapper * res unit)
  (callf : (pat -> text -> option matchdict) -> mapper -> text -> option text -> tracedout)
  (nestf : option text -> option text -> option text) (prefixf : option text -> bool -> text -> text)
  (routesf : mapper -> bool -> list route) (hasf : mapper -> bool) (getf : mapper -> text -> option route)
  (v : val) : val :=
  ret_or_bad (
    match v with
    | VL [o; ds; raw; VT method; VI mode; h; env] =>
        olet orc := get_oracle o in
        olet xs := get_list_of get_xdecl ds in
        olet raw := get_opt get_text raw in
        olet steps := get_list_of (get_xstep orc) h in
        olet e0 := get_renv orc env in
        let ds := xbuild pc nestf prefixf xs e0 in
        let ds_spec := xbuild param_call_model nest_prefix_model prefix_pattern_model xs e0 in
        let '(m, sts) := connect_all_f (cf (parse_pattern_m orc)) empty_mapper 0 ds in
        let router := negb (Z.eqb mode 0) in
        let cfgerr := router && (negb (forallb is_ok sts) || has_dup (map d_name ds)) in
        let model :=
          if cfgerr
          then VL [VL (map put_status sts); VL []; VL []; put_outcome OConfigError; VL []]
          else
            let '(out, tr) := callf (match_pat_m orc) m method raw in
            VL [VL (map put_status sts); put_ids (routelist m); put_ids (statics m); put_outcome (traverse_fix xs out);
                if router then VL [] else put_trace tr] in
        let env_of := fun (eo : option renv) => match eo with Some e => e | None => e0 end in
        let hist :=
          if cfgerr then VL []
          else if matcher_pure_ok
               then VL (map (fun se =>
                         let m_e := fst (connect_all_f (cf (parse_pattern_m orc)) empty_mapper 0
                                           (xbuild pc nestf prefixf xs (env_of (snd se)))) in
                         xhist_item xs (callf (match_pat_m orc)) routesf hasf getf m_e (fst se)) steps)
               else VL [VT (T "drift")] in
        Some (VL [model; put_spec (spec_traverse_fix xs (spec_request_m orc ds_spec method raw)); hist;
                  VL (map (fun se => xhist_spec_item xs (spec_parse_m orc) (spec_match_m orc)
                                       (xbuild param_call_model nest_prefix_model prefix_pattern_model xs (env_of (snd se)))
                                       (fst se)) steps)])
    | _ => None
    end).

(* eighth round: the same glue with the header predicate's __call__ as one more parameter; a case
   with a header regex outside the sublanguage is reported Unsupported (status 2, no specification) *)
Definition xbuild_h (K : pcalls)
  (nestf : option text -> option text -> option text) (prefixf : option text -> bool -> text -> text)
  (xs : list xdecl) (e : renv) : list decl :=
  map (effective_decl nestf prefixf) (map (xdecl_resolve_h K e) xs).

Definition with_method (e : renv) (method : text) : renv :=
  mkRenv (e_params e) (e_xhr e) (e_headers e) (e_orc e) method.
Definition step_env (e0 : renv) (se : hstep * option renv) : renv :=
  let e := match snd se with Some e => e | None => e0 end in
  match fst se with HDispatch _ method => with_method e method | _ => e end.
(* ---- ninth round: (1) the legacy path= argument of add_route; (2) a route name declared several
   times through config.include: the conflict resolution of the commit keeps the declaration made by
   the including configurator itself and drops the ones made inside includes -- at ITS OWN place in
   declaration order -- and refuses everything else. *)
(* add_route: `if pattern is None: pattern = path` ("if both path and pattern are passed, pattern wins");
   None = ConfigurationError *)
Definition legacy_pattern_model (pattern path : option text) : option text :=
  match pattern with Some p => Some p | None => path end.
Definition xdecl_effective (lf : option text -> option text -> option text) (x : xdecl) : option xdecl :=
  match lf (x_pattern x) (x_path x) with
  | Some p => Some (mkXDecl (x_name x) p (x_static x) (x_preds x) (x_levels x) (x_inherit x) (x_pattern x) (x_path x))
  | None => None
  end.
Fixpoint all_some {A} (l : list (option A)) : option (list A) :=
  match l with
  | [] => Some []
  | Some a :: r => match all_some r with Some t => Some (a :: t) | None => None end
  | None :: _ => None
  end.
(* include paths in the harness's world: a declaration with route-prefix levels is made inside its
   own chain of includes, one without is made by the root configurator (the empty include path, a
   prefix of every other).  Among the declarations of one name: a single one -> it stands; exactly
   one of them top-level -> it overrides the others; anything else conflicts. *)
Definition x_top (x : xdecl) : bool := l_is_nil (x_levels x).
Definition x_same (x y : xdecl) : bool := text_eqb (x_name x) (x_name y).
Definition override_verdict (xs : list xdecl) (x : xdecl) : option bool :=
  match filter (x_same x) xs with
  | [_] => Some true
  | grp => match filter x_top grp with [_] => Some (x_top x) | _ => None end
  end.
Fixpoint survivors (all : list xdecl) (i : nat) (xs : list xdecl) : option (list (nat * xdecl)) :=
  match xs with
  | [] => Some []
  | x :: r => match override_verdict all x, survivors all (S i) r with
              | Some true, Some t => Some ((i, x) :: t)
              | Some false, Some t => Some t
              | _, _ => None
              end
  end.
Definition resolve_overrides (xs : list xdecl) : option (list (nat * xdecl)) := survivors xs 0 xs.
(* route identities are declaration indexes: the survivors are connected in order and carry the
   index of their declaration *)
Definition ren_route (f : nat -> nat) (r : route) : route := mkRoute (f (r_id r)) (r_name r) (r_pat r) (r_preds r).
Definition ren_mapper (f : nat -> nat) (m : mapper) : mapper :=
  mkMapper (map (ren_route f) (routelist m)) (map (ren_route f) (statics m))
           (map (fun kv => (fst kv, ren_route f (snd kv))) (routes m)).
Definition ren_spec (f : nat -> nat) (o : spec_outcome) : spec_outcome :=
  match o with SMatch r d => SMatch (ren_route f r) d | _ => o end.
Definition ren_of (idx : list nat) (i : nat) : nat := nth i idx i.

Definition run_C01_y
  (K : pcalls)
  (cf : (text -> res pat) -> mapper -> nat -> decl -> mapper * res unit)
  (callf : (pat -> text -> option matchdict) -> mapper -> text -> option text -> tracedout)
  (nestf : option text -> option text -> option text) (prefixf : option text -> bool -> text -> text)
  (legacyf : option text -> option text -> option text)
  (routesf : mapper -> bool -> list route) (hasf : mapper -> bool) (getf : mapper -> text -> option route)
  (v : val) : val :=
  ret_or_bad (
    match v with
    | VL [o; ds; raw; VT method; VI mode; h; env] =>
        olet orc := get_oracle o in
        olet xs := get_list_of get_xdecl ds in
        olet raw := get_opt get_text raw in
        olet steps := get_list_of (get_xstep orc) h in
        olet e0 := get_renv orc env in
        let e0 := with_method e0 method in
        if negb (forallb xdecl_supported xs)
        then Some (VL [VL [VL (map (fun _ => VI 2%Z) xs); VL []; VL []; put_outcome ONone; VL []]; VL []; VL []; VL []])
        else
        let router := negb (Z.eqb mode 0) in
        let cfg_fail := Some (VL [VL [VL []; VL []; VL []; put_outcome OConfigError; VL []]; VL []; VL []; VL []]) in
        match all_some (map (xdecl_effective legacyf) xs) with
        | None => cfg_fail        (* neither pattern= nor path=: add_route raises ConfigurationError *)
        | Some xs =>
        match (if router then resolve_overrides xs else Some (number 0 xs)) with
        | None => cfg_fail        (* conflicting declarations of one route name *)
        | Some surv =>
        let xs' := map snd surv in
        let ren := ren_of (map fst surv) in
        let build := fun e => xbuild_h K nestf prefixf xs' e in
        let build_spec := fun e => xbuild param_call_model nest_prefix_model prefix_pattern_model
                                     (match all_some (map (xdecl_effective legacy_pattern_model) xs') with Some l => l | None => xs' end) e in
        let ds := build e0 in
        let '(m0, sts) := connect_all_f (cf (parse_pattern_m orc)) empty_mapper 0 ds in
        let m := ren_mapper ren m0 in
        let cfgerr := router && (negb (forallb is_ok sts) || has_dup (map d_name ds)) in
        let model :=
          if cfgerr
          then VL [VL (map put_status sts); VL []; VL []; put_outcome OConfigError; VL []]
          else
            let '(out, tr) := callf (match_pat_m orc) m method raw in
            VL [VL (map put_status sts); put_ids (routelist m); put_ids (statics m); put_outcome (traverse_fix xs out);
                if router then VL [] else put_trace tr] in
        let hist :=
          if cfgerr then VL []
          else if matcher_pure_ok
               then VL (map (fun se =>
                         let m_e := ren_mapper ren (fst (connect_all_f (cf (parse_pattern_m orc)) empty_mapper 0
                                                          (build (step_env e0 se)))) in
                         xhist_item xs (callf (match_pat_m orc)) routesf hasf getf m_e (fst se)) steps)
               else VL [VT (T "drift")] in
        Some (VL [model; put_spec (spec_traverse_fix xs (ren_spec ren (spec_request_m orc (build_spec e0) method raw))); hist;
                  VL (map (fun se =>
                         match fst se with
                         | HDispatch raw1 method1 =>
                             put_spec (spec_traverse_fix xs (ren_spec ren
                               (spec_request_with (spec_parse_m orc) (spec_match_m orc) (build_spec (step_env e0 se)) method1 raw1)))
                         | _ => VL []
                         end) steps)])
        end end
    | _ => None
    end).
