(* C08 -- application behaviour is independent of configuration statement order / nesting.
   Executable definitions only.

   What is modelled:
   * a STORE model of what configuration actions do: an action (statement) has a phase
     (its order= argument), keys it reads, keys it writes, and a write mode
       MSet  registerUtility-like (the last writer stays),
       MSeq  append to an ordered container (routes mapper, subscribers, tweens,
             predicate lists, derivers, static registrations),
       MAcc  MultiView.add: stable insertion by the view's predicate order
             (append, then list.sort on the order -- equal orders keep insertion order);
     the value written records the writer and everything the writer saw in the keys it
     read (free interpretation: equal stores = equal behaviour of any callables);
   * the schedule of a conflict-free flat commit: stable sort by phase (what C04's
     execute_actions does; [schedule]), and -- for the correspondence run -- the real C04
     model [commit] on the same actions with their include chains;
   * the directive table: every `self.action(` site with its REGENERATED phase and
     deferred flag (Gen/Facts_C08.sites) joined with the DECLARED read/write table
     (Gen/Facts_C08.declared), and the phase-discipline check [table_ok] over it. *)
From Coq Require Import List NArith ZArith Bool String.
Import ListNotations.
Require Import Verif.Lib.Wire Verif.Lib.C04Sort Verif.Model.C08_base Verif.Gen.Facts_C08 Verif.Model.C04.
Local Open Scope string_scope.

(* ------------------------------------------------------------------ reference model of the directives' emissions
   HAND-WRITTEN (from reading src/pyramid/config/*.py): which actions each directive declares.  The functions
   gen_emit_* of Gen/Facts_C08.v are regenerated from the source on every run; Proofs/C08_gen.v proves them equal
   to these, for every argument valuation. *)
Definition c1 (site head : string) (o : Z) (d cb : bool) : option (list call) :=
  Some [mkCall (tx site) (tx head) o d cb].
Definition guarded (valid : bool) (r : option (list call)) : option (list call) := if valid then r else None.
Definition seq2 (x y : option (list call)) : option (list call) :=
  match x, y with Some l, Some m => Some (app l m) | _, _ => None end.

Definition model_emit__add_predicate (v : bool) (a : dargs) := c1 "_add_predicate#0" "%s option" phase1 false true.
Definition model_emit_add_view_predicate := model_emit__add_predicate.
Definition model_emit_add_route_predicate := model_emit__add_predicate.
Definition model_emit_add_subscriber_predicate := model_emit__add_predicate.
Definition model_emit_add_subscriber (v : bool) (a : dargs) := c1 "add_subscriber#0" "None" default_order false true.
Definition model_emit_add_response_adapter (v : bool) (a : dargs) := c1 "add_response_adapter#0" "IResponse" default_order false true.
Definition model_emit_add_traverser (v : bool) (a : dargs) := c1 "add_traverser#0" "traverser" default_order false true.
Definition model_emit_add_resource_url_adapter (v : bool) (a : dargs) :=
  c1 "add_resource_url_adapter#0" "resource url adapter" default_order false true.
Definition model_emit_override_asset (v : bool) (a : dargs) := guarded v (c1 "override_asset#0" "None" phase1 false true).
Definition model_emit_set_root_factory (v : bool) (a : dargs) := c1 "set_root_factory#0" "IRootFactory" default_order false true.
Definition model_emit_set_session_factory (v : bool) (a : dargs) := c1 "set_session_factory#0" "ISessionFactory" default_order false true.
Definition model_emit_set_request_factory (v : bool) (a : dargs) := c1 "set_request_factory#0" "IRequestFactory" default_order false true.
Definition model_emit_set_response_factory (v : bool) (a : dargs) := c1 "set_response_factory#0" "IResponseFactory" default_order false true.
(* a placeholder (callable None, neither property nor reify) reserves the name without a callable; property/reify
   wrap the callable (make_property) so that a callable always exists *)
Definition model_emit_add_request_method (v : bool) (a : dargs) :=
  if a_property a || a_reify a then c1 "add_request_method#1" "request extensions" default_order false true
  else if a_callable_none a then c1 "add_request_method#0" "request extensions" default_order false false
  else c1 "add_request_method#2" "request extensions" default_order false true.
Definition model_emit_set_execution_policy (v : bool) (a : dargs) := c1 "set_execution_policy#0" "IExecutionPolicy" default_order false true.
Definition model_emit_set_locale_negotiator (v : bool) (a : dargs) := c1 "set_locale_negotiator#0" "ILocaleNegotiator" default_order false true.
Definition model_emit_add_translation_dirs (v : bool) (a : dargs) := guarded v (c1 "add_translation_dirs#0" "None" default_order false true).
Definition model_emit_add_renderer (v : bool) (a : dargs) := c1 "add_renderer#0" "IRendererFactory" phase1 false true.
(* route-connect stays in the default phase (declaration order), the request interface goes to PHASE2 *)
Definition model_emit_add_route (v : bool) (a : dargs) :=
  guarded v (Some [mkCall (tx "add_route#0") (tx "route-connect") default_order false true;
                   mkCall (tx "add_route#1") (tx "route") phase2 false true]).
Definition model_emit_set_security_policy (v : bool) (a : dargs) := c1 "set_security_policy#0" "ISecurityPolicy" phase2 false true.
Definition model_emit_set_authentication_policy (v : bool) (a : dargs) :=
  c1 "set_authentication_policy#0" "IAuthenticationPolicy" phase2 false true.
Definition model_emit_set_authorization_policy (v : bool) (a : dargs) :=
  Some [mkCall (tx "set_authorization_policy#0") (tx "IAuthorizationPolicy") phase1 false true;
        mkCall (tx "set_authorization_policy#1") (tx "None") default_order false true].
Definition model_emit_set_default_permission (v : bool) (a : dargs) := c1 "set_default_permission#0" "IDefaultPermission" phase1 false true.
Definition model_emit_add_permission (v : bool) (a : dargs) := c1 "add_permission#0" "None" default_order false false.
Definition model_emit_set_default_csrf_options (v : bool) (a : dargs) :=
  c1 "set_default_csrf_options#0" "IDefaultCSRFOptions" phase1 false true.
Definition model_emit_set_csrf_storage_policy (v : bool) (a : dargs) :=
  c1 "set_csrf_storage_policy#0" "ICSRFStoragePolicy" default_order false true.
Definition model_emit__add_tween (v : bool) (a : dargs) := guarded v (c1 "_add_tween#0" "tween" default_order false true).
Definition model_emit_add_tween := model_emit__add_tween.
(* views: the default phase, Deferred discriminator *)
Definition model_emit_add_view (v : bool) (a : dargs) := guarded v (c1 "add_view#0" "view" default_order true true).
Definition model_emit_add_forbidden_view := model_emit_add_view.
Definition model_emit_add_notfound_view := model_emit_add_view.
Definition model_emit_add_exception_view := model_emit_add_view.
Definition model_emit_add_accept_view_order (v : bool) (a : dargs) :=
  c1 "add_accept_view_order#0" "accept view order" phase1 false true.
Definition model_emit_add_view_deriver (v : bool) (a : dargs) := guarded v (c1 "add_view_deriver#0" "view deriver" phase1 false true).
Definition model_emit_set_view_mapper (v : bool) (a : dargs) := c1 "set_view_mapper#0" "IViewMapperFactory" phase1 false true.
(* a static view named by a URL only records the registration; otherwise route + view + registration *)
Definition model_emit_static_info_add (v : bool) (a : dargs) :=
  if a_name_is_url a then c1 "add#0" "None" default_order false true
  else seq2 (seq2 (model_emit_add_route v a) (model_emit_add_view v a)) (c1 "add#0" "None" default_order false true).
Definition model_emit_add_static_view := model_emit_static_info_add.
Definition model_emit_static_info_add_cache_buster (v : bool) (a : dargs) := c1 "add_cache_buster#0" "None" default_order false true.
Definition model_emit_add_cache_buster := model_emit_static_info_add_cache_buster.

(* ------------------------------------------------------------------ reference model of the registration path
   HAND-WRITTEN: what Configurator.action / ActionState.action / Configurator.commit do (gen_cfg_action,
   gen_state_action, gen_commit of Gen/Facts_C08.v are regenerated from config/actions.py) *)
Definition model_state_action (w : world) (d : disc) (cb : bool) (o : Z) (p : path) (info : N) (intrs : list N) : world :=
  p_append w (mkQ d cb o p info intrs).
Definition model_cfg_action (w : world) (d : disc) (cb : bool) (o : Z) (intrs : list N) : world :=
  let intrs' := if w_introspection w then intrs else [] in     (* introspection off: introspectables ignored *)
  let info := w_info w in
  if w_autocommit w then
    (* executed on the spot, between begin() and end(): discriminator forced, callable run, introspectables registered *)
    let w1 := p_undefer (p_begin w) d in
    let w2 := if cb then p_call w1 else w1 in
    p_end (fold_left (fun w' x => p_register w' x info) intrs' w2)
  else
    (* queued with the configurator's include chain and the current action_info *)
    model_state_action w d cb o (w_includepath w) info intrs'.
Definition model_commit (w : world) : world := p_fresh_state (p_end (p_execute (p_begin w))).

(* the GENERATED emission functions by directive code (the order is the harness's DIRECTIVES list) *)
Definition generated_directives : list (bool -> dargs -> option (list call)) :=
  [gen_emit_add_subscriber; gen_emit_add_subscriber_predicate; gen_emit_add_response_adapter; gen_emit_add_traverser;
   gen_emit_add_resource_url_adapter; gen_emit_override_asset; gen_emit_set_root_factory; gen_emit_set_session_factory;
   gen_emit_set_request_factory; gen_emit_set_response_factory; gen_emit_add_request_method; gen_emit_set_execution_policy;
   gen_emit_set_locale_negotiator; gen_emit_add_translation_dirs; gen_emit__add_predicate; gen_emit_add_renderer;
   gen_emit_add_route; gen_emit_add_route_predicate; gen_emit_set_security_policy; gen_emit_set_authentication_policy;
   gen_emit_set_authorization_policy; gen_emit_set_default_permission; gen_emit_add_permission;
   gen_emit_set_default_csrf_options; gen_emit_set_csrf_storage_policy; gen_emit_add_tween; gen_emit__add_tween;
   gen_emit_add_view; gen_emit_add_view_predicate; gen_emit_add_accept_view_order; gen_emit_add_view_deriver;
   gen_emit_set_view_mapper; gen_emit_add_forbidden_view; gen_emit_add_notfound_view; gen_emit_add_exception_view;
   gen_emit_add_static_view; gen_emit_add_cache_buster; gen_emit_static_info_add; gen_emit_static_info_add_cache_buster].
Definition model_directives : list (bool -> dargs -> option (list call)) :=
  [model_emit_add_subscriber; model_emit_add_subscriber_predicate; model_emit_add_response_adapter; model_emit_add_traverser;
   model_emit_add_resource_url_adapter; model_emit_override_asset; model_emit_set_root_factory; model_emit_set_session_factory;
   model_emit_set_request_factory; model_emit_set_response_factory; model_emit_add_request_method; model_emit_set_execution_policy;
   model_emit_set_locale_negotiator; model_emit_add_translation_dirs; model_emit__add_predicate; model_emit_add_renderer;
   model_emit_add_route; model_emit_add_route_predicate; model_emit_set_security_policy; model_emit_set_authentication_policy;
   model_emit_set_authorization_policy; model_emit_set_default_permission; model_emit_add_permission;
   model_emit_set_default_csrf_options; model_emit_set_csrf_storage_policy; model_emit_add_tween; model_emit__add_tween;
   model_emit_add_view; model_emit_add_view_predicate; model_emit_add_accept_view_order; model_emit_add_view_deriver;
   model_emit_set_view_mapper; model_emit_add_forbidden_view; model_emit_add_notfound_view; model_emit_add_exception_view;
   model_emit_add_static_view; model_emit_add_cache_buster; model_emit_static_info_add; model_emit_static_info_add_cache_buster].
Local Close Scope string_scope.

(* ------------------------------------------------------------------ store model *)
Inductive value := Val (payload : N) (seen : list (list value)).

Inductive mode := MSet | MSeq | MAcc.

Record stmt := mkS { sid : N; sphase : Z; smode : mode; sacc : N; sreads : list N; swrites : list N }.

Definition store := N -> list (N * value).
Definition empty : store := fun _ => [].

(* what the action's callable computes from what it sees *)
Definition mkval (s : stmt) (st : store) : value :=
  Val (sid s) (map (fun r => map snd (st r)) (sreads s)).

(* stable insertion by key: after every element whose key is <= the new one *)
Fixpoint ins (x : N * value) (l : list (N * value)) : list (N * value) :=
  match l with
  | [] => [x]
  | y :: r => if N.ltb (fst x) (fst y) then x :: y :: r else y :: ins x r
  end.

Definition upd (s : stmt) (v : value) (old : list (N * value)) : list (N * value) :=
  match smode s with
  | MSet => [(0%N, v)]
  | MSeq => old ++ [(0%N, v)]
  | MAcc => ins (sacc s, v) old
  end.

Definition writes (k : N) (s : stmt) : bool := memN k (swrites s).

Definition exec_stmt (s : stmt) (st : store) : store :=
  let v := mkval s st in
  fun k => if writes k s then upd s v (st k) else st k.

Definition runl (l : list stmt) (st : store) : store := fold_left (fun st s => exec_stmt s st) l st.

(* the order in which a conflict-free flat commit executes: sorted(key=(order, i)) *)
Definition phase_leb (a b : stmt) : bool := Z.leb (sphase a) (sphase b).
Definition schedule (l : list stmt) : list stmt := sort phase_leb l.
Definition final (l : list stmt) : store := runl (schedule l) empty.

(* ------------------------------------------------------------------ executable hypotheses *)
Definition is_seq (s : stmt) : bool := match smode s with MSeq => true | _ => false end.
Definition is_acc (s : stmt) : bool := match smode s with MAcc => true | _ => false end.
Definition same_stmt (a b : stmt) : bool := N.eqb (sid a) (sid b).

(* H1: two different statements write a common key only as members of one ordered container,
   or as views of one multiview with different predicate orders *)
Definition compat (a b : stmt) : bool :=
  (is_seq a && is_seq b) || (is_acc a && is_acc b && negb (N.eqb (sacc a) (sacc b))).
Definition h1_pair (a b : stmt) : bool :=
  same_stmt a b || negb (existsb (fun k => writes k b) (swrites a)) || compat a b.
Definition h1b (l : list stmt) : bool := forallb (fun a => forallb (h1_pair a) l) l.

(* H2: every key an action reads is written only in strictly earlier phases *)
Definition h2_pair (a b : stmt) : bool :=
  negb (existsb (fun k => writes k b) (sreads a)) || Z.ltb (sphase b) (sphase a).
Definition h2b (l : list stmt) : bool := forallb (fun a => forallb (h2_pair a) l) l.

(* the two programs keep the relative order of the members of every ordered container *)
Definition seq_writer (k : N) (s : stmt) : bool := is_seq s && writes k s.
Definition sids (l : list stmt) : list N := map sid l.
Fixpoint listN_eqb (a b : list N) : bool :=
  match a, b with [], [] => true | x :: a', y :: b' => N.eqb x y && listN_eqb a' b' | _, _ => false end.
Definition horderb (keys : list N) (l l' : list stmt) : bool :=
  forallb (fun k => listN_eqb (sids (filter (seq_writer k) l)) (sids (filter (seq_writer k) l'))) keys.

(* a cut  a | b  (a committed before b is declared) is closed: no statement of b writes a key a statement of a reads *)
Definition closed_prefixb (a b : list stmt) : bool :=
  forallb (fun s => forallb (fun r => forallb (fun s' => negb (writes r s')) b) (sreads s)) a.
(* programs with intermediate commits the theorems cover: at most one cut, and that cut closed *)
Definition segs_closedb (segs : list (list stmt)) : bool :=
  match segs with
  | [] => true
  | [_] => true
  | [a; b] => closed_prefixb a b
  | _ => false
  end.

(* ------------------------------------------------------------------ value / store equality *)
Fixpoint value_eqb (a b : value) : bool :=
  match a, b with
  | Val p s, Val q t =>
      N.eqb p q &&
      (fix go2 (x y : list (list value)) : bool :=
         match x, y with
         | [], [] => true
         | u :: x', w :: y' =>
             (fix go1 (u w : list value) : bool :=
                match u, w with
                | [], [] => true
                | a1 :: u', b1 :: w' => value_eqb a1 b1 && go1 u' w'
                | _, _ => false
                end) u w && go2 x' y'
         | _, _ => false
         end) s t
  end.
Fixpoint cell_eqb (a b : list (N * value)) : bool :=
  match a, b with
  | [], [] => true
  | (i, v) :: a', (j, w) :: b' => N.eqb i j && value_eqb v w && cell_eqb a' b'
  | _, _ => false
  end.
Definition store_eqb (keys : list N) (s1 s2 : store) : bool := forallb (fun k => cell_eqb (s1 k) (s2 k)) keys.

(* ------------------------------------------------------------------ directive table *)
Record row := mkR { rname : text; rphase : Z; rdeferred : bool;
                    rdisc : list N; rreads : list N; rwrites : list (N * N); rdecl : list N }.

Fixpoint lookup_decl (n : text) (d : list (text * (list N * list N * list (N * N) * list N)))
  : option (list N * list N * list (N * N) * list N) :=
  match d with
  | [] => None
  | (m, x) :: r => if text_eqb n m then Some x else lookup_decl n r
  end.

Definition row_of (site : text * Z * bool) : row :=
  let '(n, p, df) := site in
  match lookup_decl n declared with
  | Some (d, r, w, e) => mkR n p df d r w e
  | None => mkR n p df [] [] [] []
  end.
Definition rows : list row := map row_of sites.

Definition writes_fam (f : N) (r : row) : bool := existsb (fun w => N.eqb (fst w) f) (rwrites r).
Definition writers (f : N) : list row := filter (writes_fam f) rows.
(* reading family [f] in phase [p] is disciplined: all its writers run in earlier phases *)
Definition read_ok (p : Z) (f : N) : bool := forallb (fun w => Z.ltb (rphase w) p) (writers f).
Definition unwritten (f : N) : bool := match writers f with [] => true | _ => false end.
(* a family touched while a directive is declared must be an ordered container
   (only the container reference is obtained eagerly, never its content) *)
Definition container (f : N) : bool :=
  forallb (fun r => forallb (fun w => negb (N.eqb (fst w) f) || N.eqb (snd w) 1) (rwrites r)) rows.
Definition row_ok (r : row) : bool :=
  forallb (read_ok (rphase r)) (rreads r) &&
  (if rdeferred r then forallb (read_ok (rphase r)) (rdisc r) else forallb unwritten (rdisc r)) &&
  forallb container (rdecl r).
(* one write mode per family *)
Definition fam_mode (f : N) : option N :=
  match flat_map (fun r => filter (fun w => N.eqb (fst w) f) (rwrites r)) rows with
  | [] => None | w :: _ => Some (snd w) end.
Definition modes_consistent : bool :=
  forallb (fun r => forallb (fun w => match fam_mode (fst w) with Some m => N.eqb m (snd w) | None => false end) (rwrites r)) rows.
Definition declared_complete : bool :=
  forallb (fun s => match lookup_decl (fst (fst s)) declared with Some _ => true | None => false end) sites &&
  Nat.eqb (List.length sites) (List.length declared).
Definition phases_increasing : bool :=
  Z.ltb phase0 phase1 && Z.ltb phase1 phase2 && Z.ltb phase2 phase3 && Z.eqb phase3 default_order.
Definition table_ok : bool := forallb row_ok rows && modes_consistent && declared_complete && phases_increasing.

(* keys: family * 4096 + instance *)
Definition mkkey (f i : N) : N := (f * 4096 + i)%N.
Definition fam_of (k : N) : N := N.div k 4096.

(* a statement instantiates a row: same phase, reads inside the row's read families
   (the discriminator's reads too, when it is deferred), writes inside its write families *)
Definition mode_code (m : mode) : N := match m with MSet => 0 | MSeq => 1 | MAcc => 2 end%N.
Definition code_mode (c : N) : mode := match c with 1%N => MSeq | 2%N => MAcc | _ => MSet end.
Definition conforms (r : row) (s : stmt) : bool :=
  Z.eqb (sphase s) (rphase r) &&
  forallb (fun k => memN (fam_of k) (rreads r) || (rdeferred r && memN (fam_of k) (rdisc r))) (sreads s) &&
  forallb (fun k => existsb (fun w => N.eqb (fst w) (fam_of k) && N.eqb (snd w) (mode_code (smode s))) (rwrites r)) (swrites s).

(* ------------------------------------------------------------------ programs on the wire *)
(* statement: [sid; site; disc ([] | [d]); reads [[fam; inst]..]; discreads; writes; acc] *)
Record wstmt := mkW { wrow : row; wst : stmt; wdisc : option N; weager : list N }.

Definition get_key (v : val) : option N :=
  match v with VL [VI f; VI i] => Some (mkkey (Z.to_N f) (Z.to_N i)) | _ => None end.
Definition get_optN (v : val) : option (option N) :=
  match v with VL [] => Some None | VL [VI d] => Some (Some (Z.to_N d)) | _ => None end.

Definition row_mode (r : row) (ws : list N) : mode :=
  match ws with
  | [] => MSet
  | k :: _ => match find (fun w => N.eqb (fst w) (fam_of k)) (rwrites r) with
              | Some w => code_mode (snd w) | None => MSet end
  end.

Definition get_wstmt (v : val) : option wstmt :=
  match v with
  | VL [VI i; VI site; d; VL rs; VL ds; VL ws; VI acc] =>
      olet d' := get_optN d in
      olet rs' := map_opt get_key rs in
      olet ds' := map_opt get_key ds in
      olet ws' := map_opt get_key ws in
      match nth_error rows (Z.to_nat site) with
      | None => None
      | Some r =>
          let reads := if rdeferred r then rs' ++ ds' else rs' in
          Some (mkW r (mkS (Z.to_N i) (rphase r) (row_mode r ws') (Z.to_N acc) reads ws') d'
                    (if rdeferred r then [] else ds'))
      end
  | _ => None
  end.

Fixpoint find_w (i : N) (l : list wstmt) : option wstmt :=
  match l with [] => None | w :: r => if N.eqb (sid (wst w)) i then Some w else find_w i r end.

Definition to_action (paths : list path) (w : wstmt) (node : nat) : action :=
  mkA (sid (wst w))
      (if rdeferred (wrow w) then Defer (wdisc w) else Eager (wdisc w))
      (nth node paths []) (Some (sphase (wst w))) [].

Definition run_ids (log : list event) : list N :=
  flat_map (fun e => match e with Run a => [a] | Force _ => [] end) log.
Fixpoint pick (ws : list wstmt) (ids : list N) : list stmt :=
  match ids with
  | [] => []
  | i :: r => match find_w i ws with Some w => wst w :: pick ws r | None => pick ws r end
  end.

(* one variant: nodes (include tree as in C04) and the declaration order [(sid, node)..] *)
(* [sid; node; acc]: the predicate order of a view depends on the positions of the custom
   predicates in the predicate list, i.e. on their registration order in this variant *)
Definition get_place (v : val) : option (N * nat * N) :=
  match v with VL [VI i; VI n; VI a] => Some (Z.to_N i, Z.to_nat n, Z.to_N a) | _ => None end.
Definition set_acc (w : wstmt) (a : N) : wstmt :=
  let s := wst w in
  mkW (wrow w) (mkS (sid s) (sphase s) (smode s) a (sreads s) (swrites s)) (wdisc w) (weager w).

Record vres := mkV { v_out : outcome; v_exec : list stmt; v_decl : list stmt; v_store : store;
                     v_h0 : bool; v_sched : bool; v_closed : bool }.

Definition discs_nodup (acts : list action) : bool := nodupN (somes (map D acts)).

(* several commits in one program: the declarations are cut into segments, each committed by its own
   execute_actions (Configurator.commit starts a fresh ActionState afterwards) *)
Fixpoint split_at {A} (ns : list nat) (l : list A) : list (list A) :=
  match ns with [] => [l] | n :: r => firstn n l :: split_at r (skipn n l) end.
Fixpoint commit_segs (segs : list (list action)) : outcome * list event :=
  match segs with
  | [] => (Done, [])
  | s :: r => let '(o, lg) := commit s in
              match o with
              | Done => let '(o2, lg2) := commit_segs r in (o2, lg ++ lg2)
              | _ => (o, lg)
              end
  end.

Definition run_variant (ws : list wstmt) (v : val) : option vres :=
  match v with
  | VL [VL nodes; VL places; VL cuts] =>
      olet paths := node_paths child_path nodes [[]] in
      olet pl := map_opt get_place places in
      olet cs := map_opt get_nat cuts in
      let decl := flat_map (fun p => match find_w (fst (fst p)) ws with
                                     | Some w => [(set_acc w (snd p), snd (fst p))] | None => [] end) pl in
      let acts := map (fun wp => to_action paths (fst wp) (snd wp)) decl in
      let '(o, log) := commit_segs (split_at cs acts) in
      let ex := pick (map fst decl) (run_ids log) in
      let dl := map (fun wp => wst (fst wp)) decl in
      Some (mkV o ex dl (runl ex empty) (discs_nodup acts)
                (listN_eqb (sids ex) (sids (flat_map schedule (split_at cs dl))))
                (segs_closedb (split_at cs dl)))
  | VL [VL nodes; VL places] =>
      olet paths := node_paths child_path nodes [[]] in
      olet pl := map_opt get_place places in
      let decl := flat_map (fun p => match find_w (fst (fst p)) ws with
                                     | Some w => [(set_acc w (snd p), snd (fst p))] | None => [] end) pl in
      let acts := map (fun wp => to_action paths (fst wp) (snd wp)) decl in
      let '(o, log) := commit acts in
      let ex := pick (map fst decl) (run_ids log) in
      let dl := map (fun wp => wst (fst wp)) decl in
      Some (mkV o ex dl (runl ex empty) (discs_nodup acts)
                (listN_eqb (sids ex) (sids (schedule dl))) true)
  | _ => None
  end.

Definition put_cell (c : list (N * value)) : val :=
  VL (map (fun x => match snd x with Val p _ => vN p end) c).

(* statement-level check of the expansion used on the wire against the REGENERATED emission functions:
   [code; [callable_none; property; reify; name_is_url]; [site indices of the statement's actions]] *)
Fixpoint texts_eqb (a b : list text) : bool :=
  match a, b with [] , [] => true | x :: a', y :: b' => text_eqb x y && texts_eqb a' b' | _, _ => false end.
Definition check_emit (v : val) : option bool :=
  match v with
  | VL [VI code; VL [VI f1; VI f2; VI f3; VI f4]; VL ss] =>
      olet idx := map_opt get_nat ss in
      let a := mkDargs (negb (Z.eqb f1 0)) (negb (Z.eqb f2 0)) (negb (Z.eqb f3 0)) (negb (Z.eqb f4 0)) in
      match nth_error generated_directives (Z.to_nat code) with
      | None => Some false
      | Some g =>
          match g true a with
          | None => Some false
          | Some cs =>
              let names := map (fun i => match nth_error rows i with Some r => rname r | None => [] end) idx in
              Some (texts_eqb (map k_site cs) names &&
                    forallb (fun ci => match nth_error rows (snd ci) with
                                       | Some r => Z.eqb (rphase r) (k_order (fst ci)) && Bool.eqb (rdeferred r) (k_deferred (fst ci))
                                       | None => false end) (combine cs idx))
          end
      end
  | _ => None
  end.

(* case = [stmts; keys ([[fam; inst]..] : every key of interest); variants]
   answer = [table flags [table_ok; all conform; no eager discriminator reads;
                          every statement's actions = what the regenerated directive emits];
             per variant [outcome; executed sids; cells of the store at [keys];
                          flags [h0 distinct discriminators; executed = schedule; h1; h2;
                                 order of containers kept w.r.t. variant 0;
                                 store equal to variant 0's;
                                 intermediate commits: at most one cut and that cut closed (closed_prefixb)]]] *)
Definition run_C08 (v : val) : val :=
  ret_or_bad (
    match v with
    | VL [VL wstmts; VL wkeys; VL wvars; VL wdirs] =>
        olet ws := map_opt get_wstmt wstmts in
        olet emits := map_opt check_emit wdirs in
        let emit_ok := forallb (fun b => b) emits in
        olet keys := map_opt get_key wkeys in
        olet vs := map_opt (run_variant ws) wvars in
        let conf := forallb (fun w => conforms (wrow w) (wst w)) ws in
        let eager := forallb (fun w => match weager w with [] => true | _ => false end) ws in
        let v0 := match vs with x :: _ => Some x | [] => None end in
        Some (VL [VL [vbool table_ok; vbool conf; vbool eager; vbool emit_ok];
                  VL (map (fun r =>
                         VL [put_outcome (v_out r);
                             VL (map vN (sids (v_exec r)));
                             VL (map (fun k => put_cell (v_store r k)) keys);
                             VL [vbool (v_h0 r); vbool (v_sched r); vbool (h1b (v_exec r)); vbool (h2b (v_exec r));
                                 vbool (match v0 with Some z => horderb keys (v_exec z) (v_exec r) | None => true end);
                                 vbool (match v0 with Some z => store_eqb keys (v_store z) (v_store r) | None => true end);
                                 vbool (v_closed r)]]) vs)])
    | _ => None
    end).
