(* C09 -- auth-ticket cookies: AuthTicket, parse_ticket, calculate_digest,
   encode_ip_timestamp, AuthTktCookieHelper (identify / remember / forget /
   _get_cookies, reissue bookkeeping) of src/pyramid/authentication.py, and
   util.strings_differ.  Executable definitions only.

   Oracles (Section variables; shipped by the harness in the correspondence run):
     H      alg msg : hexdigest of hashlib.new(alg) over the bytes msg
     dsz    alg     : hashlib.new(alg).digest_size
     uni_tr c       : CPython's "decimal digit / space to ASCII" map for code points >= 127 *)
From Coq Require Import List NArith ZArith Bool.
Import ListNotations.
Require Import Verif.Lib.Wire Verif.Lib.Text Verif.Lib.Percent Verif.Lib.Utf8 Verif.Lib.C09Base.
Require Export Verif.Model.C09_base.
Require Import Verif.Gen.Facts_C09.
Open Scope N_scope.

Section Oracles.
Variable H : text -> list N -> text.
Variable dsz : text -> nat.
Variable uni_tr : N -> N.

(* ------------------------------------------------------------------ digest *)
(* encode_ip_timestamp: 4 big-endian bytes of (t & 0xFFFFFFFF) *)
Definition ts_bytes (t : Z) : list N :=
  [Z.to_N (Z.shiftr (Z.land t 4278190080) 24); Z.to_N (Z.shiftr (Z.land t 16711680) 16);
   Z.to_N (Z.shiftr (Z.land t 65280) 8); Z.to_N (Z.land t 255)].

Definition ip_timestamp (ip : ipaddr) (t : Z) : list N :=
  match ip with
  | IP6 s => s ++ dec_of_Z t
  | IP4 ps => ps ++ ts_bytes t
  end.

(* the byte string fed to the first hash *)
Definition digest_msg (ip : ipaddr) (t : Z) (sec userid tokens user_data : text) : list N :=
  ip_timestamp ip t ++ encode sec ++ encode userid ++ [0] ++ encode tokens ++ [0] ++ encode user_data.

Definition calculate_digest (alg : text) (ip : ipaddr) (t : Z) (sec userid tokens user_data : text) : text :=
  let d := H alg (digest_msg ip t sec userid tokens user_data) in
  H alg (d ++ encode sec).

(* ------------------------------------------------------------------ AuthTicket.cookie_value *)
Definition cookie_value (alg : text) (ip : ipaddr) (t : N) (sec userid : text) (tokens : list text)
           (user_data : text) : text :=
  let toks := join [comma] tokens in
  calculate_digest alg ip (Z.of_N t) sec userid toks user_data
    ++ hex_pad ts_width t ++ quote_str quote_safe userid ++ [bang]
    ++ (match toks with [] => [] | _ => toks ++ [bang] end) ++ user_data.

(* ------------------------------------------------------------------ parse_ticket *)
Definition digest_len (alg : text) : nat := (dsz alg * digest_mult)%nat.

Definition parse_fields (alg : text) (ticket : text) : fields :=
  let t := strip_char strip_ch ticket in
  let n := digest_len alg in
  let digest := firstn n t in
  match py_int uni_tr ts_base (firstn ts_field (skipn n t)) with
  | None => FBad
  | Some ts =>
      match split1 bang (skipn (n + ts_field) t) with
      | None => FBad
      | Some (uq, data) =>
          let userid := unquote_str uq in
          match split1 bang data with
          | Some (tokens, user_data) => FOk digest ts userid tokens user_data
          | None => FOk digest ts userid [] data
          end
      end
  end.


Definition parse_ticket (sec : text) (ticket : text) (ip : ipaddr) (alg : text) : pres :=
  match parse_fields alg ticket with
  | FBad => PBad
  | FOk digest ts userid tokens user_data =>
      let expected := calculate_digest alg ip ts sec userid tokens user_data in
      if strings_differ (encode expected) (encode digest) then PBad
      else POk ts userid (split_on comma tokens) user_data
  end.

(* ------------------------------------------------------------------ _get_cookies *)
Definition pick_domain (c : cfg) (r : req) : option text :=
  if truthy (domain c) then domain c
  else if parent_domain c && Nat.ltb 1 (count_char 46 (cur_domain r))
       then match split1 46 (cur_domain r) with Some (_, rest) => Some rest | None => None end
       else if wild_domain c then Some (cur_domain r) else None.

Definition get_cookies (c : cfg) (r : req) (value : option text) (ma : option Z) : list ck :=
  [mkCk (cookie_name c) value (pick_domain c r)
        (match ma with Some m => Some m | None => max_age c end)
        (path c) (secure c) (http_only c) (samesite c)].

(* ------------------------------------------------------------------ remember *)
Definition rest_ok (s : text) : bool :=
  forallb (fun c => memN c tok_rest) s
  || (tok_dollar && match rev s with 10 :: r => forallb (fun c => memN c tok_rest) r | _ => false end).
Definition valid_token (t : text) : bool :=
  is_ascii t && match t with c :: r => memN c tok_first && rest_ok r | [] => false end.

Definition encode_userid (u : uval) : option (text * text) :=      (* (encoding name, encoded) *)
  let '(tag, k) := match u with VInt _ => enc_int | VStr _ => enc_str | VBytes _ => enc_bytes end in
  match apply_enc k u with Some e => Some (tag, e) | None => None end.

Definition eff_ip (c : cfg) (r : req) : option ipaddr :=
  if include_ip c then Some (remote_addr r) else classify_ip default_ip.

(* remember(): None = raised (before touching the request) *)
Definition remember (c : cfg) (r : req) (u : uval) (ma : option Z) (toks : list text) : option (list ck) :=
  let ma' := match ma with Some m => Some m | None => max_age c end in
  match eff_ip c r, encode_userid u with
  | Some ip, Some (tag, enc) =>
      if forallb valid_token toks then
        let v := cookie_value (hashalg c) ip (Z.to_N (now r)) (secret c) enc toks (userid_typename ++ tag) in
        Some (get_cookies c r (Some v) ma')
      else None
  | _, _ => None
  end.

(* ------------------------------------------------------------------ identify *)
Definition starts_typename (d : text) : option text := strip_prefix userid_typename d.

(* for datum in filter(None, user_data.split('|')): ... *)
Fixpoint decode_userid (data : list text) (u : uval) : option uval :=
  match data with
  | [] => Some u
  | d :: r =>
      match d with
      | [] => decode_userid r u
      | _ => match starts_typename d with
             | Some ty => match lookup_text ty decoders with
                          | Some k => match apply_dec uni_tr k u with Some u' => decode_userid r u' | None => None end
                          | None => decode_userid r u
                          end
             | None => decode_userid r u
             end
      end
  end.

Definition timed_out (c : cfg) (ts n2 : Z) : bool :=       (* n2: twice the clock value *)
  match timeout c with
  | Some t => negb (Z.eqb t 0) && cmp_eval timeout_cmp (2 * (ts + t))%Z n2
  | None => false
  end.

(* the part of identify before the reissue bookkeeping *)
Definition identify_pre (c : cfg) (r : req) : idres :=
  match cookie r with
  | None => INone
  | Some ck0 =>
      match eff_ip c r with
      | None => IRaise
      | Some ip =>
          match parse_ticket (secret c) ck0 ip (hashalg c) with
          | PBad => INone
          | POk ts userid tokens user_data =>
              if timed_out c ts (now2 r) then INone
              else match decode_userid (split_on pipe user_data) (VStr userid) with
                   | None => IRaise
                   | Some u => ISome ts u tokens user_data
                   end
          end
      end
  end.

Definition identify (c : cfg) (r : req) (st : state) : state * idres :=
  match identify_pre c r with
  | ISome ts u tokens user_data =>
      match reissue_time c with
      | Some rt =>
          if negb (reissued st) && cmp_eval reissue_cmp (now2 r - 2 * ts)%Z (2 * rt)%Z then
            let tokens' := filter nonempty tokens in
            let was_revoked := revoked st in
            match remember c (later r) u (max_age c) tokens' with     (* the ticket is stamped by a later clock reading *)
            | None => (st, IRaise)
            | Some hs =>
                (* remember() set the revoked flag; it is deleted again unless it was there before *)
                (mkSt true was_revoked (callbacks st ++ [hs]), ISome ts u tokens' user_data)
            end
          else (st, ISome ts u tokens user_data)
      | None => (st, ISome ts u tokens user_data)
      end
  | other => (st, other)
  end.

Definition step (c : cfg) (r : req) (st : state) (o : op) : state * out :=
  match o with
  | OIdentify => let '(st', res) := identify c r st in (st', OutId res)
  | ORemember u ma toks =>
      match remember c r u ma toks with
      | Some hs => (mkSt (reissued st) true (callbacks st), OutHdr (Some hs))
      | None => (st, OutHdr None)
      end
  | OForget => (mkSt (reissued st) true (callbacks st), OutHdr (Some (get_cookies c r None None)))
  end.

Fixpoint run_ops (c : cfg) (r : req) (st : state) (ops : list op) : state * list out :=
  match ops with
  | [] => (st, [])
  | o :: rest => let '(st1, x) := step c r st o in
                 let '(st2, xs) := run_ops c r st1 rest in (st2, x :: xs)
  end.

(* response callbacks: each appends its headers unless the revoked flag is set at that time *)
Definition response_cookies (st : state) : list ck :=
  if revoked st then [] else concat (callbacks st).

(* ================================================================== declarative specification *)

(* The keyed-digest law: the digest field of the cookie is the digest of its other fields. *)
Definition digest_ok (c : cfg) (r : req) (ck0 : text) : bool :=
  match eff_ip c r, parse_fields (hashalg c) ck0 with
  | Some ip, FOk digest ts userid tokens user_data =>
      text_eqb digest (calculate_digest (hashalg c) ip ts (secret c) userid tokens user_data)
  | _, _ => false
  end.

(* LEGACY tickets: earlier releases of this helper stored a text user id percent-quoted with user_data
   'userid_type:unicode' (the decoder table keeps that entry "for old cookies").  Such a ticket, validly signed with the
   helper's secret, is a ticket issued for a text user id: it must yield that text (inside the timeout window). *)
Definition legacy_ud : text := userid_typename ++ [117; 110; 105; 99; 111; 100; 101].
Definition spec_legacy_unicode (c : cfg) (r : req) : option idres :=
  match cookie r, eff_ip c r with
  | Some ck0, Some ip =>
      match parse_fields (hashalg c) ck0 with
      | FOk d ts uid tk ud =>
          (* tokens as a helper validates them before issuing (a signed ticket with other tokens is foreign content) *)
          if text_eqb ud legacy_ud && digest_ok c r ck0 && forallb valid_token (filter nonempty (split_on comma tk))
          then Some (if timed_out c ts (now2 r) then INone else ISome ts (VStr uid) (split_on comma tk) ud)
          else None
      | FBad => None
      end
  | _, _ => None
  end.

(* What a ticket issued at [t0] for [u] and [toks] must yield at time [now]:
   that identity while now <= t0 + timeout (or no timeout is configured), nothing afterwards.
   [n2] is twice the clock value, so that half seconds can be expressed. *)
Definition spec_issued_identity (c : cfg) (t0 : N) (u : uval) (toks : list text) (n2 : Z) : option (Z * uval * list text) :=
  match timeout c with
  | Some t => if negb (Z.eqb t 0) && negb (Z.leb n2 (2 * (Z.of_N t0 + t))) then None
              else Some (Z.of_N t0, u, toks)
  | None => Some (Z.of_N t0, u, toks)
  end.

(* Reissue: after any sequence of operations the callbacks attach exactly one fresh ticket
   (that of the first identify which accepted a ticket older than reissue_time) unless a
   remember or forget happened during the request. *)
Definition is_identify (o : op) : bool := match o with OIdentify => true | _ => false end.
Definition has_identify (ops : list op) : bool := existsb is_identify ops.
(* a forget, or a remember that went through (one that raised did not re-remember anybody) *)
Definition is_explicit (c : cfg) (r : req) (o : op) : bool :=
  match o with
  | OIdentify => false
  | ORemember u ma toks => match remember c r u ma toks with Some _ => true | None => false end
  | OForget => true
  end.

Definition spec_reissue_ticket (c : cfg) (r : req) : option (list ck) :=
  match identify_pre c r, reissue_time c with
  | ISome ts u tokens _, Some rt =>
      if Z.ltb (2 * rt) (now2 r - 2 * ts)        (* "older than the reissue time": the property's wording, not the code's operator *)
      then remember c (later r) u (max_age c) (filter nonempty tokens) else None
  | _, _ => None
  end.

Definition spec_response (c : cfg) (r : req) (ops : list op) : list ck :=
  if existsb (is_explicit c r) ops then []
  else if has_identify ops then match spec_reissue_ticket c r with Some hs => hs | None => [] end
  else [].

(* cookie attributes demanded by the configuration *)
Definition spec_domain (c : cfg) (r : req) : option text :=
  match domain c with
  | Some (x :: d) => Some (x :: d)
  | _ => if parent_domain c && Nat.ltb 1 (count_char 46 (cur_domain r))
         then option_map snd (split1 46 (cur_domain r))
         else if wild_domain c then Some (cur_domain r) else None
  end.
Definition attrs_ok (c : cfg) (r : req) (ma : option Z) (k : ck) : bool :=
  text_eqb (ck_name k) (cookie_name c) && text_eqb (ck_path k) (path c)
  && Bool.eqb (ck_secure k) (secure c) && Bool.eqb (ck_httponly k) (http_only c)
  && match ck_samesite k, samesite c with Some a, Some b => text_eqb a b | None, None => true | _, _ => false end
  && match ck_domain k, spec_domain c r with Some a, Some b => text_eqb a b | None, None => true | _, _ => false end
  && match ck_max_age k, (match ma with Some m => Some m | None => max_age c end) with
     | Some a, Some b => Z.eqb a b | None, None => true | _, _ => false end.

(* ================================================================== oracle plumbing *)
(* messages whose double digest a run may need (an over-approximation that is
   complete for [run_ops]; see Proofs: oracle_complete) *)
Definition msgs_identify (c : cfg) (r : req) : list (list N) :=
  match cookie r, eff_ip c r with
  | Some ck0, Some ip =>
      match parse_fields (hashalg c) ck0 with
      | FOk _ ts userid tokens user_data => [digest_msg ip ts (secret c) userid tokens user_data]
      | FBad => []
      end
  | _, _ => []
  end.
Definition msg_remember (c : cfg) (r : req) (u : uval) (toks : list text) : list (list N) :=
  match eff_ip c r, encode_userid u with
  | Some ip, Some (tag, enc) =>
      [digest_msg ip (Z.of_N (Z.to_N (now r))) (secret c) enc (join [comma] toks) (userid_typename ++ tag)]
  | _, _ => []
  end.
Definition msgs_op (c : cfg) (r : req) (o : op) : list (list N) :=
  match o with
  | OIdentify =>
      msgs_identify c r ++
      match identify_pre c r with
      | ISome _ u tokens _ => msg_remember c (later r) u (filter nonempty tokens)
      | _ => []
      end
  | ORemember u _ toks => msg_remember c r u toks
  | OForget => []
  end.

End Oracles.

(* ================================================================== the regenerated program as a whole *)
(* one request operation / a sequence, executed by the functions REGENERATED from the source (Gen/Facts_C09.v) *)
(* operations as the caller writes them: remember() may be handed an object of any type *)
Inductive gop := GIdentify | GRemember (a : uarg) (ma : option Z) (toks : list text) | GForget.
Definition op_of (g : gop) : op :=
  match g with
  | GIdentify => OIdentify
  | GRemember a ma toks => ORemember (uarg_val a) ma toks
  | GForget => OForget
  end.

Definition gen_step (H : text -> list N -> text) (dsz : text -> nat) (uni : N -> N)
           (c : cfg) (r : req) (st : state) (o : gop) : state * out :=
  match o with
  | GIdentify => let '(st', res) := gen_identify H dsz uni c r st in (st', OutId res)
  | GRemember u ma toks => let '(st', h) := gen_remember H c r st u ma toks in (st', OutHdr h)
  | GForget => let '(st', h) := gen_forget c r st in (st', OutHdr h)
  end.

(* the same operations through AuthTktAuthenticationPolicy (remember / forget are the policy's methods; identify is
   policy.cookie.identify) *)
Definition gen_pstep (H : text -> list N -> text) (dsz : text -> nat) (uni : N -> N)
           (c : cfg) (r : req) (st : state) (o : gop) : state * out :=
  match o with
  | GIdentify => let '(st', res) := gen_identify H dsz uni c r st in (st', OutId res)
  | GRemember u ma toks => let '(st', h) := gen_policy_remember H c r st u ma toks in (st', OutHdr h)
  | GForget => let '(st', h) := gen_policy_forget c r st in (st', OutHdr h)
  end.

(* ---- construction: the configuration a helper ends up with, given the constructor arguments *)
(* the documented signature orders (helper: ..., http_only, path, wild_domain, hashalg, parent_domain, domain, samesite;
   policy: ..., path, http_only, ...) *)
Definition helper_cfg (s n : text) (se ii : bool) (to ri ma : option Z) (ho : bool) (pa : text) (wd : bool) (al : text)
           (pd : bool) (dm ss : option text) : cfg := mkCfg s n se ii to ri ma ho pa wd pd dm al ss.
Definition profile_of (c : cfg) : ck :=
  mkCk (cookie_name c) None None (max_age c) (path c) (secure c) (http_only c) (samesite c).
(* the documented defaults *)
Definition default_cfg (s : text) : cfg :=
  mkCfg s [97; 117; 116; 104; 95; 116; 107; 116] false false None None None false [47] true false None
        [115; 104; 97; 53; 49; 50] (Some [76; 97; 120]).

Definition helper_args (c : cfg) : cfg * ck :=
  gen_helper_init (secret c) (cookie_name c) (secure c) (include_ip c) (timeout c) (reissue_time c) (max_age c)
                  (http_only c) (path c) (wild_domain c) (hashalg c) (parent_domain c) (domain c) (samesite c).
Definition policy_args (c : cfg) : cfg * ck :=
  gen_policy_init (secret c) (cookie_name c) (secure c) (include_ip c) (timeout c) (reissue_time c) (max_age c)
                  (path c) (http_only c) (wild_domain c) (hashalg c) (parent_domain c) (domain c) (samesite c).
(* keyword arguments the caller OMITS (mask over the 13 fields after the secret) take the value [d] *)
Definition pick (m : list bool) (c d : cfg) : cfg :=
  match m with
  | [m1; m2; m3; m4; m5; m6; m7; m8; m9; m10; m11; m12; m13] =>
      mkCfg (secret c) (if m1 then cookie_name d else cookie_name c) (if m2 then secure d else secure c)
            (if m3 then include_ip d else include_ip c) (if m4 then timeout d else timeout c)
            (if m5 then reissue_time d else reissue_time c) (if m6 then max_age d else max_age c)
            (if m7 then http_only d else http_only c) (if m8 then path d else path c)
            (if m9 then wild_domain d else wild_domain c) (if m10 then parent_domain d else parent_domain c)
            (if m11 then domain d else domain c) (if m12 then hashalg d else hashalg c)
            (if m13 then samesite d else samesite c)
  | _ => c
  end.
(* what AuthTktCookieHelper(secret, **given) / AuthTktAuthenticationPolicy(secret, **given).cookie is configured as,
   computed by the REGENERATED constructors and their regenerated defaults *)
Definition construct (pol : bool) (omit : list bool) (c : cfg) : cfg :=
  if pol then fst (policy_args (pick omit c (fst (gen_policy_defaults (secret c)))))
  else fst (helper_args (pick omit c (fst (gen_helper_defaults (secret c))))).

Fixpoint gen_run_ops (H : text -> list N -> text) (dsz : text -> nat) (uni : N -> N)
         (c : cfg) (r : req) (st : state) (ops : list gop) : state * list out :=
  match ops with
  | [] => (st, [])
  | o :: rest => let '(st1, x) := gen_step H dsz uni c r st o in
                 let '(st2, xs) := gen_run_ops H dsz uni c r st1 rest in (st2, x :: xs)
  end.

(* ================================================================== two helpers consulted for ONE request *)
(* (auth_tkt + a second ticket cookie, a secret-rotation pair, a multi-policy stack): the request flags and the
   response callbacks are shared, each helper reads its own cookie.  [true] addresses the second helper. *)
Fixpoint run_ops2 (H : text -> list N -> text) (dsz : text -> nat) (uni : N -> N)
         (c0 : cfg) (r0 : req) (c1 : cfg) (r1 : req) (st : state) (ops : list (bool * op)) : state * list out :=
  match ops with
  | [] => (st, [])
  | (b, o) :: rest =>
      let '(st1, x) := if b then step H dsz uni c1 r1 st o else step H dsz uni c0 r0 st o in
      let '(st2, xs) := run_ops2 H dsz uni c0 r0 c1 r1 st1 rest in (st2, x :: xs)
  end.

Fixpoint gen_run_ops2 (H : text -> list N -> text) (dsz : text -> nat) (uni : N -> N) (pol : bool)
         (c0 : cfg) (r0 : req) (c1 : cfg) (r1 : req) (st : state) (ops : list (bool * gop)) : state * list out :=
  match ops with
  | [] => (st, [])
  | (b, o) :: rest =>
      let '(st1, x) := if b then gen_step H dsz uni c1 r1 st o
                       else if pol then gen_pstep H dsz uni c0 r0 st o else gen_step H dsz uni c0 r0 st o in
      let '(st2, xs) := gen_run_ops2 H dsz uni pol c0 r0 c1 r1 st1 rest in (st2, x :: xs)
  end.
Definition op2_of (bo : bool * gop) : bool * op := (fst bo, op_of (snd bo)).

(* ================================================================== response callbacks of the APPLICATION (sixth round) *)
(* Besides identify's reissue callback the application may register callbacks of its own that call forget() / remember()
   while the response callbacks run (a logout view's callback, a "refresh the ticket" callback) and append the returned
   headers to the response.  Pyramid runs the callbacks in registration order (request.py: popleft), so the order of
   the Set-Cookie headers is the order of registration; the last Set-Cookie for a cookie is what the client keeps. *)
Inductive cb := CbReissue (hs : list ck) | CbApp (o : gop).
(* an operation during the request, or the registration of an application callback that will perform it *)
Inductive xop := XOp (o : gop) | XReg (o : gop).

Definition hdrs_of (x : out) : list ck := match x with OutHdr (Some hs) => hs | _ => [] end.
Definition is_reissue_cb (x : cb) : bool := match x with CbReissue _ => true | CbApp _ => false end.
(* the reissue callbacks an operation added *)
Definition new_cbs (st st1 : state) : list cb := map CbReissue (skipn (length (callbacks st)) (callbacks st1)).

Section Callbacks.
Variable H : text -> list N -> text.
Variable dsz : text -> nat.
Variable uni : N -> N.

(* _process_response_callbacks: what ends up on the response, in order *)
Fixpoint run_cbs (c : cfg) (r : req) (st : state) (cbs : list cb) : list ck :=
  match cbs with
  | [] => []
  | CbReissue hs :: rest => (if revoked st then [] else hs) ++ run_cbs c r st rest
  | CbApp o :: rest => let '(st', x) := step H dsz uni c r st (op_of o) in hdrs_of x ++ run_cbs c r st' rest
  end.

Fixpoint gen_run_cbs (pol : bool) (c : cfg) (r : req) (st : state) (cbs : list cb) : list ck :=
  match cbs with
  | [] => []
  | CbReissue hs :: rest => (if revoked st then [] else hs) ++ gen_run_cbs pol c r st rest
  | CbApp o :: rest =>
      let '(st', x) := if pol then gen_pstep H dsz uni c r st o else gen_step H dsz uni c r st o in
      hdrs_of x ++ gen_run_cbs pol c r st' rest
  end.

(* the request: operations and registrations; the callbacks are collected in registration order *)
Fixpoint run_ops3 (c0 : cfg) (r0 : req) (c1 : cfg) (r1 : req) (st : state) (cbs : list cb) (ops : list (bool * xop))
  : state * list cb * list (option out) :=
  match ops with
  | [] => (st, cbs, [])
  | (b, XOp o) :: rest =>
      let '(st1, x) := if b then step H dsz uni c1 r1 st (op_of o) else step H dsz uni c0 r0 st (op_of o) in
      let '(st2, cbs2, xs) := run_ops3 c0 r0 c1 r1 st1 (cbs ++ new_cbs st st1) rest in (st2, cbs2, Some x :: xs)
  | (_, XReg o) :: rest =>
      let '(st2, cbs2, xs) := run_ops3 c0 r0 c1 r1 st (cbs ++ [CbApp o]) rest in (st2, cbs2, None :: xs)
  end.

Fixpoint gen_run_ops3 (pol : bool) (c0 : cfg) (r0 : req) (c1 : cfg) (r1 : req) (st : state) (cbs : list cb)
         (ops : list (bool * xop)) : state * list cb * list (option out) :=
  match ops with
  | [] => (st, cbs, [])
  | (b, XOp o) :: rest =>
      let '(st1, x) := if b then gen_step H dsz uni c1 r1 st o
                       else if pol then gen_pstep H dsz uni c0 r0 st o else gen_step H dsz uni c0 r0 st o in
      let '(st2, cbs2, xs) := gen_run_ops3 pol c0 r0 c1 r1 st1 (cbs ++ new_cbs st st1) rest in (st2, cbs2, Some x :: xs)
  | (_, XReg o) :: rest =>
      let '(st2, cbs2, xs) := gen_run_ops3 pol c0 r0 c1 r1 st (cbs ++ [CbApp o]) rest in (st2, cbs2, None :: xs)
  end.
End Callbacks.

Definition xop_gop (x : xop) : gop := match x with XOp o => o | XReg o => o end.
Definition is_reg (x : xop) : bool := match x with XReg _ => true | XOp _ => false end.
(* the application callback registered LAST, if any *)
Definition last_reg (ops : list (bool * xop)) : option gop :=
  fold_left (fun acc bo => match snd bo with XReg o => Some o | XOp _ => acc end) ops None.

(* ================================================================== wire glue *)
Definition lookup_H (tbl : list (text * list N * text)) (alg : text) (msg : list N) : text :=
  match find (fun e => text_eqb (fst (fst e)) alg && text_eqb (snd (fst e)) msg) tbl with
  | Some e => snd e
  | None => [63]
  end.
Definition has_H (tbl : list (text * list N * text)) (alg : text) (msg : list N) : bool :=
  existsb (fun e => text_eqb (fst (fst e)) alg && text_eqb (snd (fst e)) msg) tbl.
Definition lookup_dsz (tbl : list (text * nat)) (alg : text) : nat :=
  match lookup_text alg tbl with Some n => n | None => O end.
Definition lookup_uni (tbl : list (N * N)) (c : N) : N :=
  match find (fun e => N.eqb (fst e) c) tbl with Some e => snd e | None => 63 end.

Definition get_optZ := get_opt get_Z.
Definition get_optT := get_opt get_text.

Definition get_cfg (v : val) : option cfg :=
  match v with
  | VL [s; n; se; ii; to; ri; ma; ho; pa; wd; pd; dm; al; ss] =>
      olet s := get_text s in olet n := get_text n in olet se := get_bool se in olet ii := get_bool ii in
      olet to := get_optZ to in olet ri := get_optZ ri in olet ma := get_optZ ma in olet ho := get_bool ho in
      olet pa := get_text pa in olet wd := get_bool wd in olet pd := get_bool pd in olet dm := get_optT dm in
      olet al := get_text al in olet ss := get_optT ss in
      Some (mkCfg s n se ii to ri ma ho pa wd pd dm al ss)
  | _ => None
  end.

Definition get_req (v : val) : option req :=
  match v with
  | VL [ck0; ip; dm; nw; hf; tk] =>
      olet ck0 := get_optT ck0 in olet ip := get_text ip in olet ip := classify_ip ip in
      olet dm := get_text dm in olet nw := get_Z nw in olet hf := get_bool hf in olet tk := get_bool tk in
      Some (mkReq ck0 ip dm nw hf tk)
  | _ => None
  end.

Definition get_uval (v : val) : option uval :=
  match v with
  | VL [VI 0%Z; VT t] => Some (VStr t)
  | VL [VI 1%Z; VT t] => option_map VInt (py_int (fun _ => 63) 10 t)
  | VL [VI 2%Z; VT t] => Some (VBytes t)
  | _ => None
  end.

(* a remember() argument: [0|1|2; text] a str / int / bytes, [3; text] an object of another type with that str() *)
Definition get_uarg (v : val) : option uarg :=
  match v with
  | VL [VI 3%Z; VT t] => Some (UOther t)
  | _ => option_map UKnown (get_uval v)
  end.

(* 0 1 2: identify / remember / forget on the first helper; 3 4 5: the same on the second helper *)
Definition get_gop (v : val) : option (bool * gop) :=
  match v with
  | VL [VI 0%Z] => Some (false, GIdentify)
  | VL [VI 1%Z; u; ma; toks] =>
      olet u := get_uarg u in olet ma := get_optZ ma in olet toks := get_texts toks in
      Some (false, GRemember u ma toks)
  | VL [VI 2%Z] => Some (false, GForget)
  | VL [VI 3%Z] => Some (true, GIdentify)
  | VL [VI 4%Z; u; ma; toks] =>
      olet u := get_uarg u in olet ma := get_optZ ma in olet toks := get_texts toks in
      Some (true, GRemember u ma toks)
  | VL [VI 5%Z] => Some (true, GForget)
  | _ => None
  end.

(* 6 7: the application registers a response callback that will call forget / remember on the first helper *)
Definition get_op (v : val) : option (bool * xop) :=
  match v with
  | VL [VI 6%Z] => Some (false, XReg GForget)
  | VL [VI 7%Z; u; ma; toks] =>
      olet u := get_uarg u in olet ma := get_optZ ma in olet toks := get_texts toks in
      Some (false, XReg (GRemember u ma toks))
  | _ => option_map (fun bo : bool * gop => (fst bo, XOp (snd bo))) (get_gop v)
  end.

Definition put_optT (o : option text) : val := vopt VT o.
Definition put_optZ (o : option Z) : val := vopt VI o.
Definition put_uval (u : uval) : val :=
  match u with
  | VStr t => VL [VI 0; VT t]
  | VInt z => VL [VI 1; VT (dec_of_Z z)]
  | VBytes b => VL [VI 2; VT b]
  end.
Definition put_idres (r : idres) : val :=
  match r with
  | INone => VL [VI 0]
  | ISome ts u toks ud => VL [VI 1; VI ts; put_uval u; vtexts toks; VT ud]
  | IRaise => VL [VI 2]
  end.
Definition put_ck (k : ck) : val :=
  VL [VT (ck_name k); put_optT (ck_value k); put_optT (ck_domain k); put_optZ (ck_max_age k);
      VT (ck_path k); vbool (ck_secure k); vbool (ck_httponly k); put_optT (ck_samesite k)].
Definition put_ures (x : ures) : val :=
  match x with UNone => VL [VI 0] | USome u => VL [VI 1; put_uval u] | URaise => VL [VI 2] end.
Definition put_out (o : out) : val :=
  match o with
  | OutId r => VL [VI 0; put_idres r]
  | OutHdr None => VL [VI 1]
  | OutHdr (Some hs) => VL [VI 2; vlist put_ck hs]
  end.

Definition values_of (hs : list ck) : list text :=
  flat_map (fun k => match ck_value k with Some v => [v] | None => [] end) hs.
Definition out_values (o : out) : list text :=
  match o with OutHdr (Some hs) => values_of hs | _ => [] end.

Definition no_reissue (c : cfg) : cfg :=
  mkCfg (secret c) (cookie_name c) (secure c) (include_ip c) (timeout c) None (max_age c) (http_only c)
        (path c) (wild_domain c) (parent_domain c) (domain c) (hashalg c) (samesite c).
Definition with_cookie (r : req) (v : text) : req := mkReq (Some v) (remote_addr r) (cur_domain r) (now r) (half r) (tick r).
Definition with_cookie_opt (r : req) (v : option text) : req := mkReq v (remote_addr r) (cur_domain r) (now r) (half r) (tick r).
Definition no_tick (r : req) : req := mkReq (cookie r) (remote_addr r) (cur_domain r) (now r) (half r) false.

Definition ip_eqb (a b : ipaddr) : bool :=
  match a, b with
  | IP4 x, IP4 y => text_eqb x y
  | IP6 x, IP6 y => text_eqb x y
  | _, _ => false
  end.

(* origin: a ticket issued by [issuer secret; alg; effective ip text; t0; userid; tokens] *)
Record origin := mkOrigin { o_secret : text; o_alg : text; o_ip : ipaddr; o_t0 : N; o_u : uval; o_toks : list text }.
Definition get_origin (v : val) : option origin :=
  match v with
  | VL [s; a; ip; t0; u; toks] =>
      olet s := get_text s in olet a := get_text a in olet ip := get_text ip in olet ip := classify_ip ip in
      olet t0 := get_N t0 in olet u := get_uval u in olet toks := get_texts toks in
      Some (mkOrigin s a ip t0 u toks)
  | _ => None
  end.

Definition get_Hrow (v : val) : option (text * list N * text) :=
  match v with VL [VT a; VT m; VT d] => Some (a, m, d) | _ => None end.
Definition get_drow (v : val) : option (text * nat) :=
  match v with VL [VT a; VI n] => Some (a, Z.to_nat n) | _ => None end.
Definition get_urow (v : val) : option (N * N) :=
  match v with VL [VI a; VI b] => Some (Z.to_N a, Z.to_N b) | _ => None end.

(* the H-queries behind the double digest of [m] *)
Definition queries_of (Hf : text -> list N -> text) (alg sec : text) (m : list N) : list (text * list N) :=
  [(alg, m); (alg, Hf alg m ++ encode sec)].

Definition origin_cookie (Hf : text -> list N -> text) (o : origin) : option text :=
  match encode_userid (o_u o) with
  | Some (tag, enc) =>
      if forallb valid_token (o_toks o)
      then Some (gen_ticket_cookie_value Hf (o_alg o) (o_ip o) (o_t0 o) (o_secret o) enc (o_toks o) (userid_typename ++ tag))
      else None
  | None => None
  end.

(* case = [cfg; req; ops; origin?; [dsz table; H table; uni table]; second helper; [through the policy?; omitted keywords]]
   answer = [answers of the REGENERATED program; spec; missing oracle queries] *)
Definition run_C09 (v : val) : val :=
  ret_or_bad (
    match v with
    | VL [c; r; ops; org; VL [dt; ht; ut]; second; VL [pol; omit]] =>
        olet cspec := get_cfg c in olet r := get_req r in olet ops := get_list_of get_op ops in
        olet pol := get_bool pol in olet omit := get_list_of get_bool omit in
        (* the model runs with the configuration the REGENERATED constructor computes from the arguments given
           (omitted keywords -> the source's defaults); the spec below speaks about the arguments themselves *)
        let c := construct pol omit cspec in
        (* second helper: [] (none: it is the first one again) or [cfg; its cookie] *)
        olet snd_h := match second with
                      | VL [] => Some (c, r)
                      | VL [c1; k1] => olet c1 := get_cfg c1 in olet k1 := get_optT k1 in Some (c1, with_cookie_opt r k1)
                      | _ => None
                      end in
        let c1 := fst snd_h in let r1 := snd snd_h in
        olet org := get_opt get_origin org in
        olet dt := get_list_of get_drow dt in olet ht := get_list_of get_Hrow ht in
        olet ut := get_list_of get_urow ut in
        let Hf := lookup_H ht in let dz := lookup_dsz dt in let ur := lookup_uni ut in
        let '(st_cbs, outs0) := gen_run_ops3 Hf dz ur pol c r c1 r1 st0 [] ops in
        let st := fst st_cbs in let cbs := snd st_cbs in
        (* through the policy: policy.unauthenticated_userid on a fresh request (constant clock) is a last observation *)
        let outs_p := if pol then [VL [VI 3; put_ures (snd (gen_policy_userid Hf dz ur c (no_tick r) st0))]] else [] in
        let outs := flat_map (fun x : option out => match x with Some o => [o] | None => [] end) outs0 in
        (* response callbacks run in registration order, application callbacks at a constant clock *)
        let resp := gen_run_cbs Hf dz ur pol c (no_tick r) st cbs in
        let fed := flat_map out_values outs ++ values_of resp in
        let fb := map (fun v => snd (gen_identify Hf dz ur (no_reissue c) (with_cookie (no_tick r) v) st0)) fed in
        let oc := match org with Some o => origin_cookie Hf o | None => None end in
        (* ---- spec side: about the configuration the caller asked for ([cs]), not the constructed one *)
        let cs := cspec in
        let dok := match cookie r with Some x => digest_ok Hf dz ur cs r x | None => false end in
        let dok1 := match cookie r1 with Some x => digest_ok Hf dz ur c1 r1 x | None => false end in
        let compat := match org, eff_ip cs r with
                      | Some o, Some ip => text_eqb (o_secret o) (secret cs) && text_eqb (o_alg o) (hashalg cs)
                                           && ip_eqb (o_ip o) ip
                      | _, _ => false
                      end in
        let same := match oc, cookie r with Some a, Some b => text_eqb a b | _, _ => false end in
        let expect := match org with
                      | Some o => if compat && same && (o_t0 o <? 4294967296)
                                  then VL [VI 1; match spec_issued_identity cs (o_t0 o) (o_u o) (o_toks o) (now2 r) with
                                                 | Some (ts, u, toks) => VL [VI ts; put_uval u; vtexts toks]
                                                 | None => VL []
                                                 end]
                                  else VL [VI 0]
                      | None => VL [VI 0]
                      end in
        let sops := flat_map (fun bo : bool * xop => match snd bo with XOp o => [op_of o] | XReg _ => [] end) ops in
        (* when the application callback registered last is a forget / a remember that goes through, its headers are the
           LAST ones on the response (Proofs: explicit_callback_is_final) *)
        let final := match last_reg ops with
                     | Some o => if is_explicit Hf cs (no_tick r) (op_of o)
                                 then VL [vlist put_ck (hdrs_of (snd (step Hf dz ur cs (no_tick r) st0 (op_of o))))]
                                 else VL []
                     | None => VL []
                     end in
        let spec := VL [VL [vbool dok; vbool dok1]; expect; vlist put_ck (spec_response Hf dz ur cs r sops);
                        VL [VT (cookie_name cs); put_optT (spec_domain cs r); VT (path cs); vbool (secure cs);
                            vbool (http_only cs); put_optT (samesite cs); put_optZ (max_age cs)];
                        final;
                        match spec_legacy_unicode Hf dz ur cs r with Some x => VL [put_idres x] | None => VL [] end] in
        (* ---- oracle queries of this run (for the constructed configuration and for the one the spec speaks about) *)
        let msgs_for := fun cc : cfg =>
              flat_map (fun bo : bool * xop => if fst bo then [] else
                                                 match snd bo with
                                                 | XOp o => msgs_op Hf dz ur cc r (op_of o)
                                                 | XReg o => msgs_op Hf dz ur cc (no_tick r) (op_of o)
                                                 end) ops
              ++ flat_map (fun v => msgs_identify dz ur (no_reissue cc) (with_cookie (no_tick r) v)) fed
              ++ (if pol then msgs_op Hf dz ur cc (no_tick r) OIdentify else [])
              ++ msgs_identify dz ur cc r in
        let msgs1 := flat_map (fun bo : bool * xop => if fst bo then msgs_op Hf dz ur c1 r1 (op_of (xop_gop (snd bo))) else []) ops in
        let qs := flat_map (queries_of Hf (hashalg c) (secret c)) (msgs_for c)
                  ++ flat_map (queries_of Hf (hashalg cs) (secret cs)) (msgs_for cs)
                  ++ flat_map (queries_of Hf (hashalg c1) (secret c1)) msgs1
                  ++ match org with
                     | Some o => match encode_userid (o_u o) with
                                 | Some (tag, enc) =>
                                     queries_of Hf (o_alg o) (o_secret o)
                                       (digest_msg (o_ip o) (Z.of_N (o_t0 o)) (o_secret o) enc
                                                   (join [comma] (o_toks o)) (userid_typename ++ tag))
                                 | None => []
                                 end
                     | None => []
                     end in
        let missing := filter (fun q => negb (has_H ht (fst q) (snd q))) qs in
        let put_oout := fun x : option out => match x with Some o => put_out o | None => VL [VI 4] end in
        Some (VL [VL [put_optT oc; VL (map put_oout outs0 ++ outs_p); vlist put_ck resp; vlist put_idres fb];
                  spec;
                  vlist (fun q => VL [VT (fst q); VT (snd q)]) missing])
    | _ => None
    end).
