(* C02 -- traversal (src/pyramid/traversal.py): decode_path_info,
   split_path_info (Lib/PathNorm), traversal_path_info, traversal_path,
   ResourceTreeTraverser.__call__, traverse(), find_resource().
   Executable definitions only.  The values of the four result dictionaries,
   the way vpath_tuple is computed, the view selector and the safe set come
   from Gen/Facts_C02 (regenerated from the source on every run).

   Exported for C07: [res], [pos], [getitem], [descend], [node_at], [walk],
   [traverser_call], [traverse_api], [find_resource], [join_path_tuple],
   [quote_path_segment]. *)
From Coq Require Import List NArith ZArith Bool.
Import ListNotations.
Require Import Verif.Lib.Wire Verif.Lib.Text Verif.Lib.PathNorm Verif.Lib.Utf8 Verif.Lib.Percent
               Verif.Lib.C02Expr Verif.Gen.Facts_C02.
(* trees, positions, item lookup, exceptions/result, the dictionary record and the
   translator's primitives live in Model/C02_base.v (shared with Gen/Facts_C02.v) *)
Require Export Verif.Model.C02_base.

(* ----------------------------------------------------- decoding of paths *)
(* path.encode('latin-1').decode('utf-8') *)
Definition decode_path_info (t : text) : result text :=
  if forallb (fun c => N.ltb c 256) t then
    match Utf8.decode t with Some cs => Ok cs | None => Exc UnicodeDecodeError end
  else Exc UnicodeEncodeError.

Definition as_url_decode_error {A} (r : result A) : result A :=
  match r with Exc UnicodeDecodeError => Exc URLDecodeError | _ => r end.

(* traversal_path_info: decode (UnicodeDecodeError becomes URLDecodeError), split *)
Definition traversal_path_info (p : text) : result (list text) :=
  rlet d := as_url_decode_error (decode_path_info p) in Ok (split_path_info d).

Definition is_ascii (t : text) : bool := forallb (fun c => N.ltb c 128) t.

(* traversal_path for a str argument: ascii, unquote_to_bytes, latin-1, traversal_path_info *)
Definition traversal_path (p : text) : result (list text) :=
  if is_ascii p then traversal_path_info (Percent.unquote p) else Exc UnicodeEncodeError.

(* ----------------------------------------------------- the traverser *)
(* [mval], [matchdict], [request], [mval_falsy] live in Model/C02_base.v (shared with the regenerated preamble) *)
Definition slash_text : text := [slash].

(* path and subpath as computed from the match dictionary / PATH_INFO *)
Definition path_and_subpath (q : request) : result (text * list text) :=
  match q_matchdict q with
  | Some md =>
      let p0 := match md_traverse md with
                | None => MStr slash_text
                | Some v => if mval_falsy v then MStr slash_text else v
                end in
      let path := match p0 with
                  | MStr s => s
                  | MTuple l => slash :: join slash_text l     (* '/' + '/'.join(path) -- never empty *)
                  end in
      let subpath := match md_subpath md with
                     | None => []
                     | Some (MTuple l) => l
                     | Some (MStr s) => split_path_info s
                     end in
      Ok (path, subpath)
  | None =>
      match q_path_info q with
      | None => Ok (slash_text, [])                                 (* KeyError *)
      | Some raw =>
          rlet p := as_url_decode_error (decode_path_info raw) in
          Ok (match p with [] => slash_text | _ => p end, [])       (* request.path_info or '/' *)
      end
  end.

Definition render (E : env rnode) (r : retdict) : tdict :=
  mkT (fst (reval E (r_context r))) (seval E (r_view_name r)) (teval E (r_subpath r))
      (teval E (r_traversed r)) (fst (reval E (r_virtual_root r)))
      (teval E (r_virtual_root_path r)) (fst (reval E (r_root r))).

Definition is_selector (seg : text) : bool := text_eqb (py_to selector_len seg) view_selector.

Section Loop.
Variables (vpath_tuple subpath vroot_tuple : list text) (vroot_idx : Z) (root : rnode).

Definition mk_env (i : nat) (seg : text) (ob vroot : rnode) : env rnode :=
  mkEnv vpath_tuple subpath vroot_tuple (Z.of_nat i) vroot_idx seg ob vroot root.

(* for segment in vpath_tuple: ... *)
Fixpoint loop (ob vroot : rnode) (i : nat) (segs : list text) : tdict :=
  match segs with
  | [] => render (mk_env i [] ob vroot) ret_final
  | seg :: rest =>
      if is_selector seg then render (mk_env i seg ob vroot) ret_selector
      else match getitem (snd ob) seg with
           | NoGetitem => render (mk_env i seg ob vroot) ret_noitem
           | NoKey => render (mk_env i seg ob vroot) ret_keyerror
           | Found k c =>
               let next := (fst ob ++ [k], c) in
               loop next (if Z.eqb (Z.of_nat i) vroot_idx then next else vroot) (S i) rest
           end
  end.
End Loop.

(* the virtual-root part of the environment: (vroot_tuple, vpath, vroot_idx) *)
Definition vroot_part (q : request) (path : text) : result (list text * text * Z) :=
  match q_vroot q with
  | Some raw =>
      rlet vroot_path := decode_path_info raw in
      let vroot_tuple := split_path_info vroot_path in
      Ok (vroot_tuple, vroot_path ++ path, (Z.of_nat (length vroot_tuple) + vroot_idx_off)%Z)
  | None => Ok ([], path, vroot_idx_absent)
  end.

(* the statements of __call__ BEFORE `root = self.root`, as a function to the five variables that are live
   after them: (vpath, path, subpath, vroot_tuple, vroot_idx) -- the reference for the regenerated
   gen_call_preamble of Gen/Facts_C02.v *)
Definition call_preamble (q : request) : result (text * text * list text * list text * Z) :=
  rlet ps := path_and_subpath q in
  let '(path, subpath) := ps in
  rlet vr := vroot_part q path in
  let '(vroot_tuple, vpath, vroot_idx) := vr in
  Ok (vpath, path, subpath, vroot_tuple, vroot_idx).

(* ResourceTreeTraverser(root).__call__(request); [root] carries its own
   position.  [m] says how the source computes vpath_tuple (a regenerated fact). *)
Definition traverser_call_mode (m : vpath_mode) (root : rnode) (q : request) : result tdict :=
  rlet ps := path_and_subpath q in
  let '(path, subpath) := ps in
  rlet vr := vroot_part q path in
  let '(vroot_tuple, vpath, vroot_idx) := vr in
  if text_eqb vpath slash_text then
    Ok (render (mkEnv [] subpath vroot_tuple 0%Z vroot_idx [] root root root) ret_final)
  else
    let vpath_tuple := match m with
                       | VJoined => split_path_info vpath
                       | VSeparate => vroot_tuple ++ split_path_info path
                       end in
    Ok (loop vpath_tuple subpath vroot_tuple vroot_idx root root root 0 vpath_tuple).

Definition traverser_call := traverser_call_mode vpath_tuple_mode.

(* the part of __call__ from `root = self.root` to the end, as a function of the
   variables the preamble has computed (the reference for the regenerated
   gen_call_tail of Gen/Facts_C02.v) *)
Definition call_tail (m : vpath_mode) (vpath path : text) (subpath vroot_tuple : list text)
           (vroot_idx : Z) (root : rnode) : tdict :=
  if text_eqb vpath slash_text then
    render (mkEnv [] subpath vroot_tuple 0%Z vroot_idx [] root root root) ret_final
  else
    let vpath_tuple := match m with
                       | VJoined => split_path_info vpath
                       | VSeparate => vroot_tuple ++ split_path_info path
                       end in
    loop vpath_tuple subpath vroot_tuple vroot_idx root root root 0 vpath_tuple.

(* ----------------------------------------------------- find_root *)
(* find_root(resource): the first member of the lineage whose __parent__ is None (the resource itself when there
   is none) -- the reference for the regenerated gen_find_root_c02 (C07 has its own translation, gen_find_root) *)
Fixpoint first_parentless (l : list rnode) (dflt : rnode) : rnode :=
  match l with
  | [] => dflt
  | x :: r => if parent_is_none x then x else first_parentless r dflt
  end.
Definition find_root_walk (tree : res) (resource : rnode) : rnode :=
  first_parentless (lineage_of tree resource) resource.

(* ----------------------------------------------------- traverse() *)
Inductive api_path := PStr (t : text) | PTuple (l : list text).

(* quote_path_segment(segment) for a str segment, default safe set *)
Definition quote_path_segment (seg : text) : result text :=
  if forallb valid_scalar seg then Ok (Percent.quote path_segment_safe (Utf8.encode seg))
  else Exc UnicodeEncodeError.

(* quote_path_segment(segment, safe) with an explicit (ascii) safe set *)
Definition quote_path_segment_safe (seg safe : text) : result text :=
  if forallb valid_scalar seg then Ok (Percent.quote safe (Utf8.encode seg))
  else Exc UnicodeEncodeError.

Fixpoint rmap {A B} (f : A -> result B) (l : list A) : result (list B) :=
  match l with
  | [] => Ok []
  | x :: r => rlet y := f x in rlet ys := rmap f r in Ok (y :: ys)
  end.

(* _join_path_tuple(tuple) *)
Definition join_path_tuple (l : list text) : result text :=
  match l with
  | [] => Ok slash_text
  | _ => rlet qs := rmap quote_path_segment l in
         Ok (match join slash_text qs with [] => slash_text | s => s end)
  end.

(* webob.compat.unquote on ascii bytes: split on '%', int(item[:2], 16).
   int() accepts surrounding white space and one sign; bytes([v]) then
   rejects a negative value (both are ValueError = the '%' stays literal). *)
Definition is_pyspace (c : N) : bool := (N.leb 9 c && N.leb c 13) || N.eqb c 32.
Fixpoint lstrip_by (f : N -> bool) (s : list N) : list N :=
  match s with x :: r => if f x then lstrip_by f r else s | [] => [] end.
Definition strip_ws (s : list N) : list N :=
  rev (lstrip_by is_pyspace (rev (lstrip_by is_pyspace s))).
Definition hexdigits_val (l : list N) : option N :=
  match l with
  | [a] => hexval a
  | [a; b] => match hexval a, hexval b with Some x, Some y => Some (x * 16 + y)%N | _, _ => None end
  | _ => None
  end.
Definition pyint16 (s : list N) : option N :=
  match strip_ws s with
  | 43%N :: d => hexdigits_val d
  | 45%N :: d => match hexdigits_val d with Some 0%N => Some 0%N | _ => None end
  | d => hexdigits_val d
  end.
Definition unq_item (item : list N) : list N :=
  match pyint16 (firstn 2 item) with Some b => b :: skipn 2 item | None => 37%N :: item end.
Definition webob_unquote (s : list N) : list N :=
  match split_on 37%N s with [] => [] | h :: items => h ++ flat_map unq_item items end.

(* webob SCHEME_RE = ^[a-z]+: (ignoring case) on an ascii string *)
Definition is_alpha (c : N) : bool := (N.leb 65 c && N.leb c 90) || (N.leb 97 c && N.leb c 122).
Fixpoint has_scheme_from (seen : bool) (s : text) : bool :=
  match s with
  | [] => false
  | c :: r => if is_alpha c then has_scheme_from true r else N.eqb c 58 && seen
  end.
Definition has_scheme := has_scheme_from false.

Definition question : N := 63.

(* pyramid.traversal.traverse(resource, path), parametric in the traverser so
   that the specification can reuse the plumbing.  [start] is the position of
   [resource] in the tree rooted at [root].  A path that webob's
   Request.blank would read as a URL with a scheme is outside the model. *)
Definition traverse_with (T : rnode -> request -> result tdict)
           (root : res) (start : pos) (p : api_path) : result tdict :=
  rlet path := match p with
               | PStr s => Ok s
               | PTuple [] => Ok []
               | PTuple l => join_path_tuple l
               end in
  if negb (is_ascii path) then Exc UnicodeEncodeError                (* ascii_(path) *)
  else
    rlet resource := match path with
                     | c :: _ => if N.eqb c slash then Ok ([], root)  (* find_root *)
                                 else match node_at root start with Some n => Ok (start, n) | None => Unsupported end
                     | [] => match node_at root start with Some n => Ok (start, n) | None => Unsupported end
                     end in
    if has_scheme path then Unsupported
    else
      let path_info := webob_unquote (hd [] (split_on question path)) in
      T resource (mkReq (Some path_info) None None).

Definition traverse_api := traverse_with traverser_call.

Inductive found := FoundAt (p : pos) | KeyErr.
Definition find_resource_with T (root : res) (start : pos) (p : api_path) : result found :=
  rlet d := traverse_with T root start p in
  Ok (match t_view_name d with [] => FoundAt (t_context d) | _ => KeyErr end).
Definition find_resource := find_resource_with traverser_call.

(* ------------------------------------------------------------------ *)
(* The walk as a plain function: consume segments by item lookup until the
   path is exhausted, a view selector is met or a lookup fails.
   Returns (context, consumed, rest). *)
Fixpoint walk (ob : rnode) (segs : list text) : rnode * list text * list text :=
  match segs with
  | [] => (ob, [], [])
  | s :: r =>
      if is_selector s then (ob, [], segs)
      else match child ob s with
           | Some n => let '(o, c, rest) := walk n r in (o, s :: c, rest)
           | None => (ob, [], segs)
           end
  end.

(* ---------------------------------------------------- declarative spec *)
(* the property's wording: '@@' introduces a view selector *)
Definition spec_selector : text := [64; 64]%N.
Definition spec_is_selector (seg : text) : bool := startswith spec_selector seg.

(* a list of segments can be consumed from [root]: none is a view selector
   and item lookup succeeds all the way *)
Definition walkable (root : rnode) (p : list text) : bool :=
  forallb (fun s => negb (spec_is_selector s)) p
  && match descend root p with Some _ => true | None => false end.

(* the longest walkable prefix of [segs] among those of length <= k *)
Fixpoint longest_walkable (root : rnode) (segs : list text) (k : nat) : list text :=
  match k with
  | O => []
  | S k' => if walkable root (firstn k segs) then firstn k segs else longest_walkable root segs k'
  end.
Definition spec_consumed (root : rnode) (segs : list text) : list text :=
  longest_walkable root segs (length segs).

Definition pos_or_root (root : rnode) (o : option rnode) : pos :=
  match o with Some n => fst n | None => fst root end.

(* what the property demands, given the virtual-root segments, the normalised
   request path and the subpath of the match dictionary *)
Definition spec_outcome (root : rnode) (vroot_tuple path_segs md_sub : list text) : tdict :=
  let segs := vroot_tuple ++ path_segs in
  let consumed := spec_consumed root segs in
  let rest := skipn (length consumed) segs in
  mkT (pos_or_root root (descend root consumed))
      (match rest with [] => [] | s :: _ => if spec_is_selector s then skipn 2 s else s end)
      (match rest with [] => md_sub | _ :: t => t end)
      consumed
      (if Nat.leb (length vroot_tuple) (length consumed)
       then pos_or_root root (descend root vroot_tuple) else fst root)
      vroot_tuple
      (fst root).

Definition spec_traverser (root : rnode) (q : request) : result tdict :=
  rlet ps := path_and_subpath q in
  let '(path, subpath) := ps in
  rlet vt := match q_vroot q with
             | Some raw => rlet d := decode_path_info raw in Ok (split_path_info d)
             | None => Ok []
             end in
  Ok (spec_outcome root vt (split_path_info path) subpath).

Definition spec_traverse_api := traverse_with spec_traverser.
Definition spec_find_resource := find_resource_with spec_traverser.

(* the one accepted deviation (known finding C02-traversed-under-vroot):
   everything as specified except that [traversed] carries up to
   length(vroot_tuple) further segments of the unconsumed rest *)
Definition with_traversed (d : tdict) (tr : list text) : tdict :=
  mkT (t_context d) (t_view_name d) (t_subpath d) tr (t_virtual_root d) (t_virtual_root_path d) (t_root d).

(* ------------------------------------------------------------ Router *)
(* Router.handle_request, traversal part: attrs = request.__dict__;
   attrs['root'] = root; tdict = traverser(request); attrs.update(tdict).
   Attribute values: a resource (position), a str, or a sequence of str. *)
Inductive aval := ARes (p : pos) | AStr (t : text) | ASeq (l : list text).
Definition attrs := list (text * aval).        (* insertion-ordered dict *)

Fixpoint attrs_set (k : text) (v : aval) (a : attrs) : attrs :=
  match a with
  | [] => [(k, v)]
  | (k', v') :: r => if text_eqb k k' then (k, v) :: r else (k', v') :: attrs_set k v r
  end.
Fixpoint attrs_get (k : text) (a : attrs) : option aval :=
  match a with
  | [] => None
  | (k', v) :: r => if text_eqb k k' then Some v else attrs_get k r
  end.
Definition attrs_update (a : attrs) (items : list (text * aval)) : attrs :=
  fold_left (fun acc kv => attrs_set (fst kv) (snd kv) acc) items a.

Definition k_context : text := [99; 111; 110; 116; 101; 120; 116]%N.
Definition k_view_name : text := [118; 105; 101; 119; 95; 110; 97; 109; 101]%N.
Definition k_subpath : text := [115; 117; 98; 112; 97; 116; 104]%N.
Definition k_traversed : text := [116; 114; 97; 118; 101; 114; 115; 101; 100]%N.
Definition k_virtual_root : text := [118; 105; 114; 116; 117; 97; 108; 95; 114; 111; 111; 116]%N.
Definition k_virtual_root_path : text :=
  [118; 105; 114; 116; 117; 97; 108; 95; 114; 111; 111; 116; 95; 112; 97; 116; 104]%N.
Definition k_root : text := [114; 111; 111; 116]%N.

(* the value the traverser's dictionary holds under a key *)
Definition tdict_field (d : tdict) (k : text) : option aval :=
  if text_eqb k k_context then Some (ARes (t_context d))
  else if text_eqb k k_view_name then Some (AStr (t_view_name d))
  else if text_eqb k k_subpath then Some (ASeq (t_subpath d))
  else if text_eqb k k_traversed then Some (ASeq (t_traversed d))
  else if text_eqb k k_virtual_root then Some (ARes (t_virtual_root d))
  else if text_eqb k k_virtual_root_path then Some (ASeq (t_virtual_root_path d))
  else if text_eqb k k_root then Some (ARes (t_root d))
  else None.

(* the dictionary's items, keys in the order of the source's dict literal (regenerated) *)
Definition tdict_items (d : tdict) : list (text * aval) :=
  flat_map (fun k => match tdict_field d k with Some v => [(k, v)] | None => [] end) ret_keys.

Definition router_traversal_with (T : rnode -> request -> result tdict)
           (root : rnode) (q : request) : result attrs :=
  let a0 := attrs_set router_root_key (ARes (fst root)) [] in
  rlet d := T root q in
  Ok (if router_updates_attrs then attrs_update a0 (tdict_items d) else a0).

Definition router_traversal := router_traversal_with traverser_call.
Definition spec_router_traversal := router_traversal_with spec_traverser.

(* ------------------------------------------------------------ wire glue *)
Fixpoint get_res (v : val) : option res :=
  match v with
  | VI _ => Some (Node None)
  | VT _ => None
  | VL l =>
      option_map (fun cs => Node (Some cs))
        ((fix go (l : list val) : option (list (text * res)) :=
            match l with
            | [] => Some []
            | VL [VT n; c] :: r =>
                match get_res c, go r with
                | Some c', Some r' => Some ((n, c') :: r')
                | _, _ => None
                end
            | _ :: _ => None
            end) l)
  end.

Definition get_mval (v : val) : option mval :=
  match v with
  | VT s => Some (MStr s)
  | VL _ => option_map MTuple (get_texts v)
  | VI _ => None
  end.
Definition get_md (v : val) : option matchdict :=
  match v with
  | VL [t; s] => olet t := get_opt get_mval t in olet s := get_opt get_mval s in Some (mkMd t s)
  | _ => None
  end.
Definition get_pos (v : val) : option pos := get_list_of get_nat v.
Definition get_api_path (v : val) : option api_path :=
  match v with
  | VT s => Some (PStr s)
  | VL _ => option_map PTuple (get_texts v)
  | VI _ => None
  end.

Definition put_pos (p : pos) : val := VL (map vnat p).
Definition exn_code (e : exn) : Z :=
  match e with URLDecodeError => 1 | UnicodeDecodeError => 2 | UnicodeEncodeError => 3 end.
Definition put_result {A} (f : A -> val) (r : result A) : val :=
  match r with
  | Ok a => f a
  | Exc e => VL [VI 1; VI (exn_code e)]
  | Unsupported => VL [VI 2]
  end.
Definition put_tdict (d : tdict) : val :=
  VL [VI 0; put_pos (t_context d); VT (t_view_name d); vtexts (t_subpath d); vtexts (t_traversed d);
      put_pos (t_virtual_root d); vtexts (t_virtual_root_path d); put_pos (t_root d)].
Definition put_tuple (l : list text) : val := VL [VI 3; vtexts l].
Definition put_found (f : found) : val :=
  match f with FoundAt p => VL [VI 4; put_pos p] | KeyErr => VL [VI 5] end.

Definition put_aval (v : aval) : val :=
  match v with
  | ARes p => VL [VI 0; put_pos p]
  | AStr t => VL [VI 1; VT t]
  | ASeq l => VL [VI 2; vtexts l]
  end.
Definition put_attrs (a : attrs) : val :=
  VL [VI 7; VL (map (fun kv => VL [VT (fst kv); put_aval (snd kv)]) a)].

(* the property's normalisation clause for the public normalisers traversal_path_info / traversal_path: when the
   text decodes (WSGI latin-1 bytes read as UTF-8; for traversal_path after percent-decoding an ASCII str) the result
   is the normalised segment list; which exception a malformed text raises is not the property's business *)
Definition spec_traversal_path_info (p : text) : option (list text) :=
  match decode_path_info p with Ok d => Some (split_path_info d) | _ => None end.
Definition spec_traversal_path (p : text) : option (list text) :=
  if is_ascii p then spec_traversal_path_info (Percent.unquote p) else None.
Definition put_spec_tuple (o : option (list text)) : val :=
  match o with Some l => VL [VI 3; vtexts l] | None => VL [] end.

(* ---- the match dictionary a route hands to the traverser (urldispatch `*name` remainders, the traverse= route
   option = pyramid.predicates.TraversePredicate: traversal_path(generate(pattern, match))).  A value is either a
   str captured by a {name} placeholder (as captured) or the tuple split_path_info('/' + '/'.join(parts)) where
   parts are the decoded texts the value is made from (the remainder; the captures the traverse= pattern names). *)
(* what a route pattern captured, computed from the decoded PATH_INFO: the text after the literal pieces and the
   {name} captures that precede a `*stararg` / a trailing {name:.*} placeholder; the k-th '/'-separated piece *)
Definition route_remainder (decoded : text) (pieces : list text) : option text :=
  strip_prefix (concat pieces) decoded.
Definition route_piece (decoded : text) (k : nat) : text := nth k (split_on slash decoded) [].

Definition route_md_value (v : val) : option mval :=
  match v with
  | VT s => Some (MStr s)
  | VL [VI 1%Z; VT decoded; pieces] =>           (* a *stararg: the remainder, normalised *)
      olet ps := get_texts pieces in olet rem := route_remainder decoded ps in
      Some (MTuple (split_path_info (slash :: rem)))
  | VL [VI 2%Z; VT decoded; pieces] =>           (* a trailing {name:.*}: the remainder as it is *)
      olet ps := get_texts pieces in olet rem := route_remainder decoded ps in Some (MStr rem)
  | VL [VI 3%Z; VT decoded; VI k] => Some (MStr (route_piece decoded (Z.to_nat k)))     (* a {name} placeholder *)
  | VL _ => option_map (fun parts => MTuple (split_path_info (slash :: join slash_text parts))) (get_texts v)
  | VI _ => None
  end.
(* the `traverse` entry of a route's match dictionary: what the pattern captured (a `*traverse` remainder, a
   {traverse} placeholder) if it captures anything -- however empty -- else the value the traverse= option generates
   (pyramid.predicates.TraversePredicate: a membership test, not a truth test), else absent *)
Definition traverse_entry (captured : option mval) (option_parts : option (list text)) : option mval :=
  match captured with
  | Some v => Some v
  | None => option_map (fun parts => MTuple (split_path_info (slash :: join slash_text parts))) option_parts
  end.
Definition put_mval (m : mval) : val := match m with MStr s => VT s | MTuple l => vtexts l end.
Definition put_opt_mval (o : option mval) : val := match o with Some m => VL [put_mval m] | None => VL [] end.

(* one operation of a history -> [model answer; spec answer (or [] when the
   property adds nothing beyond the model)] *)
Definition run_op (tree : res) (v : val) : option val :=
  match v with
  | VL [VI 0%Z; pi; md; vr] =>
      olet pi := get_opt get_text pi in olet md := get_opt get_md md in olet vr := get_opt get_text vr in
      let q := mkReq pi md vr in
      Some (VL [put_result put_tdict (traverser_call ([], tree) q);
                put_result put_tdict (spec_traverser ([], tree) q)])
  | VL [VI 1%Z; st; p] =>
      olet st := get_pos st in olet p := get_api_path p in
      Some (VL [put_result put_tdict (traverse_api tree st p);
                put_result put_tdict (spec_traverse_api tree st p)])
  | VL [VI 2%Z; VT p] =>
      Some (VL [put_result put_tuple (traversal_path_info p); put_spec_tuple (spec_traversal_path_info p)])
  | VL [VI 3%Z; VT p] =>
      Some (VL [put_result put_tuple (traversal_path p); put_spec_tuple (spec_traversal_path p)])
  | VL [VI 4%Z; st; p] =>
      olet st := get_pos st in olet p := get_api_path p in
      Some (VL [put_result put_found (find_resource tree st p);
                put_result put_found (spec_find_resource tree st p)])
  | VL [VI 6%Z; pi; md; vr] =>
      olet pi := get_opt get_text pi in olet md := get_opt get_md md in olet vr := get_opt get_text vr in
      let q := mkReq pi md vr in
      Some (VL [put_result put_attrs (router_traversal ([], tree) q);
                put_result put_attrs (spec_router_traversal ([], tree) q)])
  | VL [VI 7%Z; t; sp; topt] =>
      olet t := get_opt route_md_value t in olet sp := get_opt route_md_value sp in
      olet topt := get_opt get_texts topt in
      let out := VL [VI 9; put_opt_mval (traverse_entry t topt); put_opt_mval sp] in
      Some (VL [out; out])
  | VL [VI 5%Z; VT seg; VT safe] =>
      Some (VL [put_result (fun t => VL [VI 6; VT t]) (quote_path_segment_safe seg safe); VL []])
  | _ => None
  end.

(* case = [tree; [op; ...]]   answer = [[model; spec]; ...] *)
Definition run_C02 (v : val) : val :=
  ret_or_bad (
    match v with
    | VL [t; VL ops] =>
        olet tree := get_res t in
        olet outs := map_opt (run_op tree) ops in
        Some (VL outs)
    | _ => None
    end).
