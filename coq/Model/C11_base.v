(* C11 -- data types and PRIMITIVES shared by the hand-written model
   (Model/C11.v) and by the program the translator regenerates from
   src/pyramid/authorization.py on every run (Gen/Facts_C11.v).

   This file is the target vocabulary of the translator's primitive table
   (harness/c11/translate.py, PRIMITIVE TABLE): the generated definitions
   consist of control flow (local [fix], [if], [match] on an option) over
   exactly these constants.  Executable definitions only. *)
From Coq Require Import List NArith ZArith Bool.
Import ListNotations.
Require Import Verif.Lib.Wire Verif.Lib.Text.

Inductive action := Allow | Deny | Other.          (* Other: any value that is neither constant *)
(* the object found in the permission field of an ACE, as the code sees it:
     PStr s    a str (or an instance of a str subclass) -- one permission name
     PNames l  any other object with __iter__ whose elements are the names l (list, tuple, set, frozenset,
               dict / keys view, an object that only defines __iter__, a one-shot generator)
     PAll      an instance of AllPermissionsList or of a subclass (pyramid.authorization.ALL_PERMISSIONS, the legacy
               pyramid.security.ALL_PERMISSIONS, a fresh instance, an application subclass)
     PAtom     any other object WITHOUT __iter__ (an int, None, ...): equal to no permission name
     PEq s     an application object WITHOUT __iter__ that is no str but whose __eq__ says it EQUALS the name s (and only s):
               e.g. a permission constant of a class with a str-aware __eq__ *)
Inductive perms := PAll | PNames (l : list text) | PStr (s : text) | PAtom | PEq (s : text).
Record ace := mkAce { act : action; who : text; what : perms }.
Definition acl := list ace.
(* lineage, context first; None = the location has no __acl__ attribute.  A
   callable __acl__ is represented by the list it returns. *)
Definition lineage := list (option acl).

(* leaves of pyramid.util.is_nonstr_iter:  isinstance(v, str)  /  hasattr(v, '__iter__') *)
Definition is_str (v : perms) : bool := match v with PStr _ => true | _ => false end.
Definition has_iter (v : perms) : bool := match v with PAtom | PEq _ => false | _ => true end.

(* [p in s] on two str: substring test *)
Fixpoint is_substr (p s : text) : bool :=
  startswith p s || match s with [] => false | _ :: r => is_substr p r end.

(* the value of [ace_permissions] after  `if not is_nonstr_iter(v): v = [v]`:  v itself, or the one-element list [v] *)
Inductive nperms := Wrapped (v : perms) | Self (v : perms).
Definition normalise (isit : perms -> bool) (v : perms) : nperms := if isit v then Self v else Wrapped v.

(* [permission in x] for a str permission p.  [allc] is AllPermissionsList.__contains__ (regenerated).
   p in [v]      list membership is ==: a str equals an equal str, and an object whose own __eq__ says so (PEq);
                 AllPermissionsList.__eq__ is an isinstance test, every other object here compares unequal
   p in 'str'    substring test;  p in iterable: some element == p;  p in ALL: __contains__
   p in <object without __iter__>: TypeError in Python -- answered false here; not reachable when [isit] is the
                 real is_nonstr_iter (normalise_never_self_atom in Proofs/C11.v) *)
Definition contains (allc : text -> bool) (p : text) (n : nperms) : bool :=
  match n with
  | Wrapped (PStr s) => text_eqb p s
  | Wrapped (PEq s) => text_eqb p s              (* str.__eq__ gives NotImplemented, the object's reflected __eq__ decides *)
  | Wrapped _ => false
  | Self (PStr s) => is_substr p s
  | Self (PNames l) => mem_text p l
  | Self PAll => allc p
  | Self PAtom => false
  | Self (PEq _) => false                        (* TypeError as for PAtom; equally unreachable *)
  end.

(* [permission in ace_permissions] after the normalisation idiom *)
Definition perm_in_with (isit : perms -> bool) (allc : text -> bool) (p : text) (v : perms) : bool :=
  contains allc p (normalise isit v).

(* [ace_action == Allow], [ace_action == Deny] *)
Definition is_allow (a : action) : bool := match a with Allow => true | _ => false end.
Definition is_deny (a : action) : bool := match a with Deny => true | _ => false end.

(* result of permits: ACLAllowed / ACLDenied with (index of the location in
   the lineage, index of the ACE in its ACL), or the '<default deny>' result *)
Inductive decision := Allowed (d i : nat) | Denied (d i : nat) | DefaultDeny.

(* Python sets of principals as duplicate-free lists:
   set() = [] ; s.add(x) ; s.remove(x)/s.discard(x) ; s.update(t) ; x in s = mem_text x s *)
Definition add (x : text) (l : list text) : list text := if mem_text x l then l else x :: l.
Fixpoint remove (x : text) (l : list text) : list text :=
  match l with [] => [] | y :: r => if text_eqb x y then remove x r else y :: remove x r end.
Definition union (a b : list text) : list text := fold_right add a b.

(* ---- resources and their __parent__ pointers (pyramid.location.lineage, regenerated as gen_lineage).
   A resource is an index into the world; reading r.__parent__ raises AttributeError (PMissing), gives None (PNone)
   or another resource (PTo).  An index outside the world has no attributes at all. *)
Inductive ptr := PMissing | PNone | PTo (r : nat).
Record node := mkNode { nparent : ptr; nacl : option acl }.
Definition world := list node.
Definition parent_of (W : world) (r : nat) : ptr :=
  match nth_error W r with Some n => nparent n | None => PMissing end.
Definition acl_of (W : world) (r : nat) : option acl :=
  match nth_error W r with Some n => nacl n | None => None end.
(* the generator's output so far, or None once the fuel ran out (a __parent__ cycle: the real generator never ends) *)
Definition ocons (x : nat) (o : option (list nat)) : option (list nat) :=
  match o with Some l => Some (x :: l) | None => None end.

(* ---- the registry a request is decided in (pyramid/security.py routes, regenerated by translate_entry.py).
   has_policy: a security policy is registered (the LegacySecurityPolicy over an authentication policy reporting the
   principals [ps] and ACLAuthorizationPolicy); has_authz: an authorization policy is registered;
   secured_view / plain_view: what adapters.lookup finds for the view name under ISecuredView (a secured view or a
   MultiView) and under IView. *)
Inductive sview :=
| SOne (perm : text)                              (* viewderivers._secured_view: __permitted__ = policy.permits(request, context, perm) *)
| SMulti (subs : list (bool * option text)).      (* MultiView: per sub-view (do its predicates hold?, its permission if secured) *)
Record registry := mkReg { has_policy : bool; has_authz : bool; secured_view : option sview; plain_view : bool }.
Inductive hp_result := ByPolicy (d : decision) | NoPolicyAllowed.
Inductive vep_result := VDecision (d : decision) | VAllowedNoPermission | VTrue | VTypeError | VPredicateMismatch.

(* view.__permitted__(context, request)  (shape-pinned: viewderivers._secured_view.permitted; MultiView.__permitted__ =
   the first sub-view, in order, that has no predicates or whose predicates hold; its __permitted__ if it has one, else
   True; PredicateMismatch when there is none) *)
Definition view_permitted (perm_dec : text -> decision) (v : sview) : vep_result :=
  match v with
  | SOne perm => VDecision (perm_dec perm)
  | SMulti subs =>
      match find (fun s : bool * option text => fst s) subs with
      | None => VPredicateMismatch
      | Some (_, Some perm) => VDecision (perm_dec perm)
      | Some (_, None) => VTrue
      end
  end.
