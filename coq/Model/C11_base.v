(* C11 -- data types and PRIMITIVES shared by the hand-written model
   (Model/C11.v) and by the program the translator regenerates from
   src/pyramid/authorization.py on every run (Gen/Facts_C11.v).

   This file is the target vocabulary of the translator's primitive table
   (harness/c11/translate.py, PRIMITIVE TABLE): the generated definitions
   consist of control flow (local [fix], [if], [match] on an option) over
   exactly these constants.  Executable definitions only. *)
From Coq Require Import List NArith ZArith Bool.
Import ListNotations.
Require Import Verif.Lib.Wire.

Inductive action := Allow | Deny | Other.          (* Other: any value that is neither constant *)
Inductive perms := PAll | PNames (l : list text).  (* ALL_PERMISSIONS | iterable; a bare str is PNames [s] *)
Record ace := mkAce { act : action; who : text; what : perms }.
Definition acl := list ace.
(* lineage, context first; None = the location has no __acl__ attribute.  A
   callable __acl__ is represented by the list it returns. *)
Definition lineage := list (option acl).

(* [permission in ace_permissions] after the is_nonstr_iter normalisation *)
Definition perm_in (p : text) (ps : perms) : bool :=
  match ps with PAll => true | PNames l => mem_text p l end.

(* [ace_action == Allow], [ace_action == Deny] *)
Definition is_allow (a : action) : bool := match a with Allow => true | _ => false end.
Definition is_deny (a : action) : bool := match a with Deny => true | _ => false end.

(* result of permits: ACLAllowed / ACLDenied with (index of the location in
   the lineage, index of the ACE in its ACL), or the '<default deny>' result *)
Inductive decision := Allowed (d i : nat) | Denied (d i : nat) | DefaultDeny.

(* Python sets of principals as duplicate-free lists:
   set() = [] ; s.add(x) ; s.remove(x)/s.discard(x) ; s.update(t) ; x in s = mem_text x s *)
Definition add (x : text) (l : list text) : list text := if mem_text x l then l else x :: l.
Fixpoint remove (x : text) (l : list text) : list text :=
  match l with [] => [] | y :: r => if text_eqb x y then remove x r else y :: remove x r end.
Definition union (a b : list text) : list text := fold_right add a b.
