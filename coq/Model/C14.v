(* C14 -- Model/C14_base.v (types, primitives, hand-written reference model, judge) re-exported, plus what depends
   on the regenerated Gen/Facts_C14.v: the code's parameter record and the wire glue. *)
From Coq Require Import List NArith ZArith Bool.
Import ListNotations.
Require Import Verif.Lib.Wire Verif.Gen.Facts_C03 Verif.Model.C03.
Require Export Verif.Model.C14_base.
Require Import Verif.Gen.Facts_C14.

Definition code_params : params :=
  mkP hidden_names set_in_with set_after uses_combined exc_view_name iev_none_raises iev_reraise_catches
      handler_catches handler_reraises_original tween_catches default_excview_contexts
      (nf_context, nf_exception_only) (fb_context, fb_exception_only) (exc_default_context, exc_exception_only)
      default_view_returns_context permissive_checks_predicates nf_forwards fb_forwards viewdefaults_on.


(* the pipeline built from the REGENERATED functions (Gen/Facts_C14.v): this is what the correspondence run executes *)
Definition run_request_gen (P : params) (W : world) (ri : rinfo) : list event :=
  run_request_x W ri (main_handler_pm P W ri) (gen_iev P W ri) (gen_excview_tween P W ri site_tween).

(* the subrequest scenario built from the REGENERATED functions *)
Definition run_request_sub_gen (P : params) (W : world) (ri : rinfo) (tweens : bool) : list event :=
  run_request_sub W ri tweens (main_handler_pm P W (sub_ri ri))
    (gen_excview_tween P W (sub_ri ri) site_tween) (gen_excview_tween P W ri site_tween).

(* under program [4, ut] on the wire = the subrequest scenario: the outer request itself is never dispatched
   (its rinfo says URaise), [ut] = use_tweens as passed ([] = not passed) *)
Definition get_rinfo_s (v : val) : option (N * rinfo * option (option bool)) :=
  match v with
  | VL [ph; rq; rq2; comb; unr; deny; rootr; VL [VI 4%Z; ut]; pre] =>
      olet ut := get_opt get_bool ut in
      olet r := get_rinfo (VL [ph; rq; rq2; comb; unr; deny; rootr; VL [VI 1%Z; VI 0%Z]; pre]) in
      Some (r, Some ut)
  | _ => olet r := get_rinfo v in Some (r, None)
  end.

(* the whole judge of the property: rendering (judge) + raising site (judge_site) *)
Definition judge_all (tolerant : bool) (sregs : list reg) (W : world) (ri : rinfo) (sub : option (option bool))
    (evs : list event) : bool :=
  judge_gen tolerant sregs W ri evs
  && judge_site W (match sub with Some ut => site_mode_sub ut | None => site_mode_of (ri_under ri) end) evs.

(* case = [named; [decl ...]; [exc ...]; [rinfo ...]; observed]   observed = [] or [[event ...] per request]
   answer = [[model trace; judge of the model trace; judge of the observed trace (1/0; 2 when none given);
              winners (tags) of the exception arriving at the excview tween in the model;
              the tolerant judge of the observed trace; the premises of the judge theorem hold (computed);
              the trace of the hand-written reference pipeline] per request] *)
Definition run_C14 (v : val) : val :=
  ret_or_bad (
    match v with
    | VL [nm; decls; excs; reqs; observed] =>
        olet nm := get_named nm in
        olet decls := get_list_of (get_decl gen_isexception) decls in
        olet excs := get_list_of get_exc excs in
        olet reqs := get_list_of get_rinfo_s reqs in
        olet observed := get_list_of get_list observed in
        let names := pred_names in
        let bodies := bodies_of code_params nm decls in
        let sbodies := bodies_of spec_params nm decls in
        Some (VL (map (fun ir =>
           let '(i, (ph, ri, sub)) := ir in
           let W := mkWorld (register_all accept_order_default (regs_upto code_params names nm decls ph)) bodies excs
                              containment_reads_request_context physical_path_reads_request_context in
           let SW := mkWorld reg_empty sbodies excs true false in
           let sregs := regs_upto spec_params names nm decls ph in
           let tr := match sub with
                     | Some ut => run_request_sub_gen code_params W ri (sub_tweens subrequest_use_tweens_default ut)
                     | None => run_request_gen code_params W ri end in
           let tr_ref := match sub with
                         | Some ut => run_request_sub_m code_params W ri (sub_tweens subrequest_use_tweens_default ut)
                         | None => run_request_pm code_params W ri end in
           let arriving := match split_probe tr [] with
                           | Some (_, Raise e, _, _) =>
                               put_tags (spec_winners exc_classifier_id sregs (exc_request spec_params SW ri e))
                           | _ => VL [] end in
           VL [VL (map (put_event W) tr);
               vbool (judge_all false sregs SW ri sub tr);
               match nth_error observed i with
               | Some ob =>
                   match map_opt get_event ob with
                   | Some evs => vbool (judge_all false sregs SW ri sub evs && forallb (event_status_ok SW) ob)
                   | None => VI 0
                   end
               | None => VI 2
               end;
               arriving;
               match nth_error observed i with
               | Some ob =>
                   match map_opt get_event ob with
                   | Some evs => vbool (judge_all true sregs SW ri sub evs && forallb (event_status_ok SW) ob)
                   | None => VI 0
                   end
               | None => VI 2
               end;
               vbool (premises_b sregs SW ri);
               VL (map (put_event W) tr_ref)])
           (combine (seq 0 (length reqs)) reqs)))
    | _ => None
    end).
