(* C04 -- the error path of ActionState.execute_actions: an action's callable raises.  The exception is wrapped into a
   ConfigurationExecutionError and leaves the loop at once: nothing else is executed, no further Deferred is forced.
   [bad] tells which callables raise (they raise after they have started -- the harness logs their start -- and before
   they declare anything).  Executable definitions only. *)
From Coq Require Import List NArith ZArith Bool.
Import ListNotations.
Require Import Verif.Lib.Wire Verif.Model.C04.

Inductive xoutcome := Normal (o : outcome) | Raised (a : N).   (* Raised: ConfigurationExecutionError for action a *)

Fixpoint exec_x (cfg : params) (bad : N -> bool) (fuel : nat) (st : cstate) (g : gen) (pending : list action)
         (log : list event) : xoutcome * list event :=
  match fuel with
  | O => (Normal OutOfFuel, log)
  | S f =>
      let '(st1, g1) := match pending with [] => (st, g) | _ => restart st pending end in
      match gen_next cfg st1 g1 with
      | SStop o evs _ => (Normal o, log ++ evs)
      | SYield a st2 g2 evs =>
          if bad (aid a) then (Raised (aid a), log ++ evs ++ [Run (aid a)])
          else exec_x cfg bad f st2 g2 (aadds a) (log ++ evs ++ [Run (aid a)])
      end
  end.

Definition commit_x (cfg : params) (bad : N -> bool) (acts : list action) : xoutcome * list event :=
  exec_x cfg bad (S (forest_size acts)) cstate0 gen0 acts [].

(* self.actions after execute_actions(clear): the finally clause empties it when [clear]; otherwise a normal return
   leaves every action seen (all_actions) and an exception leaves what the loop had last put there, [] *)
Definition actions_after (clear : bool) (raised : bool) (all_actions : list action) : list action :=
  if clear then [] else if raised then [] else all_actions.
