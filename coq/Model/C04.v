(* C04 -- ActionState.execute_actions / resolveConflicts / ConflictResolverState
   (src/pyramid/config/actions.py), undefer/Deferred (registry.py), the
   includepath of Configurator.include (config/__init__.py).
   Executable definitions only.

   Exported for later properties (C08, C20):
     action, disc, event, outcome, params, cfg_current, cfg_fixed, cfg_old,
     resolve, commit, commit_spec (declarative, single non-re-entrant commit),
     spec_exec (declarative small-step reading of the re-entrant commit). *)
From Coq Require Import List NArith ZArith Bool.
Import ListNotations.
Require Import Verif.Lib.Wire Verif.Lib.C04Sort Verif.Gen.Facts_C04.

(* ------------------------------------------------------------------ data *)
Definition path := list text.                     (* includepath: tuple of "module:function" specs *)

(* discriminator: None | hashable value (abstracted to a number) | Deferred(func)
   whose func returns one of those when it is forced *)
Inductive disc := Eager (o : option N) | Defer (o : option N).

(* one action dictionary.  [aid] is the identity of the dict (the harness gives
   every action its own callable/info, so no two dicts compare equal);
   [aord] is action['order'] (None is accepted by the code: "order or 0");
   [aadds] are the actions the callable declares when it runs (re-entrancy). *)
Inductive action := mkA { aid : N; adisc : disc; apath : path; aord : option Z; aadds : list action }.

Definition ainfo := (N * action)%type.             (* (i, action) *)

Inductive event := Run (a : N) | Force (a : N).    (* callable ran | Deferred.func was called *)

Inductive outcome :=
| Done
| Conflict (K : list (N * list N))   (* ConfigurationConflictError._conflicts: discriminator -> infos, dict order *)
| Late (order min : Z)               (* ConfigurationError "Actions were added to order=.. after .. order=.." *)
| Crash                              (* list.remove(x): x not in list (ValueError) *)
| OutOfFuel.

(* the two repaired places, as parameters (regenerated facts decide the current value) *)
Record params := { prev_all : bool;          (* with an already executed action of the discriminator, EVERY new action is tested against it *)
                   drop_discarded : bool }.  (* overridden actions leave remaining_actions *)
Definition cfg_fixed := {| prev_all := true; drop_discarded := true |}.
Definition cfg_old := {| prev_all := false; drop_discarded := false |}.
Definition cfg_current := {| prev_all := N.eqb prev_branch 1; drop_discarded := memN 2 remaining_mutations |}.

(* ------------------------------------------------------------------ comparisons *)
Fixpoint text_cmp (a b : text) : comparison :=
  match a, b with
  | [], [] => Eq | [], _ => Lt | _, [] => Gt
  | x :: a', y :: b' => match N.compare x y with Eq => text_cmp a' b' | c => c end
  end.
Fixpoint path_cmp (a b : path) : comparison :=
  match a, b with
  | [], [] => Eq | [], _ => Lt | _, [] => Gt
  | x :: a', y :: b' => match text_cmp x y with Eq => path_cmp a' b' | c => c end
  end.
Fixpoint path_eqb (a b : path) : bool :=
  match a, b with
  | [], [] => true
  | x :: a', y :: b' => text_eqb x y && path_eqb a' b'
  | _, _ => false
  end.

Definition ordkey (a : action) : Z := match aord a with Some z => z | None => 0%Z end.   (* v['order'] or 0 *)

(* one component of a sort-key tuple (codes from the facts extractor) *)
Definition key_cmp (code : N) (x y : ainfo) : comparison :=
  match code with
  | 1%N => Z.compare (ordkey (snd x)) (ordkey (snd y))     (* v['order'] or 0 *)
  | 2%N | 5%N => N.compare (fst x) (fst y)                 (* n / i *)
  | 3%N => path_cmp (apath (snd x)) (apath (snd y))        (* includepath *)
  | _ => Eq                                                (* 4: the group's order, constant *)
  end.
Fixpoint lex_cmp (codes : list N) (x y : ainfo) : comparison :=
  match codes with
  | [] => Eq
  | c :: r => match key_cmp c x y with Eq => lex_cmp r x y | o => o end
  end.
Definition leb_by (codes : list N) (x y : ainfo) : bool :=
  match lex_cmp codes x y with Gt => false | _ => true end.

(* the test deciding that [p] is NOT overridden by [base] *)
Definition disjunct (code : N) (base p : path) : bool :=
  match code with
  | 1%N => negb (path_eqb (firstn (length base) p) base)   (* includepath[:len(basepath)] != basepath *)
  | 2%N => path_eqb p base                                 (* includepath == basepath *)
  | _ => false
  end.
Definition conflicting (base p : path) : bool := existsb (fun c => disjunct c base p) conflict_test.

Definition cmp_eval (c : N) (x y : Z) : bool :=
  match c with
  | 0%N => Z.ltb x y | 1%N => Z.leb x y | 2%N => Z.ltb y x | 3%N => Z.leb y x
  | 4%N => Z.eqb x y | _ => negb (Z.eqb x y)
  end.
(* state.min_order is not None and order < state.min_order *)
Definition late (mo : option Z) (order : Z) : bool :=
  match mo with Some m => cmp_eval min_order_cmp order m | None => false end.

(* ------------------------------------------------------------------ ConflictResolverState *)
Record cstate := { resolved : list (option N * ainfo);   (* resolved_ainfos, newest binding first *)
                   remaining : list action;
                   min_order : option Z;
                   start : N }.
Definition cstate0 := {| resolved := []; remaining := []; min_order := None; start := 0%N |}.

Fixpoint lookup (d : N) (r : list (option N * ainfo)) : option ainfo :=
  match r with
  | [] => None
  | (Some d', x) :: r' => if N.eqb d d' then Some x else lookup d r'
  | (None, _) :: r' => lookup d r'
  end.

Fixpoint enumerate (s : N) (l : list action) : list ainfo :=
  match l with [] => [] | a :: r => (s, a) :: enumerate (N.succ s) r end.

Definition undefer (d : disc) : option N := match d with Eager o => o | Defer o => o end.
Definition is_deferred (d : disc) : bool := match d with Defer _ => true | Eager _ => false end.
Definition D (a : action) : option N := undefer (adisc a).
(* action['discriminator'] = undefer(action['discriminator']) *)
Definition force (a : action) : action := mkA (aid a) (Eager (D a)) (apath a) (aord a) (aadds a).
Definition mark_forced (id : N) (l : list action) : list action :=
  map (fun b => if N.eqb (aid b) id then force b else b) l.

(* list.remove *)
Fixpoint remove_aid (id : N) (l : list action) : option (list action) :=
  match l with
  | [] => None
  | b :: r => if N.eqb (aid b) id then Some r
              else match remove_aid id r with Some r' => Some (b :: r') | None => None end
  end.
Definition remove_all (xs : list ainfo) (l : list action) : option (list action) :=
  fold_left (fun acc x => match acc with Some l' => remove_aid (aid (snd x)) l' | None => None end) xs (Some l).

(* unique.setdefault(discriminator, []).append(ainfo)  -- insertion-ordered dict *)
Fixpoint uadd (d : N) (x : ainfo) (u : list (N * list ainfo)) : list (N * list ainfo) :=
  match u with
  | [] => [(d, [x])]
  | (d', l) :: r => if N.eqb d d' then (d', l ++ [x]) :: r else (d', l) :: uadd d x r
  end.

(* the first loop over one order group, written as its independent effects *)
Definition forced_group (grp : list ainfo) : list ainfo := map (fun x => (fst x, force (snd x))) grp.
Definition force_events (grp : list ainfo) : list event :=
  map (fun x => Force (aid (snd x))) (filter (fun x => is_deferred (adisc (snd x))) grp).
Definition mark_group (grp : list ainfo) (rem : list action) : list action :=
  fold_left (fun r x => mark_forced (aid (snd x)) r) grp rem.
Definition none_output (fg : list ainfo) : list ainfo :=
  filter (fun x => match D (snd x) with None => true | Some _ => false end) fg.
Definition build_unique (fg : list ainfo) : list (N * list ainfo) :=
  fold_left (fun u x => match D (snd x) with Some d => uadd d x u | None => u end) fg [].

(* conflicts.setdefault(d, [baseinfo]).append(info) for every offending action *)
Definition offenders (base : action) (rest : list ainfo) : list N :=
  map (fun x => aid (snd x)) (filter (fun x => conflicting (apath base) (apath (snd x))) rest).

(* one iteration of "for discriminator, ainfos in unique.items()" on the sorted ainfos:
   (what is appended to output, the conflicts entry if any) *)
Definition detect1 (cfg : params) (res : list (option N * ainfo)) (d : N) (sorted : list ainfo)
  : list ainfo * list (N * list N) :=
  match sorted with
  | [] => ([], [])
  | first :: rest =>
      match lookup d res with
      | Some (_, pa) =>
          if prev_all cfg then
            match offenders pa sorted with [] => ([], []) | l => ([], [(d, aid pa :: l)]) end
          else
            let c1 := if conflicting (apath pa) (apath (snd first)) then [aid pa; aid (snd first)] else [] in
            let c2 := offenders (snd first) rest in
            match c1, c2 with
            | [], [] => ([], [])
            | [], _ => ([], [(d, aid (snd first) :: c2)])
            | _, _ => ([], [(d, c1 ++ c2)])
            end
      | None =>
          match offenders (snd first) rest with
          | [] => ([first], [])
          | l => ([first], [(d, aid (snd first) :: l)])
          end
      end
  end.

Definition sort_unique_lists (u : list (N * list ainfo)) : list (N * list ainfo) :=
  map (fun dl => (fst dl, sort (leb_by bypath_key) (snd dl))) u.

Fixpoint detect (cfg : params) (res : list (option N * ainfo)) (us : list (N * list ainfo))
  : list ainfo * list (N * list N) :=
  match us with
  | [] => ([], [])
  | (d, l) :: r =>
      let '(o1, c1) := detect1 cfg res d l in
      let '(o2, c2) := detect cfg res r in
      (o1 ++ o2, c1 ++ c2)
  end.

Definition in_output (out : list ainfo) (x : ainfo) : bool := existsb (fun y => N.eqb (aid (snd y)) (aid (snd x))) out.

(* the suspended generator: what is left of "for i, action in sorted(output)" and
   of the groupby iterator *)
Record gen := { g_out : list ainfo; g_groups : list (Z * list ainfo) }.
Definition gen0 := {| g_out := []; g_groups := [] |}.
Definition log0 : list event := [].      (* the log at the entry of execute_actions *)

Inductive step :=
| SYield (a : action) (st : cstate) (g : gen) (evs : list event)
| SStop (o : outcome) (evs : list event) (st : cstate).

(* body of "for i, action in sorted(output...)": state updates, then yield *)
Definition yield_first (st : cstate) (x : ainfo) (rest : list ainfo) (gs : list (Z * list ainfo)) (evs : list event) : step :=
  match remove_aid (aid (snd x)) (remaining st) with
  | None => SStop Crash evs st
  | Some rem =>
      SYield (snd x)
             {| resolved := (D (snd x), x) :: resolved st; remaining := rem;
                min_order := aord (snd x); start := N.succ (fst x) |}
             {| g_out := rest; g_groups := gs |} evs
  end.

(* run the generator from the top of "for order, actiongroup in groupby(...)" to its next yield *)
Fixpoint next_group (cfg : params) (st : cstate) (groups : list (Z * list ainfo)) (evs : list event) : step :=
  match groups with
  | [] => SStop Done evs st
  | (order, grp) :: gs =>
      if late (min_order st) order then
        SStop (Late order (match min_order st with Some m => m | None => 0%Z end)) evs st
      else
        let fg := forced_group grp in
        let evs1 := evs ++ force_events grp in
        let rem1 := mark_group grp (remaining st) in
        let us := sort_unique_lists (build_unique fg) in
        let '(firsts, K) := detect cfg (resolved st) us in
        let output := none_output fg ++ firsts in
        match K with
        | _ :: _ => SStop (Conflict K) evs1
                     {| resolved := resolved st; remaining := rem1; min_order := min_order st; start := start st |}
        | [] =>
            let discards := filter (fun x => negb (in_output output x)) (concat (map snd us)) in
            match (if drop_discarded cfg then remove_all discards rem1 else Some rem1) with
            | None => SStop Crash evs1 st
            | Some rem2 =>
                let st2 := {| resolved := resolved st; remaining := rem2; min_order := min_order st; start := start st |} in
                match sort (leb_by output_key) output with
                | [] => next_group cfg st2 gs evs1
                | x :: rest => yield_first st2 x rest gs evs1
                end
            end
        end
  end.

Definition gen_next (cfg : params) (st : cstate) (g : gen) : step :=
  match g_out g with
  | x :: rest => yield_first st x rest (g_groups g) []
  | [] => next_group cfg st (g_groups g) []
  end.

Definition group_key (x : ainfo) : Z :=
  match orderonly_key with [1%N] => ordkey (snd x) | _ => 0%Z end.

(* first next() of resolveConflicts(actions, state): extend, enumerate, sort, group *)
Definition restart (st : cstate) (new : list action) : cstate * gen :=
  let rem := remaining st ++ new in
  ({| resolved := resolved st; remaining := rem; min_order := min_order st; start := start st |},
   {| g_out := [];
      g_groups := groupby group_key (sort (leb_by orderandpos_key) (enumerate (start st) rem)) |}).

(* list(resolveConflicts(actions, state)) *)
Fixpoint drain (cfg : params) (fuel : nat) (st : cstate) (g : gen) (acc : list action) (evs : list event)
  : outcome * list action * list event * cstate :=
  match fuel with
  | O => (OutOfFuel, acc, evs, st)
  | S f =>
      match gen_next cfg st g with
      | SStop o e st' => (o, acc, evs ++ e, st')
      | SYield a st' g' e => drain cfg f st' g' (acc ++ [a]) (evs ++ e)
      end
  end.
Definition resolve (cfg : params) (st : cstate) (acts : list action) : outcome * list action * list event * cstate :=
  let '(st1, g1) := restart st acts in
  drain cfg (S (length (remaining st1))) st1 g1 [] [].

(* ActionState.execute_actions: the while loop; [pending] is self.actions *)
Fixpoint exec (cfg : params) (fuel : nat) (st : cstate) (g : gen) (pending : list action) (log : list event)
  : outcome * list event :=
  match fuel with
  | O => (OutOfFuel, log)
  | S f =>
      let '(st1, g1) := match pending with [] => (st, g) | _ => restart st pending end in
      match gen_next cfg st1 g1 with
      | SStop o evs _ => (o, log ++ evs)
      | SYield a st2 g2 evs => exec cfg f st2 g2 (aadds a) (log ++ evs ++ [Run (aid a)])
      end
  end.

Fixpoint asize (a : action) : nat :=
  match a with mkA _ _ _ _ adds => S ((fix go (l : list action) : nat := match l with [] => O | x :: r => asize x + go r end) adds) end.
Definition forest_size (l : list action) : nat := fold_right (fun a n => asize a + n) O l.

Definition commit_with (cfg : params) (acts : list action) : outcome * list event :=
  exec cfg (S (forest_size acts)) cstate0 gen0 acts [].
Definition commit := commit_with cfg_current.

(* ActionConfiguratorMixin.action (autocommit off): the action dict handed to the action state carries the
   configurator's includepath, the given discriminator and order *)
Definition declare (includepath : path) (i : N) (d : disc) (o : option Z) (adds : list action) : action :=
  mkA i d includepath o adds.

(* Configurator.include: the nested configurator's includepath *)
Definition child_path (parent : path) (spec : text) : path :=
  match include_path with
  | 1%N => parent ++ [spec]        (* self.includepath + (spec,) *)
  | 2%N => spec :: parent
  | _ => parent
  end.

(* ------------------------------------------------------------------ declarative specification *)
Fixpoint is_prefix (a b : path) : bool :=
  match a, b with
  | [], _ => true
  | x :: a', y :: b' => text_eqb x y && is_prefix a' b'
  | _ :: _, [] => false
  end.
(* the include chain [a] is a strict prefix of [b] *)
Definition strict_prefix (a b : path) : bool := is_prefix a b && negb (path_eqb a b).

Definition has_disc (d : N) (a : action) : bool := match D a with Some d' => N.eqb d d' | None => false end.
Definition G (d : N) (l : list action) : list action := filter (has_disc d) l.
Definition dominates (a b : action) : bool := N.eqb (aid a) (aid b) || strict_prefix (apath a) (apath b).
(* [a] is of the minimal phase of its discriminator and its chain is a strict prefix of all the others' *)
Definition wins (l : list action) (d : N) (a : action) : bool :=
  forallb (fun b => Z.leb (ordkey a) (ordkey b)) (G d l) && forallb (dominates a) (G d l).
Definition winner (l : list action) (d : N) : option action := find (wins l d) (G d l).

Definition upto (p : Z) (l : list action) : list action := filter (fun a => Z.leb (ordkey a) p) l.
Definition at_phase (p : Z) (l : list action) : list action := filter (fun a => Z.eqb (ordkey a) p) l.

Fixpoint dedupN (l : list N) (seen : list N) : list N :=
  match l with
  | [] => []
  | x :: r => if memN x seen then dedupN r seen else x :: dedupN r (x :: seen)
  end.
Fixpoint somes {A} (l : list (option A)) : list A :=
  match l with [] => [] | Some x :: r => x :: somes r | None :: r => somes r end.
(* discriminators (not None) in order of first appearance *)
Definition discs (l : list action) : list N := dedupN (somes (map D l)) [].

Definition contested (acts : list action) (p : Z) : list N :=
  filter (fun d => match winner (upto p acts) d with None => true | Some _ => false end) (discs (at_phase p acts)).
Definition runnable (l : list action) (a : action) : bool :=
  match D a with
  | None => true
  | Some d => match winner l d with Some w => N.eqb (aid w) (aid a) | None => false end
  end.

Fixpoint dedup_adjacent (l : list Z) : list Z :=
  match l with
  | [] => []
  | x :: r => match r with y :: _ => if Z.eqb x y then dedup_adjacent r else x :: dedup_adjacent r | [] => [x] end
  end.
Definition phases (acts : list action) : list Z := dedup_adjacent (sort Z.leb (map ordkey acts)).

Inductive spec_outcome := SDone | SConflict (K : list N) | SLate (order min : Z) | SFuel.

Definition forces_of (l : list action) : list event :=
  map (fun a => Force (aid a)) (filter (fun a => is_deferred (adisc a)) l).
Definition runs_of (l : list action) : list event := map (fun a => Run (aid a)) l.

(* single, non-re-entrant commit, phase after phase in increasing order: the
   phase's deferred discriminators are forced; if some discriminator has no
   winner among the actions seen so far the commit stops with exactly those;
   otherwise the actions of the phase that are None-discriminated or winners
   run in declaration order *)
Fixpoint spec_phases (acts : list action) (ps : list Z) : spec_outcome * list event :=
  match ps with
  | [] => (SDone, [])
  | p :: r =>
      let fo := forces_of (at_phase p acts) in
      match contested acts p with
      | [] => let '(o, lg) := spec_phases acts r in
              (o, fo ++ runs_of (filter (runnable (upto p acts)) (at_phase p acts)) ++ lg)
      | K => (SConflict K, fo)
      end
  end.
Definition commit_spec (acts : list action) : spec_outcome * list event := spec_phases acts (phases acts).

(* --- declarative small-step reading of the re-entrant commit ("recomputation"):
   pool = declared, not yet executed or discarded actions in declaration order;
   won = executed action per discriminator; cur = phase reached *)
Definition min_phase (l : list action) : option Z :=
  match l with [] => None | a :: r => Some (fold_left (fun m b => Z.min m (ordkey b)) r (ordkey a)) end.
Fixpoint lookup_won (d : N) (w : list (N * action)) : option action :=
  match w with [] => None | (d', a) :: r => if N.eqb d d' then Some a else lookup_won d r end.

Definition sx_contested (won : list (N * action)) (gp : list action) : list N :=
  filter (fun d => match lookup_won d won with
                   | Some w => negb (forallb (fun b => strict_prefix (apath w) (apath b)) (G d gp))
                   | None => match winner gp d with None => true | Some _ => false end
                   end) (discs gp).
Definition sx_runnable (won : list (N * action)) (gp : list action) (a : action) : bool :=
  match D a with
  | None => true
  | Some d => match lookup_won d won with
              | Some _ => false
              | None => match winner gp d with Some w => N.eqb (aid w) (aid a) | None => false end
              end
  end.
Definition force_phase (p : Z) (l : list action) : list action :=
  map (fun a => if Z.eqb (ordkey a) p then force a else a) l.
Fixpoint remove_first_aid (id : N) (l : list action) : list action :=
  match l with [] => [] | b :: r => if N.eqb (aid b) id then r else b :: remove_first_aid id r end.

Fixpoint spec_exec_from (fuel : nat) (pool : list action) (won : list (N * action)) (cur : option Z) (log : list event)
  : spec_outcome * list event :=
  match fuel with
  | O => (SFuel, log)
  | S f =>
      match min_phase pool with
      | None => (SDone, log)
      | Some p =>
          if (match cur with Some c => Z.ltb p c | None => false end)
          then (SLate p (match cur with Some c => c | None => 0%Z end), log)
          else
            let gp := at_phase p pool in
            let log1 := log ++ forces_of gp in
            let pool1 := force_phase p pool in
            match sx_contested won gp with
            | (_ :: _) as K => (SConflict K, log1)
            | [] =>
                let keep a := negb (Z.eqb (ordkey a) p) || sx_runnable won gp a in
                let pool2 := filter keep pool1 in
                match find (fun a => Z.eqb (ordkey a) p) pool2 with
                | None => spec_exec_from f pool2 won cur log1
                | Some a =>
                    spec_exec_from f (remove_first_aid (aid a) pool2 ++ aadds a)
                                   (match D a with Some d => (d, a) :: won | None => won end)
                                   (aord a) (log1 ++ [Run (aid a)])
                end
            end
      end
  end.
Definition spec_exec (acts : list action) : spec_outcome * list event :=
  spec_exec_from (S (S (2 * forest_size acts))) acts [] None [].

(* well-formedness the theorems assume *)
Fixpoint all_aids (a : action) : list N :=
  match a with mkA i _ _ _ adds => i :: (fix go (l : list action) : list N := match l with [] => [] | x :: r => all_aids x ++ go r end) adds end.
Definition forest_aids (l : list action) : list N := flat_map all_aids l.
Fixpoint nodupN (l : list N) : bool := match l with [] => true | x :: r => negb (memN x r) && nodupN r end.
Fixpoint all_int_orders (a : action) : bool :=
  match a with mkA _ _ _ o adds =>
    (match o with Some _ => true | None => false end) &&
    (fix go (l : list action) : bool := match l with [] => true | x :: r => all_int_orders x && go r end) adds end.
Definition flat (l : list action) : bool := forallb (fun a => match aadds a with [] => true | _ => false end) l.
Definition wf_ids (l : list action) : bool := nodupN (forest_aids l).
Definition wf_orders (l : list action) : bool := forallb all_int_orders l.

Definition obs_outcome (o : outcome) : spec_outcome :=
  match o with
  | Done => SDone | Conflict K => SConflict (map fst K) | Late a b => SLate a b | Crash => SFuel | OutOfFuel => SFuel
  end.

(* ------------------------------------------------------------------ wire glue *)
Definition get_disc (v : val) : option disc :=
  match v with
  | VL [VI k; VL []] => Some (if Z.eqb k 0 then Eager None else Defer None)
  | VL [VI k; VL [VI d]] => Some (if Z.eqb k 0 then Eager (Some (Z.to_N d)) else Defer (Some (Z.to_N d)))
  | _ => None
  end.
Definition get_ord (v : val) : option (option Z) :=
  match v with VL [] => Some None | VL [VI z] => Some (Some z) | _ => None end.

(* action on the wire: [aid; disc; node; order; [adds...]] *)
Fixpoint get_action (paths : list path) (v : val) {struct v} : option action :=
  match v with
  | VL [VI i; d; VI node; o; VL adds] =>
      match get_disc d, get_ord o,
            (fix go (l : list val) : option (list action) :=
               match l with
               | [] => Some []
               | x :: r => match get_action paths x, go r with Some a, Some rs => Some (a :: rs) | _, _ => None end
               end) adds with
      | Some d', Some o', Some adds' => Some (declare (nth (Z.to_nat node) paths []) (Z.to_N i) d' o' adds')
      | _, _, _ => None
      end
  | _ => None
  end.

(* include tree on the wire: node 0 is the root configurator; entry k (k>=1) = [parent; spec] *)
Fixpoint node_paths (cp : path -> text -> path) (nodes : list val) (acc : list path) : option (list path) :=
  match nodes with
  | [] => Some acc
  | VL [VI par; VT spec] :: r => node_paths cp r (acc ++ [cp (nth (Z.to_nat par) acc []) spec])
  | _ => None
  end.
(* what the property means by "include chain": the including chain followed by the included spec *)
Definition spec_child_path (parent : path) (spec : text) : path := parent ++ [spec].

Definition put_event (e : event) : val := match e with Run a => VL [VI 0; vN a] | Force a => VL [VI 1; vN a] end.
Definition put_outcome (o : outcome) : val :=
  match o with
  | Done => VL [VI 0]
  | Conflict K => VL [VI 1; VL (map (fun dl => VL [vN (fst dl); VL (map vN (snd dl))]) K)]
  | Late a b => VL [VI 2; VI a; VI b]
  | Crash => VL [VI 3]
  | OutOfFuel => VL [VI 4]
  end.
Definition put_spec_outcome (o : spec_outcome) : val :=
  match o with
  | SDone => VL [VI 0]
  | SConflict K => VL [VI 1; VL (map vN K)]
  | SLate a b => VL [VI 2; VI a; VI b]
  | SFuel => VL [VI 4]
  end.
Definition put_aids (l : list action) : val := VL (map (fun a => vN (aid a)) l).

(* case = [mode; nodes; actions]   mode 1: declared through Configurator.include (the model computes
   the include chains with [child_path]); mode 0: chains handed to ActionState.action as given.
   The specification always reads the chains as the property does ([spec_child_path]).
   answer = [ [outcome; log] of commit;  [outcome; log] of commit_spec;  [outcome; log] of spec_exec;
              [wf_ids; wf_orders; flat];
              resolve on a fresh state: [outcome; yielded aids; remaining aids; min_order; start] ] *)
(* one commit on the wire: [ [outcome; log] of commit; of commit_spec; of spec_exec; [wf_ids; wf_orders; flat] ] *)
Definition round_out (mpaths spaths : list path) (wacts : list val) : option (list val) :=
  olet acts := map_opt (get_action mpaths) wacts in
  olet sacts := map_opt (get_action spaths) wacts in
  let '(o, lg) := commit acts in
  let '(so, slg) := commit_spec sacts in
  let '(xo, xlg) := spec_exec sacts in
  Some [VL [put_outcome o; VL (map put_event lg)];
        VL [put_spec_outcome so; VL (map put_event slg)];
        VL [put_spec_outcome xo; VL (map put_event xlg)];
        VL [vbool (wf_ids acts); vbool (wf_orders acts); vbool (flat acts)]].

(* several commits on ONE action state / configurator, one after the other: execute_actions creates its resolver
   state afresh, so every commit is the commit of its own actions *)
Definition commit_history (cfg : params) (rounds : list (list action)) : list (outcome * list event) :=
  map (commit_with cfg) rounds.

Definition run_C04 (v : val) : val :=
  ret_or_bad (
    match v with
    | VL (VI mode :: VL nodes :: VL wacts :: more) =>
        olet mpaths := node_paths (if Z.eqb mode 1 then child_path else spec_child_path) nodes [[]] in
        olet spaths := node_paths spec_child_path nodes [[]] in
        olet main := round_out mpaths spaths wacts in
        olet sacts := map_opt (get_action spaths) wacts in
        let '(ro, ry, _, rst) := resolve cfg_current cstate0 sacts in
        olet later := match more with
                      | [] => Some []
                      | [VL rounds] => map_opt (fun r => match r with
                                                         | VL w => match round_out mpaths spaths w with Some l => Some (VL l) | None => None end
                                                         | _ => None end) rounds
                      | _ => None
                      end in
        Some (VL (main ++ [VL [put_outcome ro; put_aids ry; put_aids (remaining rst);
                               vopt VI (min_order rst); vN (start rst)];
                           VL later]))
    | _ => None
    end).
