(* C14 base -- types, primitives and the hand-written reference model (everything that does not depend on the
   regenerated Gen/Facts_C14.v, which imports this file).
   C14 -- an exception raised in request handling is rendered by the most specific exception view.
   Executable definitions only.  Sources followed (pinned in harness/c14/pins.json):
     pyramid/tweens.py        excview_tween_factory.excview_tween, _error_handler
     pyramid/view.py          ViewMethodsMixin.invoke_exception_view   (_find_views/_call_view: Model/C03.v)
     pyramid/util.py          hide_attrs
     pyramid/config/views.py  add_view.register (normal / exception registration split), add_exception_view,
                              add_notfound_view, add_forbidden_view, isexception   (register_view/MultiView: Model/C03.v)
     pyramid/config/__init__.py  Configurator.setup_registry (default exception-response views)
     pyramid/httpexceptions.py   default_exceptionresponse_view
     pyramid/router.py        Router.handle_request (outcome of the ordinary lookup), Router.invoke_request
   The registration record, MultiView, find_views and call_view are those of Model/C03.v (imported, classifier 1).
   Oracle inputs (computed with zope.interface / isinstance by the harness): providedBy(exc).__sro__ of every
   exception object, request_iface.__sro__, request_iface.combined.__sro__, isinstance tables, status codes. *)
From Coq Require Import List NArith ZArith Bool.
Import ListNotations.
Require Import Verif.Lib.Wire Verif.Gen.Facts_C03 Verif.Model.C03.

(* ------------------------------------------------------------------ *)
(* request attribute map: request.__dict__ restricted to opaque values *)

Definition amap := list (text * N).
Definition aget (k : text) (m : amap) : option N := assoc k m.
Fixpoint aset (k : text) (v : N) (m : amap) : amap :=
  match m with
  | [] => [(k, v)]
  | (k', v') :: r => if text_eqb k k' then (k, v) :: r else (k', v') :: aset k v r
  end.
Fixpoint adel (k : text) (m : amap) : amap :=
  match m with
  | [] => []
  | (k', v') :: r => if text_eqb k k' then adel k r else (k', v') :: adel k r
  end.

(* saved_vals: a dict name -> popped value or _marker (None) *)
Definition saved := list (text * option N).
Fixpoint sset (k : text) (v : option N) (s : saved) : saved :=
  match s with
  | [] => [(k, v)]
  | (k', v') :: r => if text_eqb k k' then (k, v) :: r else (k', v') :: sset k v r
  end.

(* for name in attrs: saved_vals[name] = obj_vals.pop(name, _marker) *)
Fixpoint hide_pop (names : list text) (m : amap) (s : saved) : amap * saved :=
  match names with
  | [] => (m, s)
  | n :: r => hide_pop r (adel n m) (sset n (aget n m) s)
  end.

(* finally: for name in attrs: restore the saved value, or delete what the body left *)
Fixpoint hide_restore (names : list text) (s : saved) (m : amap) : amap :=
  match names with
  | [] => m
  | n :: r =>
      hide_restore r s (match assoc n s with
                        | Some (Some v) => aset n v m
                        | _ => adel n m
                        end)
  end.

(* with hide_attrs(obj, *names): body   -- the body may return or raise; the finally clause runs either way *)
Definition hide_attrs {A} (names : list text) (body : amap -> A * amap) (m : amap) : A * amap :=
  let '(m1, s) := hide_pop names m [] in
  let '(a, m2) := body m1 in
  (a, hide_restore names s m2).

(* ------------------------------------------------------------------ *)
(* exception objects, view bodies, outcomes, the observable trace *)

Record exc := mkExc {
  x_id : N;
  x_sro : list N;          (* (oracle) providedBy(object).__sro__ *)
  x_isa : list text;       (* (oracle) names of the classes in the harness table the object is an instance of *)
  x_status : N             (* status code when the object is a response, 0 otherwise *)
}.
Fixpoint find_exc (tbl : list exc) (id : N) : exc :=
  match tbl with
  | [] => mkExc id [] [] 0
  | x :: r => if N.eqb (x_id x) id then x else find_exc r id
  end.

Inductive action :=
| ARet                    (* returns a new response *)
| ARetCtx                 (* default_exceptionresponse_view: returns its context *)
| ARaise (e : N).         (* raises the exception object e *)
Record body := mkBody { b_touch : bool; b_act : action; b_perm : bool }.
Definition no_body : body := mkBody false ARet false.
Fixpoint body_of (tbl : list (N * body)) (tag : N) : body :=
  match tbl with [] => no_body | (t, b) :: r => if N.eqb t tag then b else body_of r tag end.

Inductive resp := RView (tag : N) | RExc (e : N).
Inductive outcome := Resp (r : resp) | Raise (e : N).

Definition snapshot := list (option N).
Inductive event :=
| EBody (tag ctx : N) (s : snapshot)                              (* a view body ran and saw ... *)
| EIev (e : N) (before : snapshot) (o : outcome) (after : snapshot)  (* request.invoke_exception_view() called by a tween *)
| EProbe (o : outcome) (s : snapshot)                             (* what reaches the excview tween from below *)
| EFinal (o : outcome) (s : snapshot) (fin : option N)            (* what leaves it; request.exception in a finished callback *)
| ECtlW (ix : N) (v : option N).                                  (* the request invoke_exception_view was CALLED ON (when another
                                                                     one is passed as request=) had attribute ix written / deleted *)

Record state := mkSt { st_attrs : amap; st_log : list event }.

(* public attribute names (the harness observes these three, in this order) *)
Definition hn_response : text := [114; 101; 115; 112; 111; 110; 115; 101]%N.
Definition hn_exc_info : text := [101; 120; 99; 95; 105; 110; 102; 111]%N.
Definition hn_exception : text := [101; 120; 99; 101; 112; 116; 105; 111; 110]%N.
Definition snap_names : list text := [hn_response; hn_exc_info; hn_exception].
Definition snap (m : amap) : snapshot := map (fun n => aget n m) snap_names.

(* identities of objects created by the framework / harness *)
Definition id_h_nf : N := 1000%N.        (* HTTPNotFound raised by Router.handle_request *)
Definition id_h_pme : N := 1001%N.       (* PredicateMismatch re-raised by the ordinary _call_view *)
Definition id_h_forb : N := 1002%N.      (* HTTPForbidden raised by a secured ordinary view *)
Definition fresh_nf (site : N) : N := (1010 + 10 * site)%N.    (* raise HTTPNotFound in invoke_exception_view *)
Definition fresh_pme (site : N) : N := (1011 + 10 * site)%N.   (* PredicateMismatch of the exception-view lookup *)
Definition fresh_ve (site : N) : N := (1012 + 10 * site)%N.    (* ValueError: view result is not a response *)
Definition fresh_forb (site : N) : N := (1013 + 10 * site)%N.  (* HTTPForbidden of a secured exception view *)
Definition fresh_unknown (site : N) : N := (1019 + 10 * site)%N.
Definition site_under : N := 0%N.   Definition site_tween : N := 1%N.   Definition site_main : N := 2%N.
Definition ctx_resource : N := 3000%N.
Definition resp_obj (tag : N) : N := (2000 + tag)%N.
Definition exc_classifier_id : N := 1%N.

Definition cn_HTTPNotFound : text := [72; 84; 84; 80; 78; 111; 116; 70; 111; 117; 110; 100]%N.
Definition cn_HTTPForbidden : text := [72; 84; 84; 80; 70; 111; 114; 98; 105; 100; 100; 101; 110]%N.
Definition cn_Exception : text := [69; 120; 99; 101; 112; 116; 105; 111; 110]%N.
Definition cn_Interface : text := [73; 110; 116; 101; 114; 102; 97; 99; 101]%N.
Definition cn_IRequest : text := [73; 82; 101; 113; 117; 101; 115; 116]%N.
Definition cn_IExceptionResponse : text :=
  [73; 69; 120; 99; 101; 112; 116; 105; 111; 110; 82; 101; 115; 112; 111; 110; 115; 101]%N.
Definition cn_WebobWSGIHTTPException : text :=
  [87; 101; 98; 111; 98; 87; 83; 71; 73; 72; 84; 84; 80; 69; 120; 99; 101; 112; 116; 105; 111; 110]%N.

(* ------------------------------------------------------------------ *)
(* what the code says (regenerated facts) vs what the property says: one record, two values *)

Record params := mkP {
  p_hidden : list text;        (* hide_attrs(request, ...) *)
  p_set_in : list text;        (* attrs[...] = exc / exc_info inside the with-block *)
  p_set_after : list text;     (* ... after a response was produced *)
  p_combined : bool;           (* exception views are looked up with request_iface.combined *)
  p_view_name : text;
  p_none_raises : text;        (* invoke_exception_view: raise X when no response *)
  p_iev_catches : text;        (* except X: if reraise: reraise original *)
  p_handler_catches : text;    (* _error_handler: except X: reraise(original) *)
  p_handler_reraises : bool;
  p_tween_catches : text;      (* excview_tween: except X *)
  p_defaults : list text;      (* contexts of the default exception-response view *)
  p_nf : text * bool;          (* add_notfound_view: context, exception_only *)
  p_fb : text * bool;
  p_exc : text * bool;         (* add_exception_view: default context, exception_only *)
  p_default_view_ctx : bool;   (* default_exceptionresponse_view returns its context *)
  p_perm_checks : bool;        (* _call_view(secure=False) checks the predicates of a single secured view *)
  p_nf_fw : list text;         (* predicate arguments add_notfound_view forwards to add_view *)
  p_fb_fw : list text;         (* ... add_forbidden_view *)
  p_vd : list text             (* the directives decorated with @viewdefaults (class-level __view_defaults__ reach their body) *)
}.

(* the predicate parameters of add_notfound_view / add_forbidden_view (custom = custom_predicates): all forwarded *)
Definition directive_preds : list text :=
  [nm_request_method; nm_request_param; nm_containment; nm_xhr; nm_accept; nm_header; nm_path_info; nm_custom;
   nm_match_param].

Definition dn_add_view : text := [97; 100; 100; 95; 118; 105; 101; 119]%N.
Definition dn_add_exception_view : text :=
  [97; 100; 100; 95; 101; 120; 99; 101; 112; 116; 105; 111; 110; 95; 118; 105; 101; 119]%N.
Definition dn_add_notfound_view : text :=
  [97; 100; 100; 95; 110; 111; 116; 102; 111; 117; 110; 100; 95; 118; 105; 101; 119]%N.
Definition dn_add_forbidden_view : text :=
  [97; 100; 100; 95; 102; 111; 114; 98; 105; 100; 100; 101; 110; 95; 118; 105; 101; 119]%N.
Definition all_directives : list text := [dn_add_view; dn_add_exception_view; dn_add_notfound_view; dn_add_forbidden_view].

(* [b]: whether a permissive call honours predicates; the property's value is true *)
Definition spec_params_b (b : bool) : params :=
  mkP [hn_response; hn_exc_info; hn_exception] [hn_exception; hn_exc_info] [hn_exception; hn_exc_info]
      true [] cn_HTTPNotFound cn_Exception cn_HTTPNotFound true cn_Exception
      [cn_IExceptionResponse; cn_WebobWSGIHTTPException]
      (cn_HTTPNotFound, true) (cn_HTTPForbidden, true) (cn_Exception, true) true b directive_preds directive_preds
      all_directives.
Definition spec_params : params := spec_params_b true.

(* ------------------------------------------------------------------ *)
(* configuration: directives -> registrations *)

Inductive directive := DView | DExcView | DNotFound | DForbidden.

Record vdecl := mkDecl {
  d_dir : directive;
  d_ctx : option N;            (* context= as given *)
  d_xonly : bool;              (* exception_only= (add_view) *)
  d_isexc : bool;              (* (oracle) isexception(context as given) *)
  d_args : view_args;          (* C03: request iface, name, predicates, secured, tag; a_ctx is recomputed *)
  d_phase : N;
  d_body : body;
  d_defctx : option N;         (* context= of the view CLASS's __view_defaults__ (@view_defaults), when the view is a class *)
  d_defisexc : bool            (* (oracle) isexception of that context *)
}.

Definition named := list (text * N).                     (* class / interface name -> id *)
Definition named_id (nm : named) (k : text) : N := match assoc k nm with Some i => i | None => 0%N end.

(* effective (context, exception_only, isexc) of a directive *)
Definition dir_name (d : directive) : text :=
  match d with DView => dn_add_view | DExcView => dn_add_exception_view | DNotFound => dn_add_notfound_view
             | DForbidden => dn_add_forbidden_view end.

(* @viewdefaults: "defaults = view.__view_defaults__.copy(); defaults.update(kw)" -- an argument that is not passed
   takes the class-level default BEFORE the directive's own body runs.  add_exception_view then keeps it (only a
   missing context becomes Exception); add_notfound_view / add_forbidden_view reject a context argument
   (ConfigurationError, represented by (_, true, false): nothing is registered). Without the decorator the directive's
   body passes its own explicit context on to add_view, whose own defaults lose against explicit arguments. *)
Definition effective_ctx (P : params) (nm : named) (d : vdecl) : N * bool * bool :=
  let dflt := if mem_text (dir_name (d_dir d)) (p_vd P) then d_defctx d else None in
  match d_dir d with
  | DView =>
      match d_ctx d, dflt with
      | Some c, _ => (c, d_xonly d, d_isexc d)
      | None, Some c => (c, d_xonly d, d_defisexc d)
      | None, None => (named_id nm cn_Interface, d_xonly d, false)
      end
  | DExcView =>
      match d_ctx d, dflt with
      | Some c, _ => (c, snd (p_exc P), d_isexc d)
      | None, Some c => (c, snd (p_exc P), d_defisexc d)
      | None, None => (named_id nm (fst (p_exc P)), snd (p_exc P), true)
      end
  | DNotFound => match dflt with
                 | Some _ => (0%N, true, false)
                 | None => (named_id nm (fst (p_nf P)), snd (p_nf P), true) end
  | DForbidden => match dflt with
                  | Some _ => (0%N, true, false)
                  | None => (named_id nm (fst (p_fb P)), snd (p_fb P), true) end
  end.

(* the keyword arguments that reach add_view: the two directives name the arguments they pass on *)
Definition forwarded_kw (P : params) (d : directive) (kw : kwargs) : kwargs :=
  match d with
  (* a predicate that is one of the directive's NAMED parameters reaches add_view only if the directive hands it on;
     any other predicate travels in **view_options *)
  | DNotFound => filter (fun e => mem_text (fst e) (p_nf_fw P) || negb (mem_text (fst e) directive_preds)) kw
  | DForbidden => filter (fun e => mem_text (fst e) (p_fb_fw P) || negb (mem_text (fst e) directive_preds)) kw
  | _ => kw
  end.
Definition forwarded_args (P : params) (d : directive) (a : view_args) : view_args :=
  mkArgs (a_req a) (a_ctx a) (a_name a) (forwarded_kw P d (a_kw a)) (a_accept a) (a_secured a) (a_tag a).

Definition with_ctx (a : view_args) (c : N) : view_args :=
  mkArgs (a_req a) c (a_name a) (a_kw a) (a_accept a) (a_secured a) (a_tag a).

Definition opt_list {A} (o : option A) : list A := match o with Some x => [x] | None => [] end.

(* add_view: ConfigurationError when exception_only and not an exception context; otherwise
   "if not exception_only: register under IViewClassifier; if isexc: register under IExceptionViewClassifier" *)
Definition regs_of_decl (P : params) (names : list text) (nm : named) (d : vdecl) : list reg :=
  let '(c, xonly, isexc) := effective_ctx P nm d in
  let a := with_ctx (forwarded_args P (d_dir d) (d_args d)) c in
  if xonly && negb isexc then []
  else (if xonly then [] else opt_list (reg_of_args names view_classifier a))
       ++ (if isexc then opt_list (reg_of_args names exc_classifier_id a) else []).

(* the harness passes ONE instrumented exceptionresponse_view to the Configurator: every default registration carries its tag *)
Definition default_tag (i : nat) : N := 900%N.

(* Configurator.setup_registry: self.add_view(exceptionresponse_view, context=X) for each X *)
Fixpoint default_decls (nm : named) (ctxs : list text) (i : nat) : list vdecl :=
  match ctxs with
  | [] => []
  | c :: r =>
      mkDecl DView (Some (named_id nm c)) false true
             (mkArgs (named_id nm cn_IRequest) 0 [] [] None false (default_tag i)) 0 (mkBody false ARetCtx false) None false
      :: default_decls nm r (S i)
  end.

Definition all_decls (P : params) (nm : named) (user : list vdecl) : list vdecl :=
  default_decls nm (p_defaults P) 0 ++ user.

Definition decls_upto (ph : N) (l : list vdecl) : list vdecl := filter (fun d => N.leb (d_phase d) ph) l.

Definition regs_upto (P : params) (names : list text) (nm : named) (user : list vdecl) (ph : N) : list reg :=
  flat_map (regs_of_decl P names nm) (decls_upto ph (all_decls P nm user)).

Definition bodies_of (P : params) (nm : named) (user : list vdecl) : list (N * body) :=
  map (fun d => (a_tag (d_args d), d_body d)) (all_decls P nm user).

(* ------------------------------------------------------------------ *)
(* one request *)

Inductive under_prog :=
| UPass                                   (* return handler(request) *)
| URaise (e : N)                          (* raise e without calling the handler *)
| URetry                                  (* try: handler(request) except BaseException: pass
                                             then request.path_info = <another, unrouted path>; return handler(request)
                                             -- the same request object dispatched twice *)
| UCatch (rr sec via : bool) (thn : option N). (* [via]: through another request object c: c.invoke_exception_view(request=request)
                                             try: r = handler(request)
                                             except Exception: r = request.invoke_exception_view(reraise=rr, secure=sec)
                                             then raise thn, or return r *)

Record rinfo := mkRI {
  ri_req : request;            (* C03: ordinary lookup *)
  ri_req2 : option request;    (* the ordinary lookup of the second dispatch (URetry) *)
  ri_comb_sro : list N;        (* (oracle) request_iface.combined.__sro__ *)
  ri_unrouted_sro : list N;    (* (oracle) IRequest.combined.__sro__: request_iface is set by the router, below the tweens *)
  ri_deny : bool;              (* the security policy refuses *)
  ri_root_raise : option N;    (* the root factory raises *)
  ri_under : under_prog;
  ri_preset : option N         (* request.exception / exc_info set by a tween above before the handler runs *)
}.

Record world := mkWorld {
  w_reg : registry; w_bodies : list (N * body); w_excs : list exc;
  w_cont_req : bool;      (* ContainmentPredicate consults getattr(request, 'context', context), not its context argument *)
  w_phys_req : bool       (* PhysicalPathPredicate consults request.context (the property's value: false -- it uses its argument) *)
}.

Definition isa (W : world) (cls : text) (e : N) : bool := mem_text cls (x_isa (find_exc (w_excs W) e)).
Definition status_of (W : world) (e : N) : N := x_status (find_exc (w_excs W) e).

Definition add_log (st : state) (ev : event) : state := mkSt (st_attrs st) (st_log st ++ [ev]).

(* default_exceptionresponse_view: "if not isinstance(context, Exception): context = request.exception or context" *)
Definition cn_truthy : text := [116; 114; 117; 116; 104; 121]%N.     (* (oracle) bool(object) *)
Definition ctx_returned (W : world) (ctx : N) (a : amap) : N :=
  if isa W cn_Exception ctx then ctx
  else match aget hn_exception a with Some p => if isa W cn_truthy p then p else ctx | None => ctx end.

(* a (derived) view callable runs: secured_view (skipped through __call_permissive__ when not [sec]), then the body *)
Definition run_body (P : params) (W : world) (sec deny : bool) (site tag ctx : N) (a : amap)
    : outcome * list event * amap :=
  let b := body_of (w_bodies W) tag in
  if sec && b_perm b && deny then (Raise (if N.eqb site site_main then id_h_forb else fresh_forb site), [], a)
  else
    let ev := EBody tag ctx (snap a) in
    let a1 := if b_touch b then aset hn_response (resp_obj tag) a else a in
    match b_act b with
    | ARet => (Resp (RView tag), [ev], a1)
    | ARetCtx =>
        let c := ctx_returned W ctx a in
        if p_default_view_ctx P && negb (N.eqb (status_of W c) 0) then (Resp (RExc c), [ev], a1)
        else (Raise (fresh_ve site), [ev], a1)
    | ARaise e => (Raise e, [ev], a1)
    end.

(* _call_view(secure=False): "view_callable = getattr(view_callable, '__call_permissive__', view_callable)".
   A secured single view carries the __call_permissive__ of its innermost secured_view wrapper (copied outwards by
   preserve_view_attrs, also over predicated_view): its body runs WITHOUT the predicate check.  A MultiView's
   __call_permissive__ matches by predicates first.  An unsecured view has no such attribute. *)
Definition call_component_p (P : params) (rq : request) (c : component) : option N :=
  match c with
  | CView v => if r_secured v && negb (p_perm_checks P) then Some (r_tag v) else call_reg rq v
  | CMulti m => mv_call rq (get_views m rq)
  end.
Fixpoint call_loop_p (P : params) (rq : request) (l : list component) (pme : bool) : result :=
  match l with
  | [] => if pme then NotFoundPme else NotFoundNone
  | c :: r => match call_component_p P rq c with Some t => Ran t | None => call_loop_p P rq r true end
  end.
Definition call_view_sec (P : params) (R : registry) (sec : bool) (cls : N) (rq : request) : result :=
  if sec then call_view R cls rq
  else call_loop_p P rq (find_views R cls (q_req_sro rq) (q_ctx_sro rq) (q_view_name rq)) false.

(* the request as seen by the exception-view lookup: context = the exception object *)
Definition traversed (ri : rinfo) : bool :=
  match ri_root_raise ri, ri_under ri with
  | Some _, _ => false              (* the root factory raised: no request.context *)
  | None, URaise _ => false         (* raised above the router *)
  | None, _ => true
  end.
Definition exc_request_raw (own combined : bool) (vname : text) (W : world) (ri : rinfo) (e : N) : request :=
  let q := ri_req ri in
  mkReq (q_method q) (q_params q) (q_headers q) (q_xhr q)
        (match ri_under ri with URaise _ => None | _ => q_matchdict q end)   (* no route matched yet: matchdict is None;
                                                                                after a second dispatch without a route the
                                                                                matchdict of the first one is still there *)
        (q_auth q) (q_upath q)
        (* the predicates of an exception view are called with the EXCEPTION as context (no lineage, no __name__);
           request.context is the traversed resource, when traversal happened *)
        (if w_cont_req W && traversed ri then q_lineage q else [])
        (if w_phys_req W && traversed ri then q_has_name q else false)
        (q_regex q) (q_accept_q q) (q_truth q)
        (match ri_under ri with
         | URaise _ => ri_unrouted_sro ri        (* raised above the router: no route has been matched *)
         | URetry => ri_unrouted_sro ri          (* handle_request resets request_iface; the second dispatch matched no route *)
         | _ => if own then (if combined then ri_comb_sro ri else q_req_sro q)
                else ri_unrouted_sro ri          (* request_iface read from another, unrouted request object *)
         end)
        (x_sro (find_exc (w_excs W) e))
        vname.
Definition exc_request (P : params) (W : world) (ri : rinfo) (e : N) : request :=
  exc_request_raw true (p_combined P) (p_view_name P) W ri e.


Definition fresh_of_class (cls : text) (site : N) : N :=
  if text_eqb cls cn_HTTPNotFound then fresh_nf site else fresh_unknown site.

Definition set_all (names : list text) (v : N) (a : amap) : amap := fold_left (fun a n => aset n v a) names a.

(* ViewMethodsMixin.invoke_exception_view(exc_info, reraise=rr, secure=sec) for the exception object e.
   The value of exc_info is represented by the object it carries (exc_info[1]). *)
Definition iev (P : params) (W : world) (ri : rinfo) (site : N) (rr sec : bool) (e : N) (st : state)
    : outcome * state :=
  let '((res, evs), attrs') :=
    hide_attrs (p_hidden P)
      (fun a =>
         let a := set_all (p_set_in P) e a in
         match call_view_sec P (w_reg W) sec exc_classifier_id (exc_request P W ri e) with
         | Ran tag =>
             let '(o, evs, a2) := run_body P W sec (ri_deny ri) site tag e a in
             ((Some o, evs), a2)
         | NotFoundPme => ((Some (Raise (fresh_pme site)), []), a)
         | NotFoundNone => ((None, []), a)
         end)
      (st_attrs st) in
  let log := st_log st ++ evs in
  match res with
  | Some (Raise e2) =>
      (* except Exception: if reraise: reraise_ original; raise *)
      (Raise (if rr && isa W (p_iev_catches P) e2 then e else e2), mkSt attrs' log)
  | None =>
      (* if response is None: if reraise: reraise_ original; raise HTTPNotFound *)
      (Raise (if rr then e else fresh_of_class (p_none_raises P) site), mkSt attrs' log)
  | Some (Resp r) =>
      (Resp r, mkSt (set_all (p_set_after P) e attrs') log)
  end.

(* Router.handle_request: root factory, traversal (oracle), ordinary view lookup and call *)
Definition req_of (ri : rinfo) (second : bool) : request :=
  if second then match ri_req2 ri with Some r => r | None => ri_req ri end else ri_req ri.

Definition main_handler (P : params) (W : world) (ri : rinfo) (second : bool) (st : state) : outcome * state :=
  match ri_root_raise ri with
  | Some e => (Raise e, st)
  | None =>
      match call_view (w_reg W) view_classifier (req_of ri second) with
      | Ran tag =>
          let '(o, evs, a) := run_body P W true (ri_deny ri) site_main tag ctx_resource (st_attrs st) in
          (o, mkSt a (st_log st ++ evs))
      | NotFoundPme => (Raise id_h_pme, st)
      | NotFoundNone => (Raise id_h_nf, st)
      end
  end.

(* the harness tween under the excview tween *)
Definition under_tween (P : params) (W : world) (ri : rinfo) (st : state) : outcome * state :=
  match ri_under ri with
  | UPass => main_handler P W ri false st
  | URetry => let '(_, st1) := main_handler P W ri false st in main_handler P W ri true st1
  | URaise e => (Raise e, st)
  | UCatch rr sec via thn =>
      let '(o, st1) := main_handler P W ri false st in
      let '(o2, st2) :=
        match o with
        | Raise e =>
            if isa W cn_Exception e then
              let '(o2, st2) := iev P W ri site_under rr sec e st1 in
              (o2, add_log st2 (EIev e (snap (st_attrs st1)) o2 (snap (st_attrs st2))))
            else (o, st1)
        | Resp _ => (o, st1)
        end in
      match o2, thn with
      | Resp _, Some e2 => (Raise e2, st2)
      | _, _ => (o2, st2)
      end
  end.

(* excview_tween + _error_handler, given what the handler below produced *)
Definition excview_tween (P : params) (W : world) (ri : rinfo) (o : outcome) (st : state) : outcome * state :=
  match o with
  | Resp r => (Resp r, st)
  | Raise e =>
      if isa W (p_tween_catches P) e then
        match iev P W ri site_tween false true e st with
        | (Resp r, st') => (Resp r, st')
        | (Raise e2, st') =>
            if isa W (p_handler_catches P) e2
            then (Raise (if p_handler_reraises P then e else e2), st')
            else (Raise e2, st')
        end
      else (Raise e, st)
  end.

Definition init_attrs (ri : rinfo) : amap :=
  match ri_preset ri with
  | Some p => aset hn_exc_info p (aset hn_exception p [])
  | None => []
  end.

Definition run_request (P : params) (W : world) (ri : rinfo) : list event :=
  let st0 := mkSt (init_attrs ri) [] in
  let '(o1, st1) := under_tween P W ri st0 in
  let st1 := add_log st1 (EProbe o1 (snap (st_attrs st1))) in
  let '(o2, st2) := excview_tween P W ri o1 st1 in
  st_log st2 ++ [EFinal o2 (snap (st_attrs st2)) (aget hn_exception (st_attrs st2))].

(* ------------------------------------------------------------------ *)
(* the same pipeline with view bodies that may raise PredicateMismatch: for _call_view and MultiView.__call__ such
   a body is a predicate mismatch -- the search goes on after the body ran (its events and attribute changes
   stay).  [comps_loop] follows _call_view over the components found by _find_views:
   - a single view (secure: derived view = predicates, secured_view, body; not secure: __call_permissive__, with
     the predicate check of the repaired text) -- its own PredicateMismatch object becomes [pme];
   - a MultiView: secure -> __call__ (every view in turn, PredicateMismatch swallowed, a NEW PredicateMismatch at
     the end); not secure -> __call_permissive__ (match by predicates, then the one body; its PredicateMismatch
     leaves the MultiView);
   - "if pme is not None: raise pme" re-raises the LAST one.
   Proofs/C14_d.v: when no body outcome is a PredicateMismatch this is the pipeline above. *)
Definition cn_PredicateMismatch : text :=
  [80; 114; 101; 100; 105; 99; 97; 116; 101; 77; 105; 115; 109; 97; 116; 99; 104]%N.
Definition is_pm (W : world) (o : outcome) : option N :=
  match o with Raise e => if isa W cn_PredicateMismatch e then Some e else None | _ => None end.

Fixpoint views_loop (P : params) (W : world) (deny : bool) (site ctx : N) (rq : request) (l : list reg)
    (a : amap) (evs : list event) : option outcome * list event * amap :=
  match l with
  | [] => (None, evs, a)
  | v :: r =>
      if qualifies rq v then
        let '(o, ev, a') := run_body P W true deny site (r_tag v) ctx a in
        match is_pm W o with
        | Some _ => views_loop P W deny site ctx rq r a' (evs ++ ev)
        | None => (Some o, evs ++ ev, a')
        end
      else views_loop P W deny site ctx rq r a evs
  end.

Fixpoint comps_loop (P : params) (W : world) (sec deny : bool) (site ctx fpme : N) (rq : request)
    (l : list component) (pme : option N) (a : amap) (evs : list event) : option outcome * list event * amap :=
  match l with
  | [] => (match pme with Some p => Some (Raise p) | None => None end, evs, a)
  | CView v :: r =>
      if qualifies rq v || (negb sec && r_secured v && negb (p_perm_checks P)) then
        let '(o, ev, a') := run_body P W sec deny site (r_tag v) ctx a in
        match is_pm W o with
        | Some p => comps_loop P W sec deny site ctx fpme rq r (Some p) a' (evs ++ ev)
        | None => (Some o, evs ++ ev, a')
        end
      else comps_loop P W sec deny site ctx fpme rq r (Some fpme) a evs
  | CMulti m :: r =>
      if sec then
        match views_loop P W deny site ctx rq (map e_view (get_views m rq)) a evs with
        | (Some o, evs', a') => (Some o, evs', a')
        | (None, evs', a') => comps_loop P W sec deny site ctx fpme rq r (Some fpme) a' evs'
        end
      else
        match find (qualifies rq) (map e_view (get_views m rq)) with
        | None => comps_loop P W sec deny site ctx fpme rq r (Some fpme) a evs
        | Some v =>
            let '(o, ev, a') := run_body P W sec deny site (r_tag v) ctx a in
            match is_pm W o with
            | Some p => comps_loop P W sec deny site ctx fpme rq r (Some p) a' (evs ++ ev)
            | None => (Some o, evs ++ ev, a')
            end
        end
  end.

Definition iev_pm (P : params) (W : world) (ri : rinfo) (site : N) (rr sec : bool) (e : N) (st : state)
    : outcome * state :=
  let '((res, evs), attrs') :=
    hide_attrs (p_hidden P)
      (fun a =>
         let a := set_all (p_set_in P) e a in
         let rq := exc_request P W ri e in
         let '(res, evs, a2) :=
           comps_loop P W sec (ri_deny ri) site e (fresh_pme site) rq
             (find_views (w_reg W) exc_classifier_id (q_req_sro rq) (q_ctx_sro rq) (q_view_name rq)) None a [] in
         ((res, evs), a2))
      (st_attrs st) in
  let log := st_log st ++ evs in
  match res with
  | Some (Raise e2) => (Raise (if rr && isa W (p_iev_catches P) e2 then e else e2), mkSt attrs' log)
  | None => (Raise (if rr then e else fresh_of_class (p_none_raises P) site), mkSt attrs' log)
  | Some (Resp r) => (Resp r, mkSt (set_all (p_set_after P) e attrs') log)
  end.

Definition main_handler_pm (P : params) (W : world) (ri : rinfo) (second : bool) (st : state) : outcome * state :=
  match ri_root_raise ri with
  | Some e => (Raise e, st)
  | None =>
      let rq := req_of ri second in
      let '(res, evs, a) :=
        comps_loop P W true (ri_deny ri) site_main ctx_resource id_h_pme rq
          (find_views (w_reg W) view_classifier (q_req_sro rq) (q_ctx_sro rq) (q_view_name rq)) None (st_attrs st) [] in
      (match res with Some o => o | None => Raise id_h_nf end, mkSt a (st_log st ++ evs))
  end.

(* the three tweens, generic in the two functions above *)
Definition under_tween_g (W : world) (ri : rinfo) (mh : bool -> state -> outcome * state)
    (ievf : bool -> N -> bool -> bool -> N -> state -> outcome * state) (st : state) : outcome * state :=
  match ri_under ri with
  | UPass => mh false st
  | URaise e => (Raise e, st)
  | URetry => let '(_, st1) := mh false st in mh true st1
  | UCatch rr sec via thn =>
      let '(o, st1) := mh false st in
      let '(o2, st2) :=
        match o with
        | Raise e =>
            if isa W cn_Exception e then
              let '(o2, st2) := ievf via site_under rr sec e st1 in
              (o2, add_log st2 (EIev e (snap (st_attrs st1)) o2 (snap (st_attrs st2))))
            else (o, st1)
        | Resp _ => (o, st1)
        end in
      match o2, thn with
      | Resp _, Some e2 => (Raise e2, st2)
      | _, _ => (o2, st2)
      end
  end.

Definition excview_tween_g (P : params) (W : world)
    (ievf : bool -> N -> bool -> bool -> N -> state -> outcome * state) (o : outcome) (st : state) : outcome * state :=
  match o with
  | Resp r => (Resp r, st)
  | Raise e =>
      if isa W (p_tween_catches P) e then
        match ievf false site_tween false true e st with
        | (Resp r, st') => (Resp r, st')
        | (Raise e2, st') =>
            if isa W (p_handler_catches P) e2
            then (Raise (if p_handler_reraises P then e else e2), st')
            else (Raise e2, st')
        end
      else (Raise e, st)
  end.

Definition run_request_g (P : params) (W : world) (ri : rinfo) (mh : bool -> state -> outcome * state)
    (ievf : bool -> N -> bool -> bool -> N -> state -> outcome * state) : list event :=
  let st0 := mkSt (init_attrs ri) [] in
  let '(o1, st1) := under_tween_g W ri mh ievf st0 in
  let st1 := add_log st1 (EProbe o1 (snap (st_attrs st1))) in
  let '(o2, st2) := excview_tween_g P W ievf o1 st1 in
  st_log st2 ++ [EFinal o2 (snap (st_attrs st2)) (aget hn_exception (st_attrs st2))].

Definition run_request_pm (P : params) (W : world) (ri : rinfo) : list event :=
  run_request_g P W ri (main_handler_pm P W ri) (fun _ => iev_pm P W ri).

(* ------------------------------------------------------------------ *)
(* primitives and reference functions in the form the REGENERATED definitions (Gen/Facts_C14.v, produced by
   harness/c14/translate.py from the source on every run) are written in: the request's __dict__ is the
   attribute map of the [state] that is threaded through, a completion is [wres] (normal with a value, or an
   exception object) *)
Inductive wres (A : Type) : Type := WNorm (a : A) | WExn (e : N).
Arguments WNorm {A} a.
Arguments WExn {A} e.
Inductive lres := LNone | LResp (r : resp) | LRaise (e : N).

Definition st_get (k : text) (st : state) : option N := aget k (st_attrs st).
Definition st_set (k : text) (v : N) (st : state) : state := mkSt (aset k v (st_attrs st)) (st_log st).
Definition st_del (k : text) (st : state) : state := mkSt (adel k (st_attrs st)) (st_log st).
Definition st_mem (k : text) (st : state) : bool := match st_get k st with Some _ => true | None => false end.
(* the attributes of the request invoke_exception_view was called on, when it is not the request being rendered:
   kept as write events in the log (the reference model never writes them) *)
Definition key_ix (k : text) : N :=
  if text_eqb k hn_response then 0%N else if text_eqb k hn_exc_info then 1%N else if text_eqb k hn_exception then 2%N
  else 9%N.
Fixpoint ctl_lookup (ix : N) (l : list event) (acc : option N) : option N :=
  match l with
  | [] => acc
  | ECtlW i v :: r => ctl_lookup ix r (if N.eqb i ix then v else acc)
  | _ :: r => ctl_lookup ix r acc
  end.
Definition ctl_get (k : text) (st : state) : option N := ctl_lookup (key_ix k) (st_log st) None.
Definition ctl_set (k : text) (v : N) (st : state) : state := add_log st (ECtlW (key_ix k) (Some v)).
Definition ctl_del (k : text) (st : state) : state := add_log st (ECtlW (key_ix k) None).
Definition ctl_mem (k : text) (st : state) : bool := match ctl_get k st with Some _ => true | None => false end.

Definition sget (k : text) (s : saved) : option N := match assoc k s with Some v => v | None => None end.

(* reference: with hide_attrs(request, *names): body *)
Definition hide_attrs_w {A} (names : list text) (body : state -> wres A * state) (st : state) : wres A * state :=
  let '(m1, s) := hide_pop names (st_attrs st) [] in
  let '(w, st2) := body (mkSt m1 (st_log st)) in
  (w, mkSt (hide_restore names s (st_attrs st2)) (st_log st2)).

(* reference: reraise(tp, value, tb) raises value, or a new tp() when value is None *)
Definition reraise_m (fresh : N) (value : option N) : N := match value with Some v => v | None => fresh end.

(* primitive: _call_view(registry, request, exc, providedBy(exc), name, view_classifier=IExceptionViewClassifier,
   secure=sec, request_iface=...) -- C03's lookup over the registry + the view bodies (comps_loop) *)
Definition prim_call_view (P : params) (W : world) (ri : rinfo) (site : N) (sec : bool) (ctx : N) (rq : request)
    (st : state) : lres * state :=
  let '(res, evs, a2) :=
    comps_loop P W sec (ri_deny ri) site ctx (fresh_pme site) rq
      (find_views (w_reg W) exc_classifier_id (q_req_sro rq) (q_ctx_sro rq) (q_view_name rq)) None (st_attrs st) [] in
  (match res with None => LNone | Some (Resp r) => LResp r | Some (Raise e) => LRaise e end,
   mkSt a2 (st_log st ++ evs)).

(* reference: isexception(o) over the oracle bits of the object given as context= *)
Record ctxbits := mkBits { cb_iface : bool;      (* IInterface.providedBy(o) *)
                           cb_ext : bool;        (* IException.isEqualOrExtendedBy(o) *)
                           cb_inst : bool;       (* isinstance(o, Exception) *)
                           cb_class : bool;      (* inspect.isclass(o) *)
                           cb_sub : bool }.      (* issubclass(o, Exception)   (asked only when cb_class) *)
Definition isexception_m (c : ctxbits) : bool :=
  (cb_iface c && cb_ext c) || cb_inst c || (cb_class c && cb_sub c).

(* the whole request with the three tween-level functions given *)
Definition run_request_x (W : world) (ri : rinfo) (mh : bool -> state -> outcome * state)
    (ievf : bool -> N -> bool -> bool -> N -> state -> outcome * state)
    (xtw : outcome -> state -> outcome * state) : list event :=
  let st0 := mkSt (init_attrs ri) [] in
  let '(o1, st1) := under_tween_g W ri mh ievf st0 in
  let st1 := add_log st1 (EProbe o1 (snap (st_attrs st1))) in
  let '(o2, st2) := xtw o1 st1 in
  st_log st2 ++ [EFinal o2 (snap (st_attrs st2)) (aget hn_exception (st_attrs st2))].

(* ------------------------------------------------------------------ *)
(* the property as an executable judge of an observed trace.
   [sregs]: the registrations the property speaks about (user directives + the default exception-response
   views), [W]: bodies and exception table, [ri]: the request. *)

Definition opt_N_eqb (a b : option N) : bool :=
  match a, b with Some x, Some y => N.eqb x y | None, None => true | _, _ => false end.
Fixpoint snap_eqb (a b : snapshot) : bool :=
  match a, b with
  | [], [] => true
  | x :: a', y :: b' => opt_N_eqb x y && snap_eqb a' b'
  | _, _ => false
  end.
Definition resp_eqb (a b : resp) : bool :=
  match a, b with RView x, RView y => N.eqb x y | RExc x, RExc y => N.eqb x y | _, _ => false end.
Definition outcome_eqb (a b : outcome) : bool :=
  match a, b with Resp x, Resp y => resp_eqb x y | Raise x, Raise y => N.eqb x y | _, _ => false end.

(* the snapshot the exception view must see: response hidden, exc_info and exception = the raised object *)
Definition seen_snapshot (e : N) : snapshot := [None; Some e; Some e].
(* the snapshot afterwards: response as before, exc_info and exception = the raised object *)
Definition after_snapshot (before : snapshot) (e : N) : snapshot :=
  [match before with r :: _ => r | [] => None end; Some e; Some e].

(* what one allowed winner [t] must have produced.
   [rr]: None = the excview tween; Some b = a direct invoke_exception_view(reraise=b) call; [sec]: secure=.
   [mid]: the view-body events of the rendering. *)
Definition judge_winner (W : world) (ri : rinfo) (rr : option bool) (sec : bool)
    (e : N) (before : snapshot) (mid : list event) (o : outcome) (after : snapshot) (t : N) : bool :=
  let b := body_of (w_bodies W) t in
  if sec && b_perm b && ri_deny ri then
    (* the policy refuses the secured exception view: its body does not run, the attributes are restored and the
       refusal (a framework-made HTTPForbidden) is what propagates -- it does not enter 403 handling *)
    match mid with [] => true | _ => false end
    && snap_eqb after before
    && match rr with
       | Some true => outcome_eqb o (Raise e)
       | _ => match o with Raise x => N.leb 1000 x && isa W cn_HTTPForbidden x | _ => false end
       end
  else
    match mid with
    | EBody t' c s :: rest =>
        let single := match rest with [] => true | _ => false end in
        N.eqb t' t && N.eqb c e && snap_eqb s (seen_snapshot e)
        && match b_act b with
           | ARet => single && outcome_eqb o (Resp (RView t)) && snap_eqb after (after_snapshot before e)
           | ARetCtx =>
               if N.eqb (status_of W e) 0 then true     (* not a response: the property is silent *)
               else single && outcome_eqb o (Resp (RExc e)) && snap_eqb after (after_snapshot before e)
           | ARaise v =>
               (* the view itself failed: its exception is the one that propagates and the attributes are
                  restored -- except an HTTPNotFound, which the code cannot tell from "no view applies" (a
                  PredicateMismatch even makes the search go on: further bodies may run) *)
               if isa W cn_HTTPNotFound v then true
               else single && snap_eqb after before
                    && match rr with
                       | Some true => outcome_eqb o (Raise (if isa W cn_Exception v then e else v))
                       | _ => outcome_eqb o (Raise v)
                       end
           end
    | _ => false
    end.

Definition judge_render (sregs : list reg) (W : world) (ri : rinfo) (rr : option bool) (sec : bool)
    (e : N) (before : snapshot) (mid : list event) (o : outcome) (after : snapshot) : bool :=
  let ws := spec_winners exc_classifier_id sregs (exc_request spec_params W ri e) in
  match ws with
  | [] =>
      (* no exception view applies: nothing ran, the attributes are as before, the same object propagates
         (a direct call without reraise raises a framework-made HTTPNotFound instead) *)
      match mid with [] => true | _ => false end
      && snap_eqb after before
      && match rr with
         | None | Some true => outcome_eqb o (Raise e)
         | Some false => match o with
                         | Raise x => N.leb 1000 x && isa W cn_HTTPNotFound x
                         | _ => false end
         end
  | _ => existsb (fun w => judge_winner W ri rr sec e before mid o after (r_tag w)) ws
  end.

Definition is_exc_body (ev : event) : bool :=
  match ev with EBody _ c _ => negb (N.eqb c ctx_resource) | _ => false end.

(* events before the probe: ordinary bodies, then (for a catching tween) exception-view bodies + EIev *)
Fixpoint judge_under (sregs : list reg) (W : world) (ri : rinfo) (rr sec : bool) (mid : list event) (l : list event)
    : bool :=
  match l with
  | [] => true
  | EIev e before o after :: r =>
      judge_render sregs W ri (Some rr) sec e before (rev mid) o after && judge_under sregs W ri rr sec [] r
  | ECtlW _ _ :: r => false     (* the request the method was called on is left alone *)
  | ev :: r => if is_exc_body ev then judge_under sregs W ri rr sec (ev :: mid) r else judge_under sregs W ri rr sec mid r
  end.

Fixpoint split_probe (l : list event) (acc : list event) : option (list event * outcome * snapshot * list event) :=
  match l with
  | [] => None
  | EProbe o s :: r => Some (rev acc, o, s, r)
  | ev :: r => split_probe r (ev :: acc)
  end.

Definition sec_of (u : under_prog) : bool := match u with UCatch _ sec _ _ => sec | _ => true end.
Definition rr_of (u : under_prog) : bool := match u with UCatch rr _ _ _ => rr | _ => false end.

(* [tolerant]: direct invoke_exception_view(secure=False) calls are not judged (known finding
   C14-permissive-skips-predicates) *)
Definition judge_gen (tolerant : bool) (sregs : list reg) (W : world) (ri : rinfo) (evs : list event) : bool :=
  match split_probe evs [] with
  | None => false
  | Some (pre, o1, s1, post) =>
      match rev post with
      | EFinal o2 s2 fin :: rmid =>
          let mid := rev rmid in
          ((tolerant && negb (sec_of (ri_under ri)))
           || judge_under sregs W ri (rr_of (ri_under ri)) (sec_of (ri_under ri)) [] pre)
          && opt_N_eqb fin (nth 2 s2 None)
          && match o1 with
             | Resp r => match mid with [] => true | _ => false end && outcome_eqb o2 o1 && snap_eqb s2 s1
             | Raise e =>
                 if isa W cn_Exception e then judge_render sregs W ri None true e s1 mid o2 s2
                 else match mid with [] => true | _ => false end && outcome_eqb o2 o1 && snap_eqb s2 s1
             end
      | _ => false
      end
  end.

Definition judge := judge_gen false.

(* ------------------------------------------------------------------ *)
(* THE RAISING SITE.  "When anything inside request handling raises an exception, the response is the one produced
   by the exception view ...": what an ordinary view body raised must be what REACHES exception handling -- nothing
   between the body and the excview tween (the candidate loop of _call_view, MultiView, the router, a subrequest's
   own tween stack) may swallow it or answer in its place.  [site_walk] reads the ordinary view-body events of ONE
   dispatch and the outcome [o] of that dispatch:
   - a body that raised a PredicateMismatch is (documented) a predicate mismatch: the search may go on;
   - a body that raised anything else is the LAST body of the dispatch and its object is the outcome;
   - a body that returned a response is the last one and its response is the outcome;
   - default_exceptionresponse_view as an ordinary view: silent. *)
Fixpoint site_walk (W : world) (l : list event) (o : outcome) : bool :=
  match l with
  | [] => true
  | EBody t _ _ :: r =>
      match b_act (body_of (w_bodies W) t) with
      | ARaise v =>
          if isa W cn_PredicateMismatch v then site_walk W r o
          else match r with [] => outcome_eqb o (Raise v) | _ => false end
      | ARet => match r with [] => outcome_eqb o (Resp (RView t)) | _ => false end
      | ARetCtx => true
      end
  | _ :: r => site_walk W r o
  end.

(* how the request was dispatched below the excview tween *)
Inductive site_mode :=
| SDirect                     (* one dispatch; its outcome is what reaches the excview tween *)
| SCatch (thn : option N)     (* one dispatch inside try/except Exception: invoke_exception_view; then raise thn *)
| SNoDispatch                 (* raised above the router: no view body may have run *)
| SSilent.                    (* dispatched twice / a subrequest explicitly sent through the tweens: not judged *)
Definition site_mode_of (u : under_prog) : site_mode :=
  match u with UPass => SDirect | URaise _ => SNoDispatch | URetry => SSilent | UCatch _ _ _ thn => SCatch thn end.

(* the ordinary view bodies before the first invoke_exception_view call, and the object that call rendered *)
Fixpoint ords_until_iev (l : list event) (acc : list event) : list event * option N :=
  match l with
  | [] => (rev acc, None)
  | EIev e _ _ _ :: _ => (rev acc, Some e)
  | EBody t c s :: r =>
      if N.eqb c ctx_resource then ords_until_iev r (EBody t c s :: acc) else ords_until_iev r acc
  | _ :: r => ords_until_iev r acc
  end.

Definition judge_site (W : world) (m : site_mode) (evs : list event) : bool :=
  match m with
  | SSilent => true
  | _ =>
      match split_probe evs [] with
      | None => false
      | Some (pre, o1, _, _) =>
          let '(ords, ie) := ords_until_iev pre [] in
          match m with
          | SSilent => true
          | SNoDispatch => match ords with [] => true | _ => false end
          | SDirect => site_walk W ords o1
          | SCatch thn =>
              match ie, thn with
              | Some e, _ => site_walk W ords (Raise e)
              | None, None => site_walk W ords o1
              | None, Some _ => true
              end
          end
      end
  end.

(* ------------------------------------------------------------------ *)
(* A SUBREQUEST: the tween under the excview tween does not call its handler but
       sub = <a fresh request for the same URL>;  return request.invoke_subrequest(sub [, use_tweens=ut])
   Router.invoke_subrequest(request, use_tweens=False): without the tweens the subrequest goes straight to the main
   handler (Router.handle_request) and what its view raises propagates into the caller -- here: up to the excview
   tween of the OUTER request, which renders it for the outer request (never routed itself: [ri_under] of the outer
   request is [URaise _], so request_iface / matchdict / context are those of an unrouted request).  With the tweens
   the subrequest runs through its own excview tween first (the harness tweens pass a subrequest through).
   The subrequest has its own attribute map (empty); its view bodies are observed on it. *)
Definition set_under (ri : rinfo) (u : under_prog) (pre : option N) : rinfo :=
  mkRI (ri_req ri) (ri_req2 ri) (ri_comb_sro ri) (ri_unrouted_sro ri) (ri_deny ri) (ri_root_raise ri) u pre.
Definition sub_ri (ri : rinfo) : rinfo := set_under ri UPass None.

Definition run_request_sub (W : world) (ri : rinfo) (tweens : bool)
    (mh_sub : bool -> state -> outcome * state)
    (xtw_sub xtw : outcome -> state -> outcome * state) : list event :=
  let '(o, s1) := mh_sub false (mkSt [] []) in
  let '(o', s2) := if tweens then xtw_sub o s1 else (o, s1) in
  let st1 := mkSt (init_attrs ri) (st_log s2) in
  let st1 := add_log st1 (EProbe o' (snap (st_attrs st1))) in
  let '(o2, st2) := xtw o' st1 in
  st_log st2 ++ [EFinal o2 (snap (st_attrs st2)) (aget hn_exception (st_attrs st2))].

(* reference: built from the hand-written functions *)
Definition run_request_sub_m (P : params) (W : world) (ri : rinfo) (tweens : bool) : list event :=
  run_request_sub W ri tweens (main_handler_pm P W (sub_ri ri))
    (excview_tween_g P W (fun _ => iev_pm P W (sub_ri ri)))
    (excview_tween_g P W (fun _ => iev_pm P W ri)).

(* use_tweens as given, or the default of the signature ([dflt]: regenerated fact; the documented value is false) *)
Definition sub_tweens (dflt : bool) (ut : option bool) : bool := match ut with Some b => b | None => dflt end.
(* the property's reading of the scenario: without use_tweens=True the subrequest is ONE plain dispatch *)
Definition site_mode_sub (ut : option bool) : site_mode :=
  match ut with Some true => SSilent | _ => SDirect end.

(* ------------------------------------------------------------------ *)
(* executable form of the premises of the lookup theorem (C03's key_order / key_faithful: registrations with the
   same slot and phash -- overrides -- have the same order and the same predicate texts; no phash collision),
   evaluated on every generated world so that the evidence says how often the theorem applies *)
Definition same_key (a b : reg) : bool := slot_eqb (r_slot a) (r_slot b) && text_eqb (r_phash a) (r_phash b).
Definition key_pair_ok (a b : reg) : bool :=
  negb (same_key a b)
  || (Z.eqb (r_order a) (r_order b) && texts_eqb (map pred_phash (r_preds a)) (map pred_phash (r_preds b))).
Definition key_ok_b (regs : list reg) : bool := forallb (fun a => forallb (key_pair_ok a) regs) regs.
Fixpoint nodupN (l : list N) : bool := match l with [] => true | x :: r => negb (memN x r) && nodupN r end.
Definition premises_b (regs : list reg) (W : world) (ri : rinfo) : bool :=
  key_ok_b regs
  && forallb (fun v => match r_accept v with None => true | Some _ => false end) regs
  && forallb (fun v => Nat.leb (n_preds v) 400) regs
  && nodupN (ri_comb_sro ri) && nodupN (ri_unrouted_sro ri)
  && forallb (fun x => nodupN (x_sro x)) (w_excs W).

(* ------------------------------------------------------------------ *)
(* wire glue *)

Definition get_action (v : val) : option action :=
  match v with
  | VL [VI 0%Z] => Some ARet
  | VL [VI 1%Z] => Some ARetCtx
  | VL [VI 2%Z; VI e] => Some (ARaise (Z.to_N e))
  | _ => None
  end.
Definition get_body (v : val) : option body :=
  match v with
  | VL [t; a; p] => olet t := get_bool t in olet a := get_action a in olet p := get_bool p in Some (mkBody t a p)
  | _ => None
  end.
Definition get_directive (v : val) : option directive :=
  match v with
  | VI 0%Z => Some DView | VI 1%Z => Some DExcView | VI 2%Z => Some DNotFound | VI 3%Z => Some DForbidden
  | _ => None
  end.
Definition get_bits (v : val) : option ctxbits :=
  match v with
  | VL [a; b; c; d; e] =>
      olet a := get_bool a in olet b := get_bool b in olet c := get_bool c in olet d := get_bool d in
      olet e := get_bool e in Some (mkBits a b c d e)
  | _ => None
  end.
(* [isx]: isexception over the oracle bits of the context object (the regenerated gen_isexception in run_C14) *)
Definition get_decl (isx : ctxbits -> bool) (v : val) : option vdecl :=
  match v with
  | VL [dir; ctx; xonly; isexc; args; phase; bd; dctx; dbits] =>
      olet dir := get_directive dir in olet ctx := get_opt get_N ctx in olet xonly := get_bool xonly in
      olet isexc := get_bits isexc in let isexc := isx isexc in
      olet args := get_args args in olet phase := get_N phase in
      olet bd := get_body bd in olet dctx := get_opt get_N dctx in olet dbits := get_bits dbits in
      Some (mkDecl dir ctx xonly isexc args phase bd dctx (isx dbits))
  | _ => None
  end.
Definition get_exc (v : val) : option exc :=
  match v with
  | VL [i; sro; isa; st] =>
      olet i := get_N i in olet sro := get_Ns sro in olet isa := get_texts isa in olet st := get_N st in
      Some (mkExc i sro isa st)
  | _ => None
  end.
Definition get_under (v : val) : option under_prog :=
  match v with
  | VL [VI 0%Z] => Some UPass
  | VL [VI 1%Z; VI e] => Some (URaise (Z.to_N e))
  | VL [VI 2%Z; rr; sec; via; thn] =>
      olet rr := get_bool rr in olet sec := get_bool sec in olet via := get_bool via in
      olet thn := get_opt get_N thn in Some (UCatch rr sec via thn)
  | VL [VI 3%Z] => Some URetry
  | _ => None
  end.
Definition get_rinfo (v : val) : option (N * rinfo) :=
  match v with
  | VL [ph; rq; rq2; comb; unr; deny; rootr; und; pre] =>
      olet ph := get_N ph in olet rq := get_request rq in olet rq2 := get_opt get_request rq2 in
      olet comb := get_Ns comb in olet unr := get_Ns unr in
      olet deny := get_bool deny in
      olet rootr := get_opt get_N rootr in olet und := get_under und in olet pre := get_opt get_N pre in
      Some (ph, mkRI rq rq2 comb unr deny rootr und pre)
  | _ => None
  end.
Definition get_named (v : val) : option named :=
  get_list_of (fun e => match e with VL [VT k; i] => olet i := get_N i in Some (k, i) | _ => None end) v.

Definition put_snap (s : snapshot) : val := VL (map (vopt vN) s).
Definition put_outcome (W : world) (o : outcome) : val :=
  match o with
  | Resp (RView t) => VL [VI 0; vN t]
  | Resp (RExc e) => VL [VI 1; vN e; vN (status_of W e)]
  | Raise e => VL [VI 2; vN e]
  end.
Definition put_event (W : world) (ev : event) : val :=
  match ev with
  | EBody t c s => VL [VI 0; vN t; vN c; put_snap s]
  | EIev e b o a => VL [VI 1; vN e; put_snap b; put_outcome W o; put_snap a]
  | EProbe o s => VL [VI 2; put_outcome W o; put_snap s]
  | EFinal o s f => VL [VI 3; put_outcome W o; put_snap s; vopt vN f]
  | ECtlW i v => VL [VI 4; vN i; vopt vN v]
  end.

Definition get_snap (v : val) : option snapshot := get_list_of (get_opt get_N) v.
Definition get_outcome (v : val) : option outcome :=
  match v with
  | VL [VI 0%Z; VI t] => Some (Resp (RView (Z.to_N t)))
  | VL [VI 1%Z; VI e; VI _] => Some (Resp (RExc (Z.to_N e)))
  | VL [VI 2%Z; VI e] => Some (Raise (Z.to_N e))
  | _ => None
  end.
Definition get_event (v : val) : option event :=
  match v with
  | VL [VI 0%Z; VI t; VI c; s] => olet s := get_snap s in Some (EBody (Z.to_N t) (Z.to_N c) s)
  | VL [VI 1%Z; VI e; b; o; a] =>
      olet b := get_snap b in olet o := get_outcome o in olet a := get_snap a in Some (EIev (Z.to_N e) b o a)
  | VL [VI 2%Z; o; s] => olet o := get_outcome o in olet s := get_snap s in Some (EProbe o s)
  | VL [VI 3%Z; o; s; f] =>
      olet o := get_outcome o in olet s := get_snap s in olet f := get_opt get_N f in Some (EFinal o s f)
  | VL [VI 4%Z; VI i; v] => olet v := get_opt get_N v in Some (ECtlW (Z.to_N i) v)
  | _ => None
  end.

(* status codes in an observed trace must be those of the exception table *)
(* ... and the property's own numbers: an HTTPNotFound that is the response is a 404, an HTTPForbidden a 403
   (framework-made ones: the class codes; user subclasses of the generator keep them) *)
Definition status_ok (W : world) (v : val) : bool :=
  match v with
  | VL [VI 1%Z; VI e; VI st] =>
      Z.eqb st (Z.of_N (status_of W (Z.to_N e)))
      && (if isa W cn_HTTPNotFound (Z.to_N e) then Z.eqb st 404 else true)
      && (if isa W cn_HTTPForbidden (Z.to_N e) then Z.eqb st 403 else true)
  | _ => true
  end.
Definition event_status_ok (W : world) (v : val) : bool :=
  match v with
  | VL [VI 1%Z; _; _; o; _] => status_ok W o
  | VL [VI 2%Z; o; _] => status_ok W o
  | VL [VI 3%Z; o; _; _] => status_ok W o
  | _ => true
  end.

