(* C20 -- data types and PRIMITIVES shared by the hand-written model
   (Model/C20.v) and by the program the translator regenerates from
   src/pyramid/registry.py and src/pyramid/config/actions.py on every run
   (Gen/Facts_C20.v: gen_add, gen_get, ... ).

   This file is the target vocabulary of the translator's primitive table
   (harness/c20/translate.py, PRIMITIVE TABLE): the generated definitions
   consist of control flow (local [fix], [if], [match] on an option / on the
   outcome of a call) over exactly these constants.  Executable definitions
   only. *)
From Coq Require Import List NArith ZArith Bool.
Import ListNotations.
Require Import Verif.Lib.Wire.

(* An introspectable object.  [iid] is object identity; [ifp] stands for the
   dict content (Introspectable subclasses dict: == compares content only,
   hash is hash((category_name, discriminator))). *)
Record intr := mkIntr { icat : text; idisc : text; ifp : text; iid : N }.

(* `y in L` / `L.remove(y)` on a list of introspectables: identity or dict == *)
Definition cont_eq (a b : intr) : bool := N.eqb (iid a) (iid b) || text_eqb (ifp a) (ifp b).
(* dict-key equality for `_refs`: equal hash (category, discriminator), then identity or == *)
Definition key_eq (a b : intr) : bool :=
  text_eqb (icat a) (icat b) && text_eqb (idisc a) (idisc b) && cont_eq a b.
(* `x is y` *)
Definition same_obj (a b : intr) : bool := N.eqb (iid a) (iid b).

Definition entry := (text * (intr * N))%type.          (* discriminator -> (object, order) *)
Record st := mkSt {
  cats : list (text * list entry);                      (* _categories, insertion ordered *)
  refs : list (intr * list intr);                       (* _refs *)
  counter : N }.
Definition init : st := mkSt [] [] 0.

Inductive err := KeyError | ValueError.
Inductive res (A : Type) := Ok (a : A) | Err (e : err).
Arguments Ok {A}. Arguments Err {A}.

(* ---- dict with text keys: get / [k] = v / del [k] / setdefault *)
Fixpoint assoc {B} (k : text) (l : list (text * B)) : option B :=
  match l with [] => None | (k', v) :: r => if text_eqb k k' then Some v else assoc k r end.
(* dict[k] = v : replace in place or append *)
Fixpoint assoc_set {B} (k : text) (v : B) (l : list (text * B)) : list (text * B) :=
  match l with
  | [] => [(k, v)]
  | (k', v') :: r => if text_eqb k k' then (k, v) :: r else (k', v') :: assoc_set k v r
  end.
Fixpoint assoc_del {B} (k : text) (l : list (text * B)) : list (text * B) :=
  match l with [] => [] | (k', v') :: r => if text_eqb k k' then r else (k', v') :: assoc_del k r end.
Definition assoc_setdefault {B} (k : text) (v : B) (l : list (text * B)) : list (text * B) :=
  match assoc k l with Some _ => l | None => assoc_set k v l end.
(* the inner dict of a category (read through an alias obtained by setdefault / [..] / get(.., {})) *)
Definition cat_at (cs : list (text * list entry)) (c : text) : list entry :=
  match assoc c cs with Some l => l | None => [] end.
(* category.get(discriminator) : the stored object or None *)
Definition entry_get (d : text) (l : list entry) : option intr :=
  match assoc d l with Some (i, _) => Some i | None => None end.

(* ---- `_refs`: dict keyed by introspectables *)
Fixpoint refs_get (x : intr) (l : list (intr * list intr)) : option (list intr) :=
  match l with [] => None | (k, v) :: r => if key_eq x k then Some v else refs_get x r end.
Fixpoint refs_set (x : intr) (v : list intr) (l : list (intr * list intr)) : list (intr * list intr) :=
  match l with
  | [] => [(x, v)]
  | (k, v') :: r => if key_eq x k then (k, v) :: r else (k, v') :: refs_set x v r
  end.
Fixpoint refs_del (x : intr) (l : list (intr * list intr)) : list (intr * list intr) :=
  match l with [] => [] | (k, v) :: r => if key_eq x k then r else (k, v) :: refs_del x r end.
Definition refs_setdefault (x : intr) (v : list intr) (l : list (intr * list intr)) : list (intr * list intr) :=
  match refs_get x l with Some _ => l | None => refs_set x v l end.
(* mutation through an alias obtained by `_refs.get(x, [])`: a mutated temporary is lost *)
Definition refs_set_if_present (x : intr) (v : list intr) (l : list (intr * list intr)) : list (intr * list intr) :=
  match refs_get x l with Some _ => refs_set x v l | None => l end.
Definition refs_at (l : list (intr * list intr)) (x : intr) : list intr :=
  match refs_get x l with Some v => v | None => [] end.

(* ---- lists of introspectables *)
Fixpoint mem_intr (y : intr) (l : list intr) : bool :=
  match l with [] => false | e :: r => cont_eq y e || mem_intr y r end.
(* list.remove: first equal element; None = ValueError *)
Fixpoint remove_first (y : intr) (l : list intr) : option (list intr) :=
  match l with
  | [] => None
  | e :: r => if cont_eq y e then Some r
              else match remove_first y r with Some r' => Some (e :: r') | None => None end
  end.
(* ((x, y) for x in A for y in B) *)
Definition pairs_of (A B : list intr) : list (intr * intr) :=
  flat_map (fun x => map (fun y => (x, y)) B) A.

(* ---- sorted(set(values), key=attrgetter('order')) *)
Fixpoint insert_by_order (e : intr * N) (l : list (intr * N)) : list (intr * N) :=
  match l with
  | [] => [e]
  | x :: r => if N.leb (snd e) (snd x) then e :: l else x :: insert_by_order e r
  end.
Definition sort_by_order (l : list (intr * N)) : list (intr * N) := fold_right insert_by_order [] l.

(* ---- sorted(keys) on texts *)
Fixpoint text_ltb (a b : text) : bool :=
  match a, b with
  | [], [] => false
  | [], _ => true
  | _, [] => false
  | x :: a', y :: b' => if N.ltb x y then true else if N.ltb y x then false else text_ltb a' b'
  end.
Fixpoint insert_text (t : text) (l : list text) : list text :=
  match l with
  | [] => [t]
  | x :: r => if text_eqb t x then l else if text_ltb t x then t :: l else x :: insert_text t r
  end.
Definition sorted_texts (l : list text) : list text := fold_right insert_text [] l.

(* ---- Introspectable._relations: (True, category, discriminator) / (False, ..) *)
Inductive relop := Rel (c d : text) | Unrel (c d : text).
Definition rel_flag (r : relop) : bool := match r with Rel _ _ => true | Unrel _ _ => false end.
Definition rel_cat (r : relop) : text := match r with Rel c _ | Unrel c _ => c end.
Definition rel_disc (r : relop) : text := match r with Rel _ d | Unrel _ d => d end.
Definition mk_relop (b : bool) (c d : text) : relop := if b then Rel c d else Unrel c d.
