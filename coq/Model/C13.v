(* C13 -- thread-local state restored and callbacks run on every path.
   Executable definitions only.
   Part (a): boolean checks on the path summaries of the REGENERATED skeletons
             (Gen/Facts_C13.v, produced by harness/c13/translate.py).
   Part (b): interpreter for one request through the router pipeline under a
             fault scenario (hand-written, follows router.py / tweens.py /
             view.py / request.py step by step), its declarative judge, wire glue. *)
From Coq Require Import List NArith ZArith Bool Arith.
Import ListNotations.
Require Import Verif.Lib.Wire Verif.Lib.C13Bracket.
Require Export Verif.Lib.C13Monad.
Require Import Verif.Gen.Facts_C13.

(* ================================================================ part (a) *)
Definition kind_of (su : summ) : kind := fst (fst su).
Definition eff_of (su : summ) : eff := snd (fst su).
Definition marks (su : summ) : list N := map fst (snd su).

Fixpoint countN (m : N) (l : list N) : nat :=
  match l with [] => 0 | x :: r => (if N.eqb x m then 1 else 0) + countN m r end.
(* after the first [m], every further mark is one of [allowed] *)
Fixpoint only_after (m : N) (allowed : list N) (l : list N) : bool :=
  match l with
  | [] => true
  | x :: r => if N.eqb x m then forallb (fun y => memN y allowed) r else only_after m allowed r
  end.
(* every [b] has an earlier [a] *)
Fixpoint preceded (a b : N) (l : list N) : bool :=
  match l with
  | [] => true
  | x :: r => if N.eqb x a then true else if N.eqb x b then false else preceded a b r
  end.

Definition balanced_c (su : summ) : bool := eff_eqb (eff_of su) eid.
(* every marked moment happens with exactly the frame [t] on top of the caller's stack *)
Definition within_frame_c (t : N) (su : summ) : bool :=
  forallb (fun ev => eff_eqb (snd ev) (0, [t])) (snd su).
(* the moments marked [m] happen with frame [t] on top *)
Definition mark_top_c (m t : N) (su : summ) : bool :=
  forallb (fun ev => negb (N.eqb (fst ev) m) ||
                     match snd ev with (0, x :: _) => N.eqb x t | _ => false end) (snd su).

Definition wsgi_c (su : summ) : bool := balanced_c su && within_frame_c tag_request_context su.
Definition excview_c (su : summ) : bool :=
  balanced_c su && forallb (fun ev => negb (N.eqb (fst ev) mk_excview) ||
                                      eff_eqb (snd ev) (0, [tag_exception_view])) (snd su).
Definition cfg_c (su : summ) : bool := balanced_c su && mark_top_c mk_body tag_configurator su.
Definition cfg_begin_c (su : summ) : bool :=
  match kind_of su with KExc => eff_eqb (eff_of su) eid | _ => eff_eqb (eff_of su) (0, [tag_configurator]) end.
Definition pop1_c (su : summ) : bool := eff_eqb (eff_of su) (1, []).

Definition finish_c (su : summ) : bool :=
  Nat.eqb (countN mk_finish (marks su)) 1 && only_after mk_finish [mk_fincb] (marks su) && balanced_c su.
Definition respnew_c (su : summ) : bool :=
  let ms := marks su in
  Nat.eqb (countN mk_handle ms) 1
  && Nat.leb (countN mk_respcb ms) 1 && Nat.leb (countN mk_newresp ms) 1
  && preceded mk_handle_ret mk_respcb ms && preceded mk_handle_ret mk_newresp ms
  && only_after mk_newresp [mk_finish; mk_fincb] ms
  && match kind_of su with KExc => true | _ => Nat.eqb (countN mk_handle_ret ms) 1 end.

(* scripting.prepare / get_root: raise => nothing left behind, return => exactly the request frame *)
Definition acquire_c (su : summ) : bool :=
  match kind_of su with
  | KExc => eff_eqb (eff_of su) eid
  | _ => eff_eqb (eff_of su) (0, [tag_request_context])
  end && mark_top_c mk_rootfactory tag_request_context su.

Definition cfg_programs : list stmt :=
  [prog_cfg_commit; prog_cfg_action; prog_cfg_include; prog_cfg_make_wsgi_app;
   prog_cfg_route_prefix; prog_cfg_with; prog_cfg_init].

(* ================================================================ part (b) *)
Local Open Scope N_scope.

(* injection points (harness/c13/app.py uses the same numbers) *)
Definition P_OVER_IN := 1.   Definition P_UNDER_IN := 2.  Definition P_NEWREQ := 3.
Definition P_ROUTE_PRED := 4. Definition P_ROUTE_FACTORY := 5. Definition P_BEFORE_TRAV := 6.
Definition P_ROOT_FACTORY := 7. Definition P_TRAVERSER := 8. Definition P_CTX_FOUND := 9.
Definition P_VIEW_PRED := 10. Definition P_PERMITS := 11. Definition P_VIEW := 12.
Definition P_RENDERER := 13. Definition P_UNDER_OUT := 14. Definition P_OVER_OUT := 15.
Definition P_RESP_CB := 16.  Definition P_NEWRESP := 17.  Definition P_FIN_CB := 18.
Definition P_EXCVIEW := 19.   (* exception view registered for context=Exception *)
Definition P_EXCVIEW_HTTP := 20.   (* exception view registered for context=HTTPException *)
Definition P_DEFAULT_VIEW := 21.   (* httpexceptions.default_exceptionresponse_view (not instrumented: no event) *)
(* fault kinds / exception kinds *)
Definition K_PLAIN := 1. Definition K_HTTP := 2. Definition K_PM := 3. Definition K_FALSE := 4.
Definition K_FORBIDDEN := 4. Definition K_NOTFOUND := 5.

Record fault := mkFault { f_pt : N; f_kind : N; f_n : N }.
(* which: bit 0 response callback, bit 1 finished callback.  r_n only matters when the registering point is
   itself a callback (r_pt = P_RESP_CB / P_FIN_CB): the registration is made by the r_n-th callback of that
   kind to run (0-based), so every entry fires at most once per request and callback chains are bounded. *)
Record reg := mkReg { r_pt : N; r_which : N; r_n : N }.
Inductive scn := Scn (route : bool) (faults : list fault) (regs : list reg) (sub : subreq)
(* place: where the request starts its subrequest -- 0: in the view body; 1: in the tween over the excview tween, on
   egress (after the rest of the chain returned, before that tween's own egress point) *)
with subreq := NoSub | Sub (tweens : bool) (place : N) (s : scn).
Definition s_route (s : scn) := match s with Scn r _ _ _ => r end.
Definition s_faults (s : scn) := match s with Scn _ f _ _ => f end.
Definition s_regs (s : scn) := match s with Scn _ _ r _ => r end.
Definition s_sub (s : scn) := match s with Scn _ _ _ b => b end.

(* pev, state, res, M, ret/raise/bind/seq/catch/finally, push/pop/frame, while_, prims: Lib/C13Monad.v *)

Definition top_is (l : N) (s : list N) : bool := match s with x :: _ => N.eqb x l | [] => false end.

Definition find_fault (fs : list fault) (pt n : N) : N :=
  match find (fun f => N.eqb (f_pt f) pt &&
                       (negb (N.eqb pt P_RESP_CB || N.eqb pt P_FIN_CB) || N.eqb (f_n f) n)) fs with
  | Some f => f_kind f | None => 0 end.

Definition is_cb (pt : N) : bool := N.eqb pt 16 || N.eqb pt 18.
Definition reg_fires (r : reg) (pt n : N) : bool :=
  N.eqb (r_pt r) pt && (negb (is_cb pt) || N.eqb (r_n r) n).
Definition do_regs (rs : list reg) (pt n : N) (st : state) : state :=
  fold_left (fun st r =>
    if reg_fires r pt n then
      mkSt (stk st) (log st)
           (if N.testbit (r_which r) 0 then rq st ++ [pt] else rq st)
           (if N.testbit (r_which r) 1 then fq st ++ [pt] else fq st) (nr st) (nf st)
    else st) rs st.

Definition log_ev (l pt aux : N) (st : state) : state :=
  mkSt (stk st) (log st ++ [mkEv pt l (N.of_nat (length (stk st))) (top_is l (stk st)) aux])
       (rq st) (fq st) (nr st) (nf st).

(* an instrumented component: log, register callbacks, then act as the scenario says;
   answers Ok 1 / Ok 0 (a predicate or the policy saying no) / Ex kind *)
Definition hit (l : N) (sc : scn) (pt aux n : N) (may_false : bool) : M :=
  fun st =>
    let st1 := do_regs (s_regs sc) pt n (log_ev l pt aux st) in
    let k := find_fault (s_faults sc) pt n in
    if N.eqb k 0 then (st1, Ok 1)
    else if N.eqb k K_FALSE then (st1, Ok (if may_false then 0 else 1))
    else (st1, Ex k).
Definition hit0 l sc pt := hit l sc pt 0 0 false.

(* Router.handle_request + _call_view + the derived view (predicate, permission, body, renderer).
   [subrun]: what request.invoke_subrequest does for this scenario's subrequest, if any. *)
Definition view_body (l : N) (sc : scn) (subrun : option M) : M :=
  fun st =>
    let st1 := do_regs (s_regs sc) P_VIEW 0 (log_ev l P_VIEW 0 st) in
    let after := fun st2 =>
      let k := find_fault (s_faults sc) P_VIEW 0 in
      if N.eqb k 0 || N.eqb k K_FALSE then (st2, Ok P_VIEW) else (st2, Ex k) in
    match subrun with
    | None => after st1
    | Some sr => match sr st1 with
                 | (st2, Ok _) => after (log_ev l P_VIEW 1 st2)
                 | (st2, Ex k) => (st2, Ex k)
                 end
    end.

Definition derived_view (l : N) (sc : scn) (subrun : option M) : M :=
  bind (hit l sc P_VIEW_PRED 0 0 true) (fun ok =>
  if N.eqb ok 0 then raise K_PM else
  bind (hit l sc P_PERMITS 0 0 true) (fun ok2 =>
  if N.eqb ok2 0 then raise K_FORBIDDEN else
  seq (view_body l sc subrun) (seq (hit0 l sc P_RENDERER) (ret P_VIEW)))).

Definition handle_request (l : N) (sc : scn) (subrun : option M) : M :=
  seq (hit0 l sc P_NEWREQ)
  (bind (if s_route sc then hit l sc P_ROUTE_PRED 0 0 true else ret 0) (fun matched =>
   seq (hit0 l sc P_BEFORE_TRAV)
   (seq (if N.eqb matched 0 then hit0 l sc P_ROOT_FACTORY else hit0 l sc P_ROUTE_FACTORY)
   (seq (hit0 l sc P_TRAVERSER)
   (seq (hit0 l sc P_CTX_FOUND) (derived_view l sc subrun)))))).

(* request.invoke_exception_view as used by the excview tween's _error_handler.
   [ev]: which exception views exist -- bit 0: a view for context=Exception, bit 1: a view for
   context=HTTPException, bit 2: the default exceptionresponse view (context=IExceptionResponse).
   _find_views returns them in the resolution order of the exception's interfaces: for an HTTP exception
   (every kind but the plain one) HTTPException, IExceptionResponse, Exception; for a plain exception only
   the Exception view applies.  _call_view calls them in that order; a PredicateMismatch escaping a view makes
   it try the next one; when none is left (or none exists) the outcome is an HTTPNotFound, for which
   _error_handler re-raises the original exception. *)
Definition is_http_kind (k : N) : bool := negb (N.eqb k K_PLAIN).
Definition exc_views (ev k : N) : list N :=
  (if is_http_kind k && N.testbit ev 1 then [P_EXCVIEW_HTTP] else []) ++
  (if is_http_kind k && N.testbit ev 2 then [P_DEFAULT_VIEW] else []) ++
  (if N.testbit ev 0 then [P_EXCVIEW] else []).
Fixpoint call_views (l : N) (sc : scn) (vs : list N) : M :=
  match vs with
  | [] => raise K_NOTFOUND
  | p :: rest =>
      if N.eqb p P_DEFAULT_VIEW then ret p
      else catch (seq (hit0 l sc p) (ret p))
                 (fun k2 => if N.eqb k2 K_PM then call_views l sc rest else raise k2)
  end.
Definition error_handler (ev : N) (l : N) (sc : scn) (k : N) : M :=
  catch (frame l (call_views l sc (exc_views ev k)))
        (fun k2 => if N.eqb k2 K_PM || N.eqb k2 K_NOTFOUND then raise k else raise k2).

Definition tween (l : N) (sc : scn) (pin pout : N) (handler : M) : M :=
  seq (hit0 l sc pin) (bind handler (fun r => seq (hit0 l sc pout) (ret r))).
Definition excview_tween (ev : N) (l : N) (sc : scn) (handler : M) : M :=
  catch handler (error_handler ev l sc).
Definition sub_place (sc : scn) : N := match s_sub sc with NoSub => 0 | Sub _ p _ => p end.
(* the subrequest as the view sees it / as the over tween sees it *)
Definition vsub (sc : scn) (subrun : option M) : option M := if N.eqb (sub_place sc) 1 then None else subrun.
Definition tsub (sc : scn) (subrun : option M) : option M := if N.eqb (sub_place sc) 1 then subrun else None.
(* a tween that may start a subrequest on egress: handler, [subrequest], own egress point *)
Definition tween_x (l : N) (sc : scn) (pin pout : N) (sr : option M) (handler : M) : M :=
  seq (hit0 l sc pin)
      (bind handler (fun r => seq (match sr with Some m => m | None => ret 0 end) (seq (hit0 l sc pout) (ret r)))).
Definition tween_chain (ev : N) (l : N) (sc : scn) (subrun : option M) : M :=
  tween_x l sc P_OVER_IN P_OVER_OUT (tsub sc subrun)
    (excview_tween ev l sc (tween l sc P_UNDER_IN P_UNDER_OUT (handle_request l sc (vsub sc subrun)))).

(* while callbacks: callback = callbacks.popleft(); callback(...) *)
Fixpoint resp_cbs (fuel : nat) (l : N) (sc : scn) : M :=
  fun st => match fuel with
  | O => (st, Ex 99)
  | S fuel' =>
      match rq st with
      | [] => (st, Ok 0)
      | o :: rest =>
          let st1 := mkSt (stk st) (log st) rest (fq st) (nr st + 1) (nf st) in
          match hit l sc P_RESP_CB o (nr st) false st1 with
          | (st2, Ok _) => resp_cbs fuel' l sc st2
          | r => r
          end
      end
  end.
Fixpoint fin_cbs (fuel : nat) (l : N) (sc : scn) : M :=
  fun st => match fuel with
  | O => (st, Ex 99)
  | S fuel' =>
      match fq st with
      | [] => (st, Ok 0)
      | o :: rest =>
          let st1 := mkSt (stk st) (log st) (rq st) rest (nr st) (nf st + 1) in
          match hit l sc P_FIN_CB o (nf st) false st1 with
          | (st2, Ok _) => fin_cbs fuel' l sc st2
          | r => r
          end
      end
  end.
(* the loops of _process_response_callbacks / _process_finished_callbacks.  A callback may register further
   callbacks of its own kind; every registration entry fires at most once, so the total budget
   (callbacks pending + registrations of that kind that can still fire) + 1 is enough fuel: each iteration
   takes one unit off that budget (proved in Proofs/C13_c.v: resp_spec / fin_spec never run out). *)
Definition pend (bit pt : N) (rs : list reg) (c : N) : nat :=
  length (filter (fun r => N.eqb (r_pt r) pt && N.testbit (r_which r) bit && N.leb c (r_n r)) rs).
Definition resp_loop (l : N) (sc : scn) : M :=
  fun st => resp_cbs (S (length (rq st) + pend 0 P_RESP_CB (s_regs sc) (nr st))) l sc st.
Definition fin_loop (l : N) (sc : scn) : M :=
  fun st => fin_cbs (S (length (fq st) + pend 1 P_FIN_CB (s_regs sc) (nf st))) l sc st.

(* Router.invoke_request: the try body ... *)
Definition invoke_chain (ev : N) (l : N) (sc : scn) (tw : bool) (subrun : option M) : M :=
  if tw then tween_chain ev l sc subrun else handle_request l sc (vsub sc subrun).
Definition invoke_body (ev : N) (l : N) (sc : scn) (tw : bool) (subrun : option M) : M :=
  bind (invoke_chain ev l sc tw subrun) (fun r =>
  seq (resp_loop l sc)
  (seq (hit0 l sc P_NEWRESP) (ret r))).
(* ... and finish_request in the finally clause *)
Definition invoke_request (ev : N) (l : N) (sc : scn) (tw : bool) (subrun : option M) : M :=
  finally (invoke_body ev l sc tw subrun) (fin_loop l sc).

(* the callback deques belong to the request object: fresh for a subrequest, the parent's afterwards *)
Definition with_fresh_request (m : M) : M :=
  fun st => match m (mkSt (stk st) (log st) [] [] 0 0) with
            | (st', r) => (mkSt (stk st') (log st') (rq st) (fq st) (nr st) (nf st), r)
            end.

(* Router.invoke_subrequest / default_execution_policy: with RequestContext(request): invoke_request *)
Fixpoint run_request (ev : N) (l : N) (sc : scn) (tw : bool) : M :=
  with_fresh_request
    (frame l (invoke_request ev l sc tw
       (match s_sub sc with
        | NoSub => None
        | Sub tw' _ sc' => Some (run_request ev (l + 1) sc' tw')
        end))).

Definition init_state (s0 : list N) : state := mkSt s0 [] [] [] 0 0.

(* ---- the translated router functions (Gen/Facts_C13.v gen_*, from harness/c13/translate_b.py) are parametric in
   their leaves (Lib/C13Monad.prims).  Reference programs over the same leaves: what the translation of the
   current source is expected to equal, pointwise, for EVERY value of the leaves (Proofs/C13_d.v gen_*_is_ref) *)
Definition ref_resp_loop (P : prims) : M :=
  seq (while_fuelled (p_resp_fuel P) (p_resp_pending P)
         (bind (p_resp_popleft P) (fun cb => seq (p_resp_call P cb) (ret 0)))) (ret 0).
Definition ref_fin_loop (P : prims) : M :=
  seq (while_fuelled (p_fin_fuel P) (p_fin_pending P)
         (bind (p_fin_popleft P) (fun cb => seq (p_fin_call P cb) (ret 0)))) (ret 0).
Definition ref_finish_request (P : prims) : M :=
  bind (p_fin_pending P) (fun b => if truthy b then seq (ref_fin_loop P) (ret 0) else ret 0).
Definition ref_invoke_body (P : prims) (tw : bool) : M :=
  bind (if tw then p_handle_tweens P else p_handle_orig P) (fun r =>
  seq (bind (p_resp_pending P) (fun b => if truthy b then ref_resp_loop P else ret 0))
  (seq (bind (p_has_listeners P) (fun b => if truthy b then p_notify_newresponse P else ret 0))
  (ret r))).
Definition ref_invoke_request (P : prims) (tw : bool) : M :=
  finally (ref_invoke_body P tw) (ref_finish_request P).
(* with RequestContext(request): m *)
Definition ref_scope (P : prims) (m : M) : M := seq (p_push P) (finally m (p_pop P)).
Definition ref_extensions (P : prims) : M :=
  bind (p_has_extensions P) (fun b => if truthy b then p_setup P else ret 0).
Definition ref_default_execution_policy (P : prims) : M :=
  seq (p_setup P) (seq (ref_extensions P) (ref_scope P (ref_invoke_request P true))).
Definition ref_invoke_subrequest (P : prims) (tw : bool) : M :=
  seq (ref_extensions P) (ref_scope P (ref_invoke_request P tw)).
(* ViewMethodsMixin.invoke_exception_view (hide_attrs inlined: its own statements leave the model's world alone) *)
Definition ref_invoke_exception_view (P : prims) (exc : N) (reraise : bool) : M :=
  bind (seq (p_push P)
            (finally (catch (p_call_exception_view P exc) (fun e => if reraise then raise exc else raise e))
                     (p_pop P)))
       (fun r => if N.eqb r 0 then (if reraise then raise exc else raise (p_exc_notfound P)) else ret r).
Definition ref_error_handler (P : prims) (k : N) : M :=
  catch (ref_invoke_exception_view P k false) (fun k2 => if p_is_notfound P k2 then raise k else raise k2).
(* Router.handle_request *)
Definition notify_if (P : prims) (n : M) : M := bind (p_has_listeners P) (fun b => if truthy b then n else ret 0).
Definition ref_handle_tail (P : prims) (rf : M) : M :=
  seq (notify_if P (p_notify_beforetraversal P))
  (bind rf (fun _ => bind (p_traverser P) (fun _ =>
   seq (notify_if P (p_notify_contextfound P))
   (bind (p_call_view P) (fun r => if N.eqb r 0 then raise (p_exc_notfound P) else ret r))))).
Definition ref_handle_request (P : prims) : M :=
  seq (notify_if P (p_notify_newrequest P))
  (bind (p_has_mapper P) (fun hm =>
     if truthy hm then
       bind (p_routes_mapper P) (fun route =>
         if N.eqb route 0 then ref_handle_tail P (p_root_factory P) else ref_handle_tail P (p_route_factory P))
     else ref_handle_tail P (p_root_factory P))).
Definition ref_excview_tween (P : prims) : M := catch (p_handler P) (ref_error_handler P).

(* the leaves as the pipeline interpreter understands them, for the request at level l with scenario sc;
   [chain] is what self.handle_request (the tween chain) does *)
Definition cb_pending (q : state -> list N) : M :=
  fun st => (st, Ok (match q st with [] => 0 | _ => 1 end)).
Definition resp_popleft : M :=
  fun st => match rq st with
            | [] => (st, Ex 98)
            | o :: rest => (mkSt (stk st) (log st) rest (fq st) (nr st + 1) (nf st), Ok o)
            end.
Definition fin_popleft : M :=
  fun st => match fq st with
            | [] => (st, Ex 98)
            | o :: rest => (mkSt (stk st) (log st) (rq st) rest (nr st) (nf st + 1), Ok o)
            end.
Definition resp_call (l : N) (sc : scn) (o : N) : M := fun st => hit l sc P_RESP_CB o (N.pred (nr st)) false st.
Definition fin_call (l : N) (sc : scn) (o : N) : M := fun st => hit l sc P_FIN_CB o (N.pred (nf st)) false st.
Definition is_notfound (k : N) : bool := N.eqb k K_PM || N.eqb k K_NOTFOUND.
(* _call_view as invoke_exception_view sees it: the views in order, a PredicateMismatch moves on to the next one;
   no view at all => None (0); every view mismatched => the PredicateMismatch is raised *)
Fixpoint call_views_f (l : N) (sc : scn) (vs : list N) (seen : bool) : M :=
  match vs with
  | [] => if seen then raise K_PM else ret 0
  | p :: rest =>
      if N.eqb p P_DEFAULT_VIEW then ret p
      else catch (seq (hit0 l sc p) (ret p))
                 (fun k2 => if N.eqb k2 K_PM then call_views_f l sc rest true else raise k2)
  end.
(* [chain]: what self.handle_request (the tween chain) does; [hr]: what Router.handle_request does *)
Definition prims_of (ev l : N) (sc : scn) (subrun : option M) (chain hr : M) : prims :=
  mkPrims chain hr
          (cb_pending rq) resp_popleft (resp_call l sc)
          (fun st => S (length (rq st) + pend 0 P_RESP_CB (s_regs sc) (nr st)))
          (cb_pending fq) fin_popleft (fin_call l sc)
          (fun st => S (length (fq st) + pend 1 P_FIN_CB (s_regs sc) (nf st)))
          (ret 1) (hit0 l sc P_NEWRESP)
          (ret 0) (ret 0)
          (push l) pop
          (tween l sc P_UNDER_IN P_UNDER_OUT hr)
          is_notfound
          (hit0 l sc P_NEWREQ) (ret 1)
          (if s_route sc then hit l sc P_ROUTE_PRED 0 0 true else ret 0)
          (hit0 l sc P_ROOT_FACTORY) (hit0 l sc P_ROUTE_FACTORY)
          (hit0 l sc P_BEFORE_TRAV) (hit0 l sc P_TRAVERSER) (hit0 l sc P_CTX_FOUND)
          (derived_view l sc (vsub sc subrun)) K_NOTFOUND
          (fun k => call_views_f l sc (exc_views ev k) false).
(* the tween chain with the GENERATED excview tween in the middle, and the interpreter built from the generated
   programs at every level of the scenario tree (proved equal to run_request / run_top) *)
Definition gen_hr (ev l : N) (sc : scn) (subrun : option M) : M :=
  gen_handle_request (prims_of ev l sc subrun (ret 0) (ret 0)).
Definition gen_chain (ev l : N) (sc : scn) (subrun : option M) : M :=
  tween_x l sc P_OVER_IN P_OVER_OUT (tsub sc subrun)
    (gen_excview_tween (prims_of ev l sc subrun (ret 0) (gen_hr ev l sc subrun))).
Definition prims_top (ev l : N) (sc : scn) (subrun : option M) : prims :=
  prims_of ev l sc subrun (gen_chain ev l sc subrun) (gen_hr ev l sc subrun).
Fixpoint gen_run_request (ev : N) (l : N) (sc : scn) (tw : bool) : M :=
  with_fresh_request
    (gen_invoke_subrequest
       (prims_top ev l sc (match s_sub sc with
                           | NoSub => None
                           | Sub tw' _ sc' => Some (gen_run_request ev (l + 1) sc' tw')
                           end)) tw).
Definition gen_run_top (ev : N) (sc : scn) (s0 : list N) : state * res :=
  with_fresh_request
    (gen_default_execution_policy
       (prims_top ev 0 sc (match s_sub sc with
                           | NoSub => None
                           | Sub tw' _ sc' => Some (gen_run_request ev 1 sc' tw')
                           end))) (init_state s0).
Definition run_top (ev : N) (sc : scn) (s0 : list N) : state * res :=
  run_request ev 0 sc true (init_state s0).

(* ---- declarative judge of an observation (outcome is not constrained by the property) *)
Definition lvl_log (l : N) (lg : list pev) : list pev := filter (fun e => N.eqb (e_lvl e) l) lg.
Definition is_pt (p : N) (e : pev) : bool := N.eqb (e_pt e) p.
(* callbacks registered according to the components that were observed to run: the registrations a
   component at point pt makes; for a callback event, the entries of the callback with that running number
   (cr / cf count the response / finished callback events seen so far) *)
Definition regsfor (bit : N) (rs : list reg) (pt n : N) : list N :=
  flat_map (fun r => if reg_fires r pt n && N.testbit (r_which r) bit then [pt] else []) rs.
Fixpoint registered_from (bit : N) (rs : list reg) (cr cf : N) (lg : list pev) : list N :=
  match lg with
  | [] => []
  | e :: r =>
      (if N.eqb (e_pt e) P_VIEW && N.eqb (e_aux e) 1 then []
       else regsfor bit rs (e_pt e) (if is_pt 16 e then cr else cf))
      ++ registered_from bit rs (if is_pt 16 e then cr + 1 else cr) (if is_pt 18 e then cf + 1 else cf) r
  end.
Definition registered (bit : N) (rs : list reg) (lg : list pev) : list N := registered_from bit rs 0 0 lg.
Fixpoint list_eqb (a b : list N) : bool :=
  match a, b with [] , [] => true | x :: a', y :: b' => N.eqb x y && list_eqb a' b' | _, _ => false end.
Fixpoint is_prefix (a b : list N) : bool :=
  match a, b with [], _ => true | x :: a', y :: b' => N.eqb x y && is_prefix a' b' | _, _ => false end.
(* after the first event satisfying p, every event satisfies q *)
Fixpoint from_first (p q : pev -> bool) (lg : list pev) : bool :=
  match lg with [] => true | e :: r => if p e then forallb q (e :: r) else from_first p q r end.
Fixpoint before_first (p : pev -> bool) (lg : list pev) : list pev :=
  match lg with [] => [] | e :: r => if p e then [] else e :: before_first p r end.
Definition has_fault (sc : scn) (pt : N) : bool :=
  existsb (fun f => N.eqb (f_pt f) pt && negb (N.eqb (f_kind f) K_FALSE) && negb (N.eqb (f_kind f) 0)) (s_faults sc).

(* finished callbacks of one pass: [fins] ran (origins, in log order), [R] were registered; [cf] finished callbacks
   had run before.  Nothing of the request happens after its first finished callback but finished callbacks.  No
   finished callback told to raise: exactly the registered ones, once, in order.  Otherwise -- what
   _process_finished_callbacks guarantees: a prefix of the registered ones, once, in order, and the run stops short
   only at a callback that raises (the exception propagates; the remaining ones stay pending and do not run) *)
Definition fin_last_raises (sc : scn) (cf : N) (fins : list N) : bool :=
  match fins with
  | [] => false
  | _ => negb (N.eqb (find_fault (s_faults sc) P_FIN_CB (cf + N.of_nat (length fins) - 1)) 0)
  end.
Definition fin_clause (sc : scn) (cf : N) (fins R : list N) (L : list pev) : bool :=
  from_first (is_pt P_FIN_CB) (is_pt P_FIN_CB) L &&
  (if has_fault sc P_FIN_CB
   then is_prefix fins R && (list_eqb fins R || fin_last_raises sc cf fins)
   else list_eqb fins R).
(* one request (level l, scenario sc, through the tweens or not) *)
Definition judge_own (l : N) (sc : scn) (tw : bool) (L : list pev) : bool :=
  let last_pt := if tw then P_OVER_OUT else P_RENDERER in
  let came_out := existsb (is_pt last_pt) L && negb (has_fault sc last_pt) in
  let fins := map e_aux (filter (is_pt P_FIN_CB) L) in
  let resps := map e_aux (filter (is_pt P_RESP_CB) L) in
  let nnew := length (filter (is_pt P_NEWRESP) L) in
  (* response callbacks registered in time: before NewResponse is sent / the request is finished *)
  let rregs := registered 0 (s_regs sc) (before_first (fun e => is_pt P_NEWRESP e || is_pt P_FIN_CB e) L) in
  (* the view (and the exception view) run with this request current *)
  forallb (fun e => negb (is_pt P_VIEW e || is_pt P_EXCVIEW e || is_pt P_EXCVIEW_HTTP e) || e_cur e) L
  (* finished callbacks: each registered one exactly once, in order, after everything else (a prefix, ending at
     the one that raises, when one is told to raise) *)
  && fin_clause sc 0 fins (registered 1 (s_regs sc) L) L
  (* response callbacks then NewResponse, exactly when a response came out of the tween chain *)
  && (if came_out then
        if has_fault sc P_RESP_CB
        then is_prefix resps rregs && Nat.leb nnew 1
        else list_eqb resps rregs && Nat.eqb nnew 1
             && from_first (is_pt P_NEWRESP) (fun e => is_pt P_NEWRESP e || is_pt P_FIN_CB e) L
      else match resps with [] => Nat.eqb nnew 0 | _ => false end).
Definition judge_level (l : N) (sc : scn) (tw : bool) (lg : list pev) : bool :=
  judge_own l sc tw (lvl_log l lg).

(* scenarios the theorems quantify over (harness: valid()): a fault has a kind, and "false/denied" occurs only
   where a predicate or the policy can say no.  Registrations are unrestricted (callbacks may register
   callbacks of their own kind). *)
Definition valid_level (sc : scn) : bool :=
  forallb (fun f => negb (N.eqb (f_kind f) 0) &&
                    (negb (N.eqb (f_kind f) K_FALSE) || memN (f_pt f) [P_ROUTE_PRED; P_VIEW_PRED; P_PERMITS]))
          (s_faults sc).
Fixpoint valid_tree (sc : scn) : bool :=
  valid_level sc && match s_sub sc with NoSub => true | Sub _ _ sc' => valid_tree sc' end.

Fixpoint judge_tree (l : N) (sc : scn) (tw : bool) (lg : list pev) : bool :=
  judge_level l sc tw lg &&
  match s_sub sc with
  | NoSub => true
  | Sub tw' _ sc' =>
      (* a subrequest that was never started leaves no events; otherwise it is judged like any request *)
      match lvl_log (l + 1) lg with [] => true | _ => judge_tree (l + 1) sc' tw' lg end
  end.

(* observation = (final depth relative to the start, log) *)
Definition judge (sc : scn) (depth : N) (lg : list pev) : bool :=
  N.eqb depth 0 && judge_tree 0 sc true lg.

(* ---- the SAME request object passing through Router.invoke_request twice inside one request context: a custom
   execution policy (harness/c13/app.py retry_policy) that retries router.invoke_request(request) -- after a
   failure (mode false) or always (mode true) -- with the scenario of the second attempt swapped in.  The
   callback deques and counters belong to the request object, so they carry over: response callbacks left pending
   by a first attempt that raised run in the second one. *)
Definition P_RETRY := 22.
Definition log_retry : M := fun st => (log_ev 0 P_RETRY 0 st, Ok 0).
Definition retry_body (first second : M) (mode : bool) : M :=
  fun st => match first st with
            | (st1, Ok v) => if mode then seq log_retry second st1 else (st1, Ok v)
            | (st1, Ex _) => seq log_retry second st1
            end.
Definition run_retry (ev : N) (mode : bool) (sc1 sc2 : scn) (s0 : list N) : state * res :=
  with_fresh_request
    (frame 0 (retry_body (invoke_request ev 0 sc1 true None) (invoke_request ev 0 sc2 true None) mode))
    (init_state s0).
Definition gen_run_retry (ev : N) (mode : bool) (sc1 sc2 : scn) (s0 : list N) : state * res :=
  with_fresh_request
    (frame 0 (retry_body (gen_invoke_request (prims_top ev 0 sc1 None) true)
                         (gen_invoke_request (prims_top ev 0 sc2 None) true) mode))
    (init_state s0).

(* one pass of a request object through invoke_request, judged like [judge_own] but with [cr]/[cf] callbacks of
   each kind already run by earlier passes and [left] response callbacks still pending from them *)
Definition cntp (p : N) (L : list pev) : N := N.of_nat (length (filter (is_pt p) L)).
Definition cur_clause (L : list pev) : bool :=
  forallb (fun e => negb (is_pt P_VIEW e || is_pt P_EXCVIEW e || is_pt P_EXCVIEW_HTTP e) || e_cur e) L.
Definition judge_pass (sc : scn) (cr cf : N) (left : list N) (L : list pev) : bool :=
  let came_out := existsb (is_pt P_OVER_OUT) L && negb (has_fault sc P_OVER_OUT) in
  let fins := map e_aux (filter (is_pt P_FIN_CB) L) in
  let resps := map e_aux (filter (is_pt P_RESP_CB) L) in
  let nnew := length (filter (is_pt P_NEWRESP) L) in
  let rregs := left ++ registered_from 0 (s_regs sc) cr cf
                         (before_first (fun e => is_pt P_NEWRESP e || is_pt P_FIN_CB e) L) in
  cur_clause L
  && fin_clause sc cf fins (registered_from 1 (s_regs sc) cr cf L) L
  && (if came_out then
        if has_fault sc P_RESP_CB
        then is_prefix resps rregs && Nat.leb nnew 1
        else list_eqb resps rregs && Nat.eqb nnew 1
             && from_first (is_pt P_NEWRESP) (fun e => is_pt P_NEWRESP e || is_pt P_FIN_CB e) L
      else match resps with [] => Nat.eqb nnew 0 | _ => false end).
Fixpoint split_retry (L : list pev) : list pev * option (list pev) :=
  match L with
  | [] => ([], None)
  | e :: r => if is_pt P_RETRY e then ([], Some r)
              else match split_retry r with (a, b) => (e :: a, b) end
  end.
(* every attempt is judged as a request of its own: its finished callbacks (those registered during it) each run
   once, in order, after everything else of that attempt; its response callbacks -- the ones left pending by the
   first attempt, then its own -- and NewResponse exactly when a response came out of it.  When a callback of the
   first attempt is told to raise, what is left pending is not tracked: the second attempt is then only judged
   for "views see their own request". *)
Definition judge_retry (sc1 sc2 : scn) (depth : N) (lg : list pev) : bool :=
  N.eqb depth 0 &&
  match split_retry lg with
  | (L1, o) =>
      judge_pass sc1 0 0 [] L1 &&
      match o with
      | None => true
      | Some L2 =>
          if has_fault sc1 P_FIN_CB || has_fault sc1 P_RESP_CB then cur_clause L2
          else judge_pass sc2 (cntp P_RESP_CB L1) (cntp P_FIN_CB L1)
                          (skipn (length (filter (is_pt P_RESP_CB) L1)) (registered_from 0 (s_regs sc1) 0 0 L1)) L2
      end
  end.

(* ---- wire glue *)
Definition get_fault (v : val) : option fault :=
  match v with VL [p; k; n] => olet p := get_N p in olet k := get_N k in olet n := get_N n in Some (mkFault p k n)
  | _ => None end.
Definition get_reg (v : val) : option reg :=
  match v with VL [p; w; n] => olet p := get_N p in olet w := get_N w in olet n := get_N n in Some (mkReg p w n)
  | _ => None end.
Fixpoint get_scn (fuel : nat) (v : val) : option scn :=
  match fuel with O => None | S fuel' =>
  match v with
  | VL [r; fs; rs; sb] =>
      olet r := get_bool r in olet fs := get_list_of get_fault fs in olet rs := get_list_of get_reg rs in
      match sb with
      | VL [] => Some (Scn r fs rs NoSub)
      | VL [tw; pl; s] => olet tw := get_bool tw in olet pl := get_N pl in olet s := get_scn fuel' s in
                          Some (Scn r fs rs (Sub tw pl s))
      | _ => None
      end
  | _ => None
  end end.
Definition get_ev (v : val) : option pev :=
  match v with
  | VL [p; l; d; c; a] =>
      olet p := get_N p in olet l := get_N l in olet d := get_N d in olet c := get_bool c in olet a := get_N a in
      Some (mkEv p l d c a)
  | _ => None end.
Definition put_ev (e : pev) : val := VL [vN (e_pt e); vN (e_lvl e); vN (e_depth e); vbool (e_cur e); vN (e_aux e)].
Definition put_res (r : res) : val :=
  match r with Ok v => VL [VI 0; vN v] | Ex k => VL [VI 1; vN k] end.

(* ---- scope cases: the entry points analysed in part (a), observed as
   (exit kind 0 return / 1 raise, frames popped from the caller's stack, frames left pushed) *)
(* entry = (program, class, mark of the inner moment, frame expected on top at that moment) *)
Definition scope_table : list (stmt * N * (N * N)) :=
  [(prog_get_root, 1, (mk_rootfactory, tag_request_context));
   (prog_prepare, 1, (mk_rootfactory, tag_request_context));
   (prog_get_root_closer, 2, (0, 0)); (prog_prepare_closer, 2, (0, 0));
   (prog_prepare_with, 0, (mk_rootfactory, tag_request_context));
   (prog_cfg_commit, 0, (mk_body, tag_configurator)); (prog_cfg_action, 0, (mk_body, tag_configurator));
   (prog_cfg_include, 0, (mk_body, tag_configurator)); (prog_cfg_make_wsgi_app, 0, (mk_body, tag_configurator));
   (prog_cfg_route_prefix, 0, (mk_body, tag_configurator)); (prog_cfg_with, 0, (mk_body, tag_configurator));
   (prog_exception_view, 0, (mk_excview, tag_exception_view));
   (prog_subrequest, 0, (mk_handle, tag_request_context));
   (prog_request_context_manual, 0, (mk_body, tag_request_context));
   (prog_wsgi_call, 0, (mk_handle, tag_request_context));
   (prog_cfg_init, 0, (mk_body, tag_configurator));
   (prog_bootstrap, 1, (mk_rootfactory, tag_request_context));
   (prog_bootstrap_with, 0, (mk_rootfactory, tag_request_context))].
Definition sc_prog (e : stmt * N * (N * N)) : stmt := fst (fst e).
Definition sc_cls (e : stmt * N * (N * N)) : N := snd (fst e).
(* inner: 2 = the inner moment is not on this path, 1 = it happens under the expected frame, 0 = it does not *)
Definition inner_obs (mt : N * N) (su : summ) : N :=
  if negb (memN (fst mt) (marks su)) then 2
  else if mark_top_c (fst mt) (snd mt) su then 1 else 0.
Definition path_obs (mt : N * N) (su : summ) : N * N * N * N :=
  (match kind_of su with KExc => 1 | _ => 0 end, N.of_nat (fst (eff_of su)),
   N.of_nat (length (snd (eff_of su))), inner_obs mt su).
Definition scope_paths (e : stmt * N * (N * N)) : list (N * N * N * N) :=
  match analyse (sc_prog e) with Some L => map (path_obs (snd e)) L | None => [] end.
(* class 0: balanced; 1: acquires exactly one frame on return and nothing on raise; 2: releases one frame;
   in every class the inner moment (root factory, body, view) runs under the frame of its scope *)
Definition scope_spec (cls : N) (o : N * N * N * N) : bool :=
  match o with (k, pops, pushed, inner) =>
    negb (N.eqb inner 0) &&
    if N.eqb cls 0 then N.eqb pops 0 && N.eqb pushed 0
    else if N.eqb cls 1 then N.eqb pops 0 && N.eqb pushed (if N.eqb k 1 then 0 else 1)
    else N.eqb pops 1 && N.eqb pushed 0
  end.
Definition put_path (o : N * N * N * N) : val := match o with (k, a, b, c) => VL [vN k; vN a; vN b; vN c] end.

(* case = [excview registered; scenario; [] | [depth; log] observed on the implementation]
   answer = [model outcome; model final depth; model log; judge of the model run; [] | [judge of the observation]] *)
Definition run_C13 (v : val) : val :=
  ret_or_bad (
    match v with
    | VL [ev; sc; ob] =>
        olet ev := get_N ev in olet sc := get_scn 16 sc in
        let '(st, r) := gen_run_top ev sc [] in    (* the interpreter assembled from the GENERATED programs *)
        let d := N.of_nat (length (stk st)) in
        olet jo := match ob with
                   | VL [] => Some (VL [])
                   | VL [od; ol] => olet od := get_N od in olet ol := get_list_of get_ev ol in
                                    Some (VL [vbool (judge sc od ol)])
                   | _ => None end in
        Some (VL [put_res r; vN d; vlist put_ev (log st); vbool (judge sc d (log st)); jo])
    | VL [ev; mode; sc1; sc2; ob] =>
        olet ev := get_N ev in olet mode := get_bool mode in
        olet sc1 := get_scn 16 sc1 in olet sc2 := get_scn 16 sc2 in
        let '(st, r) := gen_run_retry ev mode sc1 sc2 [] in
        let d := N.of_nat (length (stk st)) in
        olet jo := match ob with
                   | VL [] => Some (VL [])
                   | VL [od; ol] => olet od := get_N od in olet ol := get_list_of get_ev ol in
                                    Some (VL [vbool (judge_retry sc1 sc2 od ol)])
                   | _ => None end in
        Some (VL [put_res r; vN d; vlist put_ev (log st); vbool (judge_retry sc1 sc2 d (log st)); jo])
    | VL [VI n] => Some (VL [VI 0; VI 0; VI n])      (* soak: no mismatch, no stray frame, n threads done *)
    | VL [idx; ob] =>
        olet idx := get_nat idx in
        olet pc := nth_error scope_table idx in
        olet jo := match ob with
                   | VL [] => Some (VL [])
                   | VL [k; a; b; c] =>
                       olet k := get_N k in olet a := get_N a in olet b := get_N b in olet c := get_N c in
                       Some (VL [vbool (scope_spec (sc_cls pc) (k, a, b, c))])
                   | _ => None end in
        Some (VL [vlist put_path (scope_paths pc); vN (sc_cls pc); jo])
    | _ => None
    end).
