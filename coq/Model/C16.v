(* C16 -- pyramid.static.static_view (src/pyramid/static.py) together with what
   delivers its path tuple: the *subpath route remainder (urldispatch.py
   _compile_route / RoutesMapper.__call__), traversal.split_path_info /
   traversal_path_info / decode_path_info, and response.FileResponse.
   Executable definitions only.  POSIX: os.sep = '/', normcase = identity.

   Third-party behaviour arrives as data in the case (oracle inputs): the file
   system listing, mimetypes.encodings_map, WebOb's PATH_SAFE / host_url and the
   answers of request.accept_encoding. *)
From Coq Require Import List NArith ZArith Bool.
Import ListNotations.
Require Import Verif.Lib.Wire Verif.Lib.Text Verif.Lib.PathNorm Verif.Lib.Utf8 Verif.Lib.Percent
               Verif.Lib.C16Posix Verif.Gen.Facts_C16.
Open Scope N_scope.

(* ------------------------------------------------------------ file system *)
Inductive entry := EFile (size : N) (content : text) | EDir (size : N).
Definition fsys := list (list text * entry).          (* absolute component lists *)

Fixpoint comps_eqb (a b : list text) : bool :=
  match a, b with
  | [], [] => true
  | x :: a', y :: b' => text_eqb x y && comps_eqb a' b'
  | _, _ => false
  end.

Fixpoint fs_get (fs : fsys) (k : list text) : option entry :=
  match fs with
  | [] => None
  | (k', e) :: r => if comps_eqb k k' then Some e else fs_get r k
  end.

(* the entry at a (reversed) component list; "/" always is a directory *)
Definition fs_at (fs : fsys) (cur_rev : list text) : option entry :=
  match cur_rev with [] => Some (EDir 0) | _ => fs_get fs (rev cur_rev) end.

(* what stat() does with the components of a path: every component -- also
   '', '.' and '..' -- is looked up in something that must be a directory *)
Fixpoint walk (fs : fsys) (cur : list text) (comps : list text) : option entry :=
  match comps with
  | [] => fs_at fs cur
  | c :: r => match fs_at fs cur with
              | Some (EDir _) => walk fs (spi_step cur c) r
              | _ => None
              end
  end.

(* os.stat(p) as seen through os.path.exists / isdir / getsize: an embedded NUL
   is a ValueError (reported as "does not exist"); relative paths never occur *)
Definition fs_stat (fs : fsys) (p : text) : option entry :=
  if memN 0 p then None
  else if startswith [slash] p then walk fs [] (split_on slash p) else None.

Definition is_dir (o : option entry) : bool := match o with Some (EDir _) => true | _ => false end.
Definition exists_ (o : option entry) : bool := match o with Some _ => true | None => false end.
Definition entry_size (o : option entry) : N :=
  match o with Some (EFile s _) => s | Some (EDir s) => s | None => 0 end.

(* ------------------------------------------------------------ case *)
Record config := mkConfig {
  c_mount : N;          (* 0 add_static_view(name, root): route name/*subpath
                           1 add_route('/*subpath') + static_view(root, use_subpath=True)
                           2 static_view(root, use_subpath=False)(context, request)
                           3 static_view(root, use_subpath=True)(context, request), request.subpath given
                           4 add_route('/name/{subpath:.*}') + static_view(root, use_subpath=True): the matchdict
                             holds a STRING, which ResourceTreeTraverser.__call__ splits
                           5 add_view(static_view(root, use_subpath=True), name=name), no route: traversal from the
                             default root finds the view name and hands the remaining segments over as request.subpath
                           6 add_route('/name/{subpath}') + static_view(root, use_subpath=True): the default placeholder
                             regex '[^/]+' -- one non-empty piece without '/', again a STRING split by the traverser *)
  c_name : text;
  c_pkg : bool;         (* package-relative root *)
  c_docroot : text;     (* what static_view keeps as self.docroot *)
  c_modpath : text;     (* directory of the package (pkg_resources) *)
  c_index : text;
  c_encs : list text;   (* content_encodings= *)
  c_encmap : list (text * text);   (* mimetypes.encodings_map.items() *)
  c_host : text;        (* request.host_url *)
  c_safe : list N;      (* webob.request.PATH_SAFE *)
  c_reload : bool;      (* reload= / pyramid.reload_assets: do not keep the filemap *)
  c_vroot : option text (* HTTP_X_VHM_ROOT as the front-end proxy sets it (WSGI str), deployment-level; only the traversal
                           mounting reads it *)
}.

Record request := mkReq {
  r_raw : text;         (* request path as sent: bytes, percent-encoded *)
  r_subpath : list text;
  r_qs : text;
  r_ae : bool;          (* bool(request.accept_encoding) *)
  r_ae_ok : list text   (* encodings e for which acceptable_offers([e]) is non-empty *)
}.

(* RExc: 1 URLDecodeError 2 UnicodeDecodeError 3 UnicodeEncodeError 4 IsADirectoryError 5 FileNotFoundError
   R404: 0 no route / no view, 1 "Out of bounds", 2 resource missing *)
Inductive resp :=
| RExc (k : N)
| R404 (k : N)
| R301 (loc : text)
| R200 (body : text) (enc : option text) (vary : bool).

(* ordered trace of file-system calls: (0, p) = os.stat(p), (1, p) = open(p) *)
Definition logt := list (N * text).
Definition M (A : Type) : Type := (A * logt)%type.
Definition ret {A} (a : A) : M A := (a, []).
Definition bind {A B} (m : M A) (f : A -> M B) : M B :=
  let '(a, l1) := m in let '(b, l2) := f a in (b, l1 ++ l2).
Definition stat (fs : fsys) (p : text) : M (option entry) := (fs_stat fs p, [(0, p)]).

(* ------------------------------------------------------------ small helpers *)
Definition char1 (t : text) : N := hd 0 t.
Definition endswith (suf s : text) : bool := startswith (rev suf) (rev s).

(* ------------------------------------------------------------ static._secure_path *)
Definition has_insecure (t : list text) : bool := existsb (fun e => mem_text e t) insecure_elements.
Definition contains_invalid_char (item : text) : bool := existsb (fun ch => memN ch item) invalid_element_chars.

Definition secure_path (t : list text) : option text :=
  if has_insecure t then None
  else if existsb contains_invalid_char t then None
  else Some (join secure_join_sep t).

(* ------------------------------------------------------------ traversal *)
Definition spi_step_f (clean_rev : list text) (seg : text) : list text :=
  match seg with
  | [] => clean_rev
  | _ => if text_eqb seg spi_skip then clean_rev
         else if text_eqb seg spi_pop then tl clean_rev
         else seg :: clean_rev
  end.

Definition split_path_info_f (p : text) : list text :=
  rev (fold_left spi_step_f (split_on (char1 spi_split) (strip_char (char1 spi_strip) p)) []).

(* decode_path_info on a str whose characters may exceed latin-1 *)
Definition latin1 (s : text) : bool := forallb (fun ch => ch <? 256) s.

(* what static_view makes of request.path_info (use_subpath=False).  WebOb has
   already decoded PATH_INFO (UnicodeDecodeError when it cannot); the function
   applied to the text is a regenerated fact: traversal_path_info decodes once
   more (latin-1, then UTF-8), split_path_info only splits *)
Definition view_tuple (pi : text) : sum resp (list text) :=
  match decode pi with
  | None => Datatypes.inl (RExc 2)
  | Some s =>
      if view_decodes_again then
        if latin1 s then
          match decode s with
          | None => Datatypes.inl (RExc 1)
          | Some u => Datatypes.inr (split_path_info_f u)
          end
        else Datatypes.inl (RExc 3)
      else Datatypes.inr (split_path_info_f s)
  end.

(* ------------------------------------------------------------ urldispatch *)
Definition nl : N := 10.
Definition drop_final_nl (s : text) : text :=
  match rev s with x :: r => if x =? nl then rev r else s | [] => s end.

(* what '(?P<name>FRAGMENT)ANCHOR' captures of the text after the literal prefix, FRAGMENT being '.*' / '.*?'
   with or without DOTALL and ANCHOR '\Z' (abs) or '$' *)
Definition capture (dotall abs : bool) (rest : text) : option text :=
  match dotall, abs with
  | true, true => Some rest
  | true, false => Some (drop_final_nl rest)
  | false, true => if memN nl rest then None else Some rest
  | false, false => let r := drop_final_nl rest in if memN nl r then None else Some r
  end.

(* the *subpath remainder: fragment and anchor are regenerated facts *)
Definition remainder_capture (rest : text) : option text := capture route_remainder_dotall route_anchor_abs rest.
(* a '{subpath:.*}' placeholder: the regex is the user's ('.' does not match a line feed), the anchor is _compile_route's *)
Definition placeholder_capture (rest : text) : option text := capture false route_anchor_abs rest.

Definition route_match (prefix p : text) : option text :=
  match strip_prefix prefix p with
  | None => None
  | Some rest => remainder_capture rest
  end.

Definition route_match_ph (prefix p : text) : option text :=
  match strip_prefix prefix p with
  | None => None
  | Some rest => placeholder_capture rest
  end.

(* name + '/' and the leading '/' added by _compile_route *)
Definition route_prefix (c : config) : text :=
  match c_mount c with
  | 0 | 4 | 6 => [slash] ++ c_name c ++ [slash]
  | _ => [slash]
  end.

(* a '{subpath}' placeholder with the default regex '[^/]+' (greedy, so the anchor kind is irrelevant): one non-empty
   piece without '/' *)
Definition segment_capture (rest : text) : option text :=
  match rest with [] => None | _ => if memN slash rest then None else Some rest end.

Definition route_match_seg (prefix p : text) : option text :=
  match strip_prefix prefix p with
  | None => None
  | Some rest => segment_capture rest
  end.

(* ResourceTreeTraverser.__call__, route matched, matchdict['subpath'] is a str (a '{subpath}' placeholder, not the
   '*subpath' tuple): routing has decoded it; which function splits it is a regenerated fact (split_path_info only
   splits, traversal_path_info would apply the latin-1 / UTF-8 decoding once more) *)
Definition traverser_tuple (s : text) : sum resp (list text) :=
  if traverser_str_decodes_again then
    if latin1 s then
      match decode s with
      | None => Datatypes.inl (RExc 1)
      | Some u => Datatypes.inr (split_path_info_f u)
      end
    else Datatypes.inl (RExc 3)
  else Datatypes.inr (split_path_info_f s).

(* ResourceTreeTraverser.__call__, no route matched, root = DefaultRootFactory (no __getitem__): the first
   normalised segment is the view name ('@@' selector stripped), the others are request.subpath *)
Definition traversal_view_name (seg : text) : text :=
  if text_eqb (firstn 2 seg) traverser_view_selector then skipn 2 seg else seg.

(* ... `if VH_ROOT_KEY in environ: vroot_tuple = split_path_info(decode_path_info(environ[VH_ROOT_KEY]))`, then
   vpath_tuple = vroot_tuple + split_path_info(path): the request path is normalised on its own *)
Definition vroot_tuple (c : config) : sum resp (list text) :=
  match c_vroot c with
  | None => Datatypes.inr []
  | Some v => match decode v with
              | None => Datatypes.inl (RExc 2)              (* a plain UnicodeDecodeError *)
              | Some u => Datatypes.inr (split_path_info_f u)
              end
  end.

(* ------------------------------------------------------------ request.path_url *)
Definition path_url (c : config) (pi : text) : option text :=
  match decode pi with
  | None => None
  | Some s => Some (c_host c ++ quote (c_safe c) (encode s))
  end.

Definition with_url (c : config) (pi : text) (r : resp) : resp :=
  match path_url c pi with None => RExc 2 | Some _ => r end.

Definition redirect (rq : request) (u : text) : resp :=
  R301 (u ++ redirect_append ++ match r_qs rq with [] => [] | q => redirect_qs_sep ++ q end).

(* ------------------------------------------------------------ get_resource_name *)
Inductive rn_result := RNResp (r : resp) | RNName (n : text).

(* pkg_resources DefaultProvider._fn *)
Definition pkg_fn (base name : text) : text :=
  match name with [] => base | _ => pjoin_all base (split_on slash name) end.

(* add_static_view does not pass index=: the constructor default applies *)
Definition eff_index (c : config) : text := match c_mount c with 0 => default_index | _ => c_index c end.

Definition dir_or_redirect (c : config) (rq : request) (pi : text) (index_name : text) : rn_result :=
  match path_url c pi with
  | None => RNResp (RExc 2)
  | Some u => if endswith url_dir_suffix u then RNName index_name else RNResp (redirect rq u)
  end.

Definition get_resource_name (c : config) (rq : request) (pi : text) (fs : fsys)
           (path_tuple : list text) : M rn_result :=
  match secure_path path_tuple with
  | None => ret (RNResp (with_url c pi (R404 1)))
  | Some path =>
      if c_pkg c then
        let rp := rstrip_char (char1 pkg_rstrip) (c_docroot c) ++ pkg_fmt_sep ++ path in
        bind (stat fs (pkg_fn (c_modpath c) rp)) (fun e =>
          if is_dir e
          then ret (dir_or_redirect c rq pi (rstrip_char (char1 pkg_rstrip) rp ++ pkg_fmt_sep ++ eff_index c))
          else ret (RNName rp))
      else
        let rp := normpath (pjoin (normpath (c_docroot c)) path) in
        bind (stat fs rp) (fun e =>
          if is_dir e
          then ret (dir_or_redirect c rq pi (pjoin rp (eff_index c)))
          else ret (RNName rp))
  end.

(* ------------------------------------------------------------ get_possible_files *)
Definition os_path (c : config) (name : text) : text :=
  if c_pkg c then pkg_fn (c_modpath c) name else name.

(* _compile_content_encodings: dict encoding -> [extensions], insertion ordered *)
Fixpoint compile_add (res : list (text * list text)) (e ext : text) : list (text * list text) :=
  match res with
  | [] => [(e, [ext])]
  | (e', xs) :: r => if text_eqb e e' then (e', xs ++ [ext]) :: r else (e', xs) :: compile_add r e ext
  end.

Definition compile_encodings (encs : list text) (encmap : list (text * text)) : list (text * list text) :=
  fold_left (fun res p => if mem_text (snd p) encs then compile_add res (snd p) (fst p) else res) encmap [].

Definition cand := (text * option text)%type.

Definition candidates (c : config) (name : text) : list cand :=
  (name, None) ::
  flat_map (fun p => map (fun ext => (name ++ ext, Some (fst p))) (snd p))
           (compile_encodings (c_encs c) (c_encmap c)).

Fixpoint probe (c : config) (fs : fsys) (cands : list cand) : M (list cand) :=
  match cands with
  | [] => ret []
  | (n, e) :: r =>
      bind (stat fs (os_path c n)) (fun st =>
      bind (probe c fs r) (fun found =>
      ret (if exists_ st then (os_path c n, e) :: found else found)))
  end.

(* result.sort(key=lambda x: getsize(x[0])): keys first, in list order; stable *)
Fixpoint sizes (fs : fsys) (l : list cand) : M (list (N * cand)) :=
  match l with
  | [] => ret []
  | f :: r => bind (stat fs (fst f)) (fun st => bind (sizes fs r) (fun ks => ret ((entry_size st, f) :: ks)))
  end.

Fixpoint insert_by (x : N * cand) (l : list (N * cand)) : list (N * cand) :=
  match l with
  | [] => [x]
  | y :: r => if fst x <=? fst y then x :: l else y :: insert_by x r
  end.
Definition sort_by (l : list (N * cand)) : list (N * cand) := fold_right insert_by [] l.

(* ------------------------------------------------------------ find_best_match *)
Definition acceptable (rq : request) (enc : option text) : bool :=
  match enc with None => true | Some e => mem_text e (r_ae_ok rq) end.
Definition is_identity (f : cand) : bool := match snd f with None => true | Some _ => false end.

Definition best_match (rq : request) (files : list cand) : option cand :=
  if r_ae rq then find (fun f => acceptable rq (snd f)) files
  else match find is_identity files with Some f => Some (fst f, None) | None => None end.

(* ------------------------------------------------------------ FileResponse *)
Definition file_response (fs : fsys) (p : text) (enc : option text) (vary : bool) : M resp :=
  bind (stat fs p) (fun st1 =>                       (* getmtime *)
  match st1 with
  | None => ret (RExc 5)
  | Some _ =>
      bind (stat fs p) (fun st =>                    (* getsize *)
      (match st with
       | Some (EFile _ body) => R200 body enc vary
       | Some (EDir _) => RExc 4
       | None => RExc 5
       end, [(1, p)]))                               (* open(path, 'rb') *)
  end).

(* ------------------------------------------------------------ static_view.filemap *)
Definition filemap := list (text * list cand).
Fixpoint fm_get (m : filemap) (k : text) : option (list cand) :=
  match m with
  | [] => None
  | (k', v) :: r => if text_eqb k k' then Some v else fm_get r k
  end.

(* the uncached part of get_possible_files *)
Definition compute_files (c : config) (fs : fsys) (name : text) : M (list cand) :=
  bind (probe c fs (candidates c name)) (fun found =>
  bind (sizes fs found) (fun keyed => ret (map snd (sort_by keyed)))).

Definition possible_files (c : config) (fs : fsys) (fm : filemap) (name : text) : M (list cand * filemap) :=
  match fm_get fm name with
  | Some files => ret (files, fm)
  | None => bind (compute_files c fs name) (fun files =>
            ret (files, if c_reload c then fm else (name, files) :: fm))
  end.

(* ------------------------------------------------------------ static_view.__call__ *)
Definition serve (c : config) (rq : request) (pi : text) (fs : fsys) (fm : filemap)
           (path_tuple : list text) : M (resp * filemap) :=
  bind (get_resource_name c rq pi fs path_tuple) (fun rn =>
  match rn with
  | RNResp r => ret (r, fm)
  | RNName name =>
      bind (possible_files c fs fm name) (fun ff =>
      let files := fst ff in
      match best_match rq files with
      | None => ret (with_url c pi (R404 2), snd ff)
      | Some (p, enc) => bind (file_response fs p enc (Nat.ltb 1 (length files))) (fun r => ret (r, snd ff))
      end)
  end).

Definition serve_path_info (c : config) (rq : request) (pi : text) (fs : fsys) (fm : filemap) : M (resp * filemap) :=
  match view_tuple pi with
  | Datatypes.inl r => ret (r, fm)
  | Datatypes.inr t => serve c rq pi fs fm t
  end.

(* the whole request: WSGI server (unquote once) -> router -> view *)
Definition subpath_key : text := [115; 117; 98; 112; 97; 116; 104]%N.   (* "subpath": request.subpath *)

Definition run_request_core (c : config) (fs : fsys) (fm : filemap) (rq : request) : M (resp * filemap) :=
  let pi := unquote (r_raw rq) in
  match c_mount c with
  | 0 | 1 =>
      match decode pi with
      | None => ret (RExc 1, fm)                              (* RoutesMapper: URLDecodeError *)
      | Some p0 =>
          let p := match p0 with [] => [slash] | _ => p0 end in  (* request.path_info or '/' *)
          match route_match (route_prefix c) p with
          | None => ret (R404 0, fm)
          | Some rest =>
              let star := match c_mount c with 0 => static_route_star | _ => subpath_key end in
              let sub := if text_eqb star traverser_subpath_key then split_path_info_f rest else [] in
              let by_subpath := match c_mount c with 0 => static_use_subpath | _ => true end in
              if by_subpath then serve c rq pi fs fm sub else serve_path_info c rq pi fs fm
          end
      end
  | 2 => serve_path_info c rq pi fs fm
  | 4 =>
      match decode pi with
      | None => ret (RExc 1, fm)                              (* RoutesMapper: URLDecodeError *)
      | Some p0 =>
          let p := match p0 with [] => [slash] | _ => p0 end in
          match route_match_ph (route_prefix c) p with
          | None => ret (R404 0, fm)
          | Some rest =>
              match traverser_tuple rest with
              | Datatypes.inl r => ret (r, fm)
              | Datatypes.inr t => serve c rq pi fs fm t
              end
          end
      end
  | 5 =>
      match decode pi with
      | None => ret (RExc 1, fm)                              (* RoutesMapper / traverser: URLDecodeError *)
      | Some p0 =>
          let p := match p0 with [] => [slash] | _ => p0 end in
          match vroot_tuple c with
          | Datatypes.inl r => ret (r, fm)
          | Datatypes.inr vt =>
              match vt ++ split_path_info_f p with
              | [] => ret (R404 0, fm)                        (* view name '': no such view *)
              | seg :: rest =>
                  if text_eqb (traversal_view_name seg) (c_name c) then serve c rq pi fs fm rest
                  else ret (R404 0, fm)
              end
          end
      end
  | 6 =>
      match decode pi with
      | None => ret (RExc 1, fm)
      | Some p0 =>
          let p := match p0 with [] => [slash] | _ => p0 end in
          match route_match_seg (route_prefix c) p with
          | None => ret (R404 0, fm)
          | Some rest =>
              match traverser_tuple rest with
              | Datatypes.inl r => ret (r, fm)
              | Datatypes.inr t => serve c rq pi fs fm t
              end
          end
      end
  | _ => serve c rq pi fs fm (r_subpath rq)
  end.

(* HTTP_X_VHM_ROOT and the mountings that go through a ROUTE (0, 1, 4, 6).  Whether or not the route matched, the
   traverser decodes the header (a plain UnicodeDecodeError when it cannot) and, the default root having no children, takes
   the first segment of the virtual root as the VIEW NAME; the route's static view is registered under the empty name, so
   it is found only when that name is '' (no segment, or '@@' alone).  With no route matched nothing is registered at all:
   404.  [run_request_core] is the request without the header; the gate is evaluated only when PATH_INFO is decodable
   (the routes mapper raises URLDecodeError before the traverser runs).  Under a flipped traverser_str_decodes_again the
   order of the two decoding errors of mountings 4 / 6 is not followed *)
Definition empty_text (t : text) : bool := match t with [] => true | _ => false end.

(* what the traverser's early return does to a route-mounted view: no virtual-root segment -> nothing; first segment
   names a view other than '' -> that view does not exist; first segment is the bare selector '@@' (view name '') -> the
   route's view IS found, but request.subpath is the REST OF THE VIRTUAL ROOT (vpath_tuple[i+1:]), not the route's
   *subpath / {subpath}: every URL of the route then serves the same thing *)
Inductive gate := GPass | GNoView | GOverride (tail : list text).

Definition vroot_gate (c : config) : sum resp gate :=
  match vroot_tuple c with
  | Datatypes.inl r => Datatypes.inl r
  | Datatypes.inr [] => Datatypes.inr GPass
  | Datatypes.inr (seg :: rest) =>
      Datatypes.inr (if empty_text (traversal_view_name seg) then GOverride rest else GNoView)
  end.

Definition routed_by_route (m : N) : bool := match m with 0 | 1 | 4 | 6 => true | _ => false end.

Definition is_some {A} (o : option A) : bool := match o with Some _ => true | None => false end.

Definition route_matches (c : config) (p0 : text) : bool :=
  let p := match p0 with [] => [slash] | _ => p0 end in
  match c_mount c with
  | 0 | 1 => is_some (route_match (route_prefix c) p)
  | 4 => is_some (route_match_ph (route_prefix c) p)
  | 6 => is_some (route_match_seg (route_prefix c) p)
  | _ => false
  end.

Definition run_request (c : config) (fs : fsys) (fm : filemap) (rq : request) : M (resp * filemap) :=
  if routed_by_route (c_mount c)
  then match decode (unquote (r_raw rq)) with
       | None => run_request_core c fs fm rq
       | Some p0 => match vroot_gate c with
                    | Datatypes.inl r => ret (r, fm)
                    | Datatypes.inr GPass => run_request_core c fs fm rq
                    | Datatypes.inr GNoView => ret (R404 0, fm)
                    | Datatypes.inr (GOverride t) =>
                        if route_matches c p0 then serve c rq (unquote (r_raw rq)) fs fm t else ret (R404 0, fm)
                    end
       end
  else run_request_core c fs fm rq.

(* successive requests handled by one view instance (one filemap) *)
Fixpoint run_requests (c : config) (fs : fsys) (fm : filemap) (rqs : list request) : list (resp * logt) :=
  match rqs with
  | [] => []
  | rq :: r => let '((res, fm'), log) := run_request c fs fm rq in (res, log) :: run_requests c fs fm' r
  end.

Definition run_model (c : config) (fs : fsys) (rqs : list request) : list (resp * logt) :=
  run_requests c fs [] rqs.

(* several view instances in one process, requests interleaved.  static_view.__init__ does
   `self.filemap = {}`: the filemap is per-instance state (regenerated fact; were it shared,
   every instance would read and write slot 0) *)
Definition dflt_cfg : config := mkConfig 3 [] false [] [] [] [] [] [] [] false None.

Fixpoint set_nth {A} (n : nat) (x : A) (l : list A) : list A :=
  match n, l with
  | O, _ :: r => x :: r
  | S k, y :: r => y :: set_nth k x r
  | _, [] => []
  end.

Fixpoint run_multi (cs : list config) (fs : fsys) (fms : list filemap) (rqs : list (nat * request))
  : list (resp * logt) :=
  match rqs with
  | [] => []
  | (i, rq) :: r =>
      let j := if filemap_per_instance then i else O in
      let '((res, fm'), log) := run_request (nth i cs dflt_cfg) fs (nth j fms []) rq in
      (res, log) :: run_multi cs fs (set_nth j fm' fms) r
  end.

Definition run_multi_model (cs : list config) (fs : fsys) (rqs : list (nat * request)) : list (resp * logt) :=
  run_multi cs fs (map (fun _ => []) cs) rqs.

(* ------------------------------------------------------------ declarative specification *)
(* outcome the property allows; S200: the allowed (content, encoding label) pairs *)
Inductive spec_out :=
| SReject                      (* undecodable request path: a Unicode decode error *)
| S404
| S301 (loc : text)
| S200 (allowed : list (text * option text))
| SUnspec.                     (* the designated name or a variant is a directory: the property is silent *)

Definition seg_ok (s : text) : bool := normal_segb s && negb (memN 0 s).

Definition spec_prefix (c : config) : text :=
  match c_mount c with
  | 0 | 4 | 6 => [slash] ++ c_name c ++ [slash]
  | 1 => [slash]
  | _ => []
  end.

(* '@@name' selects the view [name] explicitly (Pyramid's view selector) *)
Definition at_sign : N := 64.
Definition spec_view_name (seg : text) : text :=
  match seg with
  | a :: b :: r => if (a =? at_sign) && (b =? at_sign) then r else seg
  | _ => seg
  end.

(* None: not decodable.  Some None: not below this mount point, or a segment
   that can never name a file below the root.  Some (Some segs): the
   normalised path *)
Definition spec_segments (c : config) (rq : request) : option (option (list text)) :=
  match c_mount c with
  | 0 | 1 | 2 =>
      match decode (unquote (r_raw rq)) with
      | None => None
      | Some p0 =>
          let p := match p0 with [] => [slash] | _ => p0 end in
          match strip_prefix (spec_prefix c) p with
          | None => Some None
          | Some rest =>
              let segs := split_path_info rest in
              if forallb seg_ok segs then Some (Some segs) else Some None
          end
      end
  | 4 =>
      (* a route whose pattern is '/name/{subpath:.*}': its URLs are '/name/' + any text without a line feed *)
      match decode (unquote (r_raw rq)) with
      | None => None
      | Some p0 =>
          let p := match p0 with [] => [slash] | _ => p0 end in
          match strip_prefix (spec_prefix c) p with
          | None => Some None
          | Some rest =>
              if memN 10 rest then Some None
              else let segs := split_path_info rest in
                   if forallb seg_ok segs then Some (Some segs) else Some None
          end
      end
  | 5 =>
      (* a view named [name] found by traversal: the first normalised segment (an optional '@@' removed) is the
         name, the others designate the file *)
      match decode (unquote (r_raw rq)) with
      | None => None
      | Some p0 =>
          match (match c_vroot c with None => Some [] | Some v => decode v end) with
          | None => None                                   (* undecodable virtual root: a Unicode decode error *)
          | Some v =>
              (* the virtual root the proxy announces is a prefix of every path; '..' of the request cannot eat it *)
              match split_path_info v ++ split_path_info p0 with
              | [] => Some None
              | seg :: segs =>
                  if text_eqb (spec_view_name seg) (c_name c)
                  then (if forallb seg_ok segs then Some (Some segs) else Some None)
                  else Some None
              end
          end
      end
  | 6 =>
      (* a route whose pattern is '/name/{subpath}': its URLs are '/name/' + one non-empty piece without '/' *)
      match decode (unquote (r_raw rq)) with
      | None => None
      | Some p0 =>
          let p := match p0 with [] => [slash] | _ => p0 end in
          match strip_prefix (spec_prefix c) p with
          | None => Some None
          | Some rest =>
              match rest with
              | [] => Some None
              | _ => if memN slash rest then Some None
                     else let segs := split_path_info rest in
                          if forallb seg_ok segs then Some (Some segs) else Some None
              end
          end
      end
  | _ => Some (if forallb seg_ok (r_subpath rq) then Some (r_subpath rq) else None)
  end.

(* the directory the view is confined to, as components *)
Definition spec_root (c : config) : list text :=
  os_resolve (if c_pkg c then c_modpath c ++ [slash] ++ c_docroot c else c_docroot c).

Definition append_ext (target : list text) (ext : text) : list text :=
  removelast target ++ [last target [] ++ ext].

Definition spec_candidates (c : config) (target : list text) : list (list text * option text) :=
  (target, None) ::
  flat_map (fun p => if mem_text (snd p) (c_encs c) then [(append_ext target (fst p), Some (snd p))] else [])
           (c_encmap c).

Definition spec_acceptable (rq : request) (enc : option text) : bool :=
  match enc with None => true | Some e => r_ae rq && mem_text e (r_ae_ok rq) end.

Definition content_of (o : option entry) : text := match o with Some (EFile _ b) => b | _ => [] end.

Definition spec_serve (c : config) (rq : request) (fs : fsys) (target : list text) : spec_out :=
  let live := filter (fun ce => exists_ (walk fs [] (fst ce)) && spec_acceptable rq (snd ce))
                     (spec_candidates c target) in
  match live with
  | [] => S404
  | _ =>
      if existsb (fun ce => is_dir (walk fs [] (fst ce))) live then SUnspec
      else
        let size ce := entry_size (walk fs [] (fst ce)) in
        let minimal ce := forallb (fun ce' => size ce <=? size ce') live in
        S200 (map (fun ce => (content_of (walk fs [] (fst ce)), snd ce)) (filter minimal live))
  end.

(* what the property demands once the normalised segments are known; [decoded] is the
   decoded request path (it decides between index file and add-slash redirect) *)
Definition spec_tail (c : config) (rq : request) (fs : fsys) (decoded : option text) (segs : list text) : spec_out :=
  let target := spec_root c ++ segs in
  match walk fs [] target with
  | Some (EDir _) =>
      match decoded with
      | None => SReject
      | Some p =>
          if ends_with slash p then spec_serve c rq fs (target ++ [eff_index c])
          else S301 (c_host c ++ quote (c_safe c) (encode p) ++ [slash] ++
                     match r_qs rq with [] => [] | q => [63] ++ q end)
      end
  | _ => spec_serve c rq fs target
  end.

Definition spec_response_core (c : config) (rq : request) (fs : fsys) : spec_out :=
  match spec_segments c rq with
  | None => SReject
  | Some None => S404
  | Some (Some segs) => spec_tail c rq fs (decode (unquote (r_raw rq))) segs
  end.

(* a route-mounted static view below a virtual root announced by the proxy: the virtual root's first segment names the
   view Pyramid looks for, so the route's (unnamed) view answers only when that name is empty; otherwise 404.  An
   undecodable header is a Unicode decode error *)
Inductive sgate := SPass | SNoView | SSilent.

Definition spec_gate (c : config) : option sgate :=
  match c_vroot c with
  | None => Some SPass
  | Some v => match decode v with
              | None => None
              | Some u => match split_path_info u with
                          | [] => Some SPass
                          | seg :: _ => Some (if empty_text (spec_view_name seg) then SSilent else SNoView)
                          end
              end
  end.

(* a virtual root whose first segment is the bare view selector '@@' is not a path prefix of anything: the property is
   taken to say nothing about which file such a deployment designates (the code serves the rest of the virtual root for
   every URL of the route -- confined to the root all the same: the containment theorems do not exempt it) *)
Definition spec_response (c : config) (rq : request) (fs : fsys) : spec_out :=
  if routed_by_route (c_mount c)
  then match decode (unquote (r_raw rq)) with
       | None => spec_response_core c rq fs
       | Some _ => match spec_gate c with
                   | None => SReject
                   | Some SNoView => S404
                   | Some SSilent => SUnspec
                   | Some SPass => spec_response_core c rq fs
                   end
       end
  else spec_response_core c rq fs.

Definition opt_text_eqb (a b : option text) : bool :=
  match a, b with
  | None, None => true
  | Some x, Some y => text_eqb x y
  | _, _ => false
  end.

Definition conforms (r : resp) (s : spec_out) : bool :=
  match s with
  | SUnspec => true
  | SReject => match r with RExc 1 | RExc 2 => true | _ => false end
  | S404 => match r with R404 _ => true | _ => false end
  | S301 l => match r with R301 l' => text_eqb l l' | _ => false end
  | S200 allowed =>
      match r with
      | R200 body enc _ => existsb (fun a => text_eqb (fst a) body && opt_text_eqb (snd a) enc) allowed
      | _ => false
      end
  end.

(* what _secure_path must compute *)
Definition spec_secure (t : list text) : option text :=
  if forallb seg_ok t then Some (join [slash] t) else None.

(* every path the run hands to the file system lies at or below the root *)
Fixpoint strip_prefix_comps (pre l : list text) : option (list text) :=
  match pre, l with
  | [], _ => Some l
  | x :: pre', y :: l' => if text_eqb x y then strip_prefix_comps pre' l' else None
  | _ :: _, [] => None
  end.

(* absolute, NUL-free, made of plain names only (so that lexical resolution is
   what the operating system does), and below the root *)
Definition plain_comp (s : text) : bool := match s with [] => true | _ => normal_segb s end.

Definition beneath (root : list text) (p : text) : bool :=
  startswith [slash] p && negb (memN 0 p) && forallb plain_comp (split_on slash p) &&
  match strip_prefix_comps root (os_resolve p) with Some _ => true | None => false end.

Definition contained (c : config) (l : logt) : bool := forallb (fun e => beneath (spec_root c) (snd e)) l.

(* ------------------------------------------------------------ configuration time: which directory is the root *)
(* What the application writes (root_dir= / path=, package_name=), the package of the module that creates the view
   (caller_package(); for add_static_view: the Configurator's package) and pkg_resources' package directories are
   the inputs; static_view.__init__ (through asset.resolve_asset_spec), Configurator._make_spec and StaticURLInfo.add
   turn them into self.package_name / self.docroot. *)
Definition colon : N := 58.

Fixpoint split_once (ch : N) (s : text) : option (text * text) :=
  match s with
  | [] => None
  | x :: r => if x =? ch then Some ([], r)
              else match split_once ch r with Some (a, b) => Some (x :: a, b) | None => None end
  end.

(* asset.resolve_asset_spec(spec, pname) *)
Definition resolve_asset_spec (spec : text) (pname : option text) : option text * text :=
  if startswith [slash] spec then (None, spec)                 (* os.path.isabs *)
  else match split_once colon spec with
       | Some (p, f) => (Some p, f)                            (* spec.split(':', 1) *)
       | None => (pname, spec)
       end.

(* Configurator._make_spec(path): absolute file name or 'package:filename' *)
Definition make_spec (path cfg_pkg : text) : text :=
  match resolve_asset_spec path (Some cfg_pkg) with
  | (None, f) => f
  | (Some p, f) => p ++ [colon] ++ f
  end.

(* StaticURLInfo.add: the separator is appended unless the spec ends with it or with ':' *)
Definition static_add_spec (spec : text) : text :=
  if ends_with slash spec || ends_with colon spec then spec else spec ++ [slash].

(* static_view.__init__: (self.package_name, self.docroot) *)
Definition init_root (root_dir : text) (pname_kw : option text) (caller : text) : option text * text :=
  resolve_asset_spec root_dir (Some (match pname_kw with None => caller | Some p => p end)).

Record setup := mkSetup {
  s_root : text;                  (* root_dir= of static_view / path= of add_static_view, as written *)
  s_pname : option text;          (* package_name= of static_view *)
  s_caller : text;                (* __name__ of the package whose module creates the view (of the Configurator's package) *)
  s_mods : list (text * text);    (* package name -> its directory (pkg_resources module_path) *)
  s_base : config                 (* everything else; its c_pkg / c_docroot / c_modpath are overwritten *)
}.

Fixpoint mod_lookup (mods : list (text * text)) (p : text) : text :=
  match mods with
  | [] => []
  | (k, v) :: r => if text_eqb p k then v else mod_lookup r p
  end.

(* "pyramid.config": the package of the module (config/views.py) that instantiates the view for add_static_view *)
Definition pyramid_config_pkg : text := [112; 121; 114; 97; 109; 105; 100; 46; 99; 111; 110; 102; 105; 103].

Definition view_root (s : setup) : option text * text :=
  match c_mount (s_base s) with
  | 0 => init_root (static_add_spec (make_spec (s_root s) (s_caller s))) None pyramid_config_pkg
  | _ => init_root (s_root s) (s_pname s) (s_caller s)
  end.

Definition with_root (c : config) (pkg : bool) (docroot modpath : text) : config :=
  mkConfig (c_mount c) (c_name c) pkg docroot modpath (c_index c) (c_encs c) (c_encmap c) (c_host c) (c_safe c)
           (c_reload c) (c_vroot c).

(* the view instance as the code builds it; `if self.package_name:` is truthiness *)
Definition configure (s : setup) : config :=
  match view_root s with
  | (Some (x :: p), docroot) => with_root (s_base s) true docroot (mod_lookup (s_mods s) (x :: p))
  | (_, docroot) => with_root (s_base s) false docroot []
  end.

(* declaratively, by the form of what was written: an absolute path is the root; 'pkg:dir' is dir inside the
   directory of pkg; anything else is relative to the directory of package_name= or, without it, of the package that
   creates the view *)
Definition eff_pname (s : setup) : text :=
  match c_mount (s_base s) with
  | 0 => s_caller s
  | _ => match s_pname s with Some p => p | None => s_caller s end
  end.

(* None: the root is the absolute path written; Some (package, dir): dir inside the directory of that package *)
Definition designated_parts (s : setup) : option (text * text) :=
  if startswith [slash] (s_root s) then None
  else match split_once colon (s_root s) with
       | Some (p, d) => Some (p, d)
       | None => Some (eff_pname s, s_root s)
       end.

Definition designated_dir (s : setup) : text :=
  match designated_parts s with
  | None => s_root s
  | Some (p, d) => mod_lookup (s_mods s) p ++ [slash] ++ d
  end.

(* the configuration the SPECIFICATION is evaluated with: the root is the designated directory *)
Definition spec_config (s : setup) : config := with_root (s_base s) false (designated_dir s) [].

(* ------------------------------------------------------------ wire glue *)
Definition get_pair (v : val) : option (text * text) :=
  match v with VL [VT a; VT b] => Some (a, b) | _ => None end.

Definition get_opt_text (v : val) : option (option text) :=
  match v with VL [] => Some None | VL [VT t] => Some (Some t) | _ => None end.

Definition get_setup (v : val) : option setup :=
  match v with
  | VL [m; name; root; pname; caller; mods; index; encs; encmap; host; safe; reload; vroot] =>
      olet m := get_N m in olet name := get_text name in olet root := get_text root in
      olet pname := get_opt_text pname in olet caller := get_text caller in
      olet mods := get_list_of get_pair mods in
      olet index := get_text index in olet encs := get_texts encs in
      olet encmap := get_list_of get_pair encmap in olet host := get_text host in
      olet safe := get_text safe in olet reload := get_bool reload in olet vroot := get_opt_text vroot in
      Some (mkSetup root pname caller mods (mkConfig m name false [] [] index encs encmap host safe reload vroot))
  | _ => None
  end.

Definition get_request (v : val) : option (nat * request) :=
  match v with
  | VL [inst; raw; sub; qs; ae; ok] =>
      olet inst := get_nat inst in
      olet raw := get_text raw in olet sub := get_texts sub in olet qs := get_text qs in
      olet ae := get_bool ae in olet ok := get_texts ok in
      Some (inst, mkReq raw sub qs ae ok)
  | _ => None
  end.

Definition get_entry (v : val) : option (list text * entry) :=
  match v with
  | VL [k; VI 1%Z; sz; VT body] => olet k := get_texts k in olet sz := get_N sz in Some (k, EFile sz body)
  | VL [k; VI 2%Z; sz; VT _] => olet k := get_texts k in olet sz := get_N sz in Some (k, EDir sz)
  | _ => None
  end.

Definition put_resp (r : resp) : val :=
  match r with
  | RExc k => VL [VI 0; vN k]
  | R404 k => VL [VI 404; vN k]
  | R301 l => VL [VI 301; VT l]
  | R200 b e v => VL [VI 200; VT b; vopt VT e; vbool v]
  end.

Definition put_log (l : logt) : val := VL (map (fun e => VL [vN (fst e); VT (snd e)]) l).

Definition put_spec (s : spec_out) : val :=
  match s with
  | SReject => VL [VI 1]
  | S404 => VL [VI 404]
  | S301 l => VL [VI 301; VT l]
  | S200 a => VL [VI 200; VL (map (fun x => VL [VT (fst x); vopt VT (snd x)]) a)]
  | SUnspec => VL [VI 0]
  end.

(* case = [configs (one per view instance); requests [instance; ...]; fs]
   answer = [ [model response; model trace; spec; conforms(model, spec); contained(trace)] per request, each judged
              against the configuration of its own instance;
              secure_path of the last request's subpath; spec_secure of it ] *)
Definition last_subpath (rqs : list (nat * request)) : list text :=
  match rev rqs with (_, rq) :: _ => r_subpath rq | [] => [] end.

(* Lib/Utf8 against CPython: every sequence prefix ++ suffix with |suffix| = n; for each
   accepted sequence the suffix, the code points, and whether re-encoding gives the bytes back *)
Definition all_bytes : list N := map N.of_nat (seq 0 256).
Fixpoint suffixes (n : nat) : list (list N) :=
  match n with
  | O => [[]]
  | S k => flat_map (fun b => map (cons b) (suffixes k)) all_bytes
  end.
Definition utf8_sweep (prefix : text) (n : nat) : val :=
  VL (flat_map (fun suf =>
        match decode (prefix ++ suf) with
        | None => []
        | Some cs => [VL [VT suf; VT cs; vbool (text_eqb (encode cs) (prefix ++ suf))]]
        end) (suffixes n)).

Definition run_C16 (v : val) : val :=
  ret_or_bad (
    match v with
    | VL [VI 1%Z; VT prefix; VI n] => Some (utf8_sweep prefix (Z.to_nat n))
    | VL [cs; r; f] =>
        olet ss := get_list_of get_setup cs in olet rqs := get_list_of get_request r in
        olet fs := get_list_of get_entry f in
        let cs := map configure ss in                 (* the instances as the code builds them *)
        let scs := map spec_config ss in              (* the specification: root = the designated directory *)
        let outs := run_multi_model cs fs rqs in
        let one (x : (nat * request) * (resp * logt)) :=
          let '((i, rq), (res, log)) := x in
          let c := nth i scs dflt_cfg in
          let sp := spec_response c rq fs in
          VL [put_resp res; put_log log; put_spec sp; vbool (conforms res sp); vbool (contained c log)] in
        Some (VL [VL (map one (combine rqs outs));
                  vopt VT (secure_path (last_subpath rqs)); vopt VT (spec_secure (last_subpath rqs))])
    | _ => None
    end).
