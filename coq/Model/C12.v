(* C12 -- CSRF checks: pyramid/csrf.py (whole), viewderivers.csrf_view,
   util.is_same_domain / strings_differ / bytes_, settings.aslist,
   config.security.set_default_csrf_options (argument defaults), and the
   fragments of WebOb (environ headers, host / domain / host_port, POST
   multidict lookup) and urllib.parse.urlsplit (scheme, netloc, ValueError
   cases) the checks depend on.  Executable definitions only.

   The three pending repairs are PARAMETERS of the model ([params]), whose
   values are regenerated facts: whether check_csrf_origin copies a caller's
   list, whether tokens are compared as UTF-8 bytes, whether a ValueError of
   urlparse is caught.  The same model is therefore faithful to the repaired
   and to the unrepaired tree. *)
From Coq Require Import List NArith ZArith Bool.
Import ListNotations.
Require Import Verif.Lib.Wire Verif.Lib.Text Verif.Lib.Utf8 Verif.Gen.Facts_C12.
Open Scope N_scope.

(* ------------------------------------------------------------------ basics *)
Definition is_empty (t : text) : bool := match t with [] => true | _ => false end.

Fixpoint lookup (k : text) (l : list (text * text)) : option text :=
  match l with
  | [] => None
  | (k', v) :: r => if text_eqb k k' then Some v else lookup k r
  end.
(* webob MultiDict.__getitem__: the LAST item with that key *)
Definition lookup_last (k : text) (l : list (text * text)) : option text := lookup k (rev l).

Fixpoint lookup_b (k : text) (l : list (text * bool)) : option bool :=
  match l with
  | [] => None
  | (k', v) :: r => if text_eqb k k' then Some v else lookup_b k r
  end.

Definition or_empty (o : option text) : text := match o with Some t => t | None => [] end.

(* str.upper / str.lower restricted to ASCII (assumption: header names and
   trusted-origin patterns only contain characters whose case mapping is the ASCII one) *)
Definition upper1 (c : N) : N := if (97 <=? c) && (c <=? 122) then c - 32 else c.
Definition lower1 (c : N) : N := if (65 <=? c) && (c <=? 90) then c + 32 else c.
Definition upper (s : text) : text := map upper1 s.
Definition lower (s : text) : text := map lower1 s.
Definition replace_char (a b : N) (s : text) : text := map (fun c => if c =? a then b else c) s.

Fixpoint drop_while (f : N -> bool) (s : text) : text :=
  match s with [] => [] | c :: r => if f c then drop_while f r else s end.
Fixpoint take_while (f : N -> bool) (s : text) : text :=
  match s with [] => [] | c :: r => if f c then c :: take_while f r else [] end.

(* i = s.find(c);  (s[:i], s[i+1:]) when found *)
Fixpoint cut_at (c : N) (s : text) : option (text * text) :=
  match s with
  | [] => None
  | x :: r => if x =? c then Some ([], r)
              else match cut_at c r with Some (a, b) => Some (x :: a, b) | None => None end
  end.

(* s.rsplit(c, 1) when c occurs in s: (before the last c, after it) *)
Definition rsplit1 (c : N) (s : text) : text * text :=
  match cut_at c (rev s) with
  | Some (a, b) => (rev b, rev a)
  | None => (s, [])
  end.

Definition last_char (s : text) : N := last s 0.
Definition endswith (s suffix : text) : bool := startswith (rev suffix) (rev s).

(* ------------------------------------------------------------------ request *)
Record request := mkReq {
  r_env : list (text * text);     (* the string-valued WSGI environ entries (unique keys) *)
  r_post : list (text * text);    (* request.POST.items() as WebOb parsed the body (oracle) *)
  r_query : list (text * text);   (* request.GET.items(): carried only to state that it is never read *)
  r_stored : option text;         (* token held by the storage (session key / csrf cookie); None = absent *)
  r_fresh : text;                 (* token the storage would generate now *)
  r_cb : bool;                    (* truth value of callback(request), when a callback is configured *)
  r_v6 : list (text * bool)       (* oracle: urllib's verdict on a bracketed host (ipaddress), by content *)
}.

Definition env_get (k : text) (r : request) : option text := lookup k (r_env r).

(* the same request with another query string *)
Definition with_query (r : request) (q : list (text * text)) : request :=
  mkReq (r_env r) (r_post r) q (r_stored r) (r_fresh r) (r_cb r) (r_v6 r).

(* the same request with another QUERY_STRING entry in the environ *)
Definition k_QUERY_STRING : text := [81; 85; 69; 82; 89; 95; 83; 84; 82; 73; 78; 71].
Definition with_query_string (r : request) (v : text) : request :=
  mkReq (map (fun kv => if text_eqb (fst kv) k_QUERY_STRING then (k_QUERY_STRING, v) else kv) (r_env r))
        (r_post r) (r_query r) (r_stored r) (r_fresh r) (r_cb r) (r_v6 r).

(* webob.headers._trans_name *)
Definition trans_name (name : text) : text :=
  let n := upper name in
  if text_eqb n lit_CONTENT_TYPE_hdr then lit_CONTENT_TYPE
  else if text_eqb n lit_CONTENT_LENGTH_hdr then lit_CONTENT_LENGTH
  else lit_HTTP_ ++ replace_char 45 95 n.

(* request.headers.get(name) *)
Definition header_get (name : text) (r : request) : option text := env_get (trans_name name) r.

Definition req_method (r : request) : text := or_empty (env_get lit_REQUEST_METHOD r).
Definition req_scheme (r : request) : text := or_empty (env_get lit_url_scheme r).

(* webob Request.host / .domain / .host_port *)
Definition req_host (r : request) : text :=
  match env_get lit_HTTP_HOST r with
  | Some h => h
  | None => or_empty (env_get lit_SERVER_NAME r) ++ [58] ++ or_empty (env_get lit_SERVER_PORT r)
  end.
Definition has_port (h : text) : bool := memN 58 h && negb (last_char h =? 93).
Definition req_domain (r : request) : text :=
  let h := req_host r in if has_port h then fst (rsplit1 58 h) else h.
Definition req_host_port (r : request) : text :=
  match env_get lit_HTTP_HOST r with
  | Some h => if has_port h then snd (rsplit1 58 h)
              else if text_eqb (req_scheme r) lit_https then lit_443 else lit_80
  | None => or_empty (env_get lit_SERVER_PORT r)
  end.

(* ------------------------------------------------------------------ urllib.parse.urlsplit, fragment *)
Inductive parsed := PUrl (scheme netloc : text) | PValueError | PUnmodelled.

Definition is_ascii_alpha (c : N) : bool :=
  ((65 <=? c) && (c <=? 90)) || ((97 <=? c) && (c <=? 122)).

Definition split_scheme (url : text) : text * text :=
  match cut_at 58 url with
  | Some (c0 :: pre, post) =>
      if is_ascii_alpha c0 && forallb (fun c => memN c url_scheme_chars) (c0 :: pre)
      then (lower (c0 :: pre), post) else ([], url)
  | _ => ([], url)
  end.

Definition netloc_delims : list N := [47; 63; 35].   (* '/?#' *)

(* _checknetloc: returns for an ASCII netloc; for other netlocs it raises only when the
   NFKC form contains one of '/?#@:', which no character below 256 produces (checked by
   the harness at start-up); netlocs with larger code points are outside the model *)
Definition checknetloc (scheme netloc : text) : parsed :=
  if forallb (fun c => c <? 256) netloc then PUrl scheme netloc else PUnmodelled.

Definition urlparse_m (v6 : list (text * bool)) (u : text) : parsed :=
  let url := filter (fun c => negb (memN c url_unsafe)) (drop_while (fun c => memN c url_c0) u) in
  let '(scheme, url) := split_scheme url in
  match url with
  | 47 :: 47 :: rest =>
      let netloc := take_while (fun c => negb (memN c netloc_delims)) rest in
      let hl := memN 91 netloc in
      let hr := memN 93 netloc in
      if xorb hl hr then PValueError
      else if hl && hr then
        let after := match cut_at 91 netloc with Some (_, a) => a | None => [] end in
        let content := take_while (fun c => negb (c =? 93)) after in
        match lookup_b content v6 with
        | Some true => checknetloc scheme netloc
        | Some false => PValueError
        | None => PUnmodelled
        end
      else checknetloc scheme netloc
  | _ => PUrl scheme []
  end.

(* named pieces of [urlparse_m], used to characterise it (Proofs/C12_url.v) *)
Definition url_prepare (u : text) : text :=
  filter (fun c => negb (memN c url_unsafe)) (drop_while (fun c => memN c url_c0) u).
(* the authority urlsplit cuts; None when the text after the scheme does not start with '//' *)
Definition url_netloc (u : text) : option text :=
  match snd (split_scheme (url_prepare u)) with
  | 47 :: 47 :: rest => Some (take_while (fun c => negb (memN c netloc_delims)) rest)
  | _ => None
  end.
Definition url_scheme (u : text) : text := fst (split_scheme (url_prepare u)).
Definition bracket_content (netloc : text) : text :=
  take_while (fun c => negb (c =? 93)) (match cut_at 91 netloc with Some (_, a) => a | None => [] end).

(* ------------------------------------------------------------------ util.is_same_domain *)
Definition is_same_domain (host pattern : text) : bool :=
  match pattern with
  | [] => false
  | _ =>
      let p := lower pattern in
      (text_eqb (firstn 1 p) dot && (endswith host p || text_eqb host (tl p))) || text_eqb p host
  end.

(* ------------------------------------------------------------------ settings.aslist *)
Fixpoint py_split (s cur : text) : list text :=
  match s with
  | [] => if is_empty cur then [] else [rev cur]
  | c :: r =>
      if memN c py_whitespace
      then (if is_empty cur then py_split r [] else rev cur :: py_split r [])
      else py_split r (c :: cur)
  end.
(* aslist(value): value a str (given as a one-element list) or a list of str *)
Definition aslist (v : list text) : list text := flat_map (fun s => py_split s []) v.

(* ------------------------------------------------------------------ parameters (pending repairs) *)
Record params := mkParams { p_copies : bool; p_utf8 : bool; p_catch : bool }.

Inductive storage := Legacy | Session | Cookie.

Definition storage_utf8 (s : storage) : bool :=
  match s with Legacy => enc_utf8_legacy | Session => enc_utf8_session | Cookie => enc_utf8_cookie end.

Definition the_params (s : storage) : params := mkParams copies_trusted (storage_utf8 s) catches_valueerror.

Inductive err := EUnicode | EValue | EUnmodelled.
Inductive reason := RMissing | RNull | RParse | RInsecure | RNoMatch.

(* ------------------------------------------------------------------ token check *)
(* bytes_(s, enc): None = UnicodeEncodeError *)
Definition encode_tok (utf8 : bool) (t : text) : option (list N) :=
  if utf8 then (if forallb valid_scalar t then Some (encode t) else None)
  else (if forallb (fun c => c <? 256) t then Some t else None).

Fixpoint bytes_eqb (a b : list N) : bool :=
  match a, b with
  | [], [] => true
  | x :: a', y :: b' => (x =? y) && bytes_eqb a' b'
  | _, _ => false
  end.

(* Python adds a truth value as an int: True = 1, False = 0 (used by the regenerated strings_differ) *)
Definition b2n (b : bool) : N := if b then 1 else 0.

(* util.strings_differ with hmac.compare_digest *)
Definition strings_differ (s1 s2 : list N) : bool :=
  let len_eq := Nat.eqb (length s1) (length s2) in
  let invalid_bits := if len_eq then 0 else 1 in
  let left := if len_eq then s1 else s2 in
  let right := s2 in
  negb ((invalid_bits + (if bytes_eqb left right then 0 else 1)) =? 0).

(* policy.get_csrf_token(request) *)
Definition expected_token (s : storage) (r : request) : text :=
  match s with
  | Legacy => match r_stored r with Some t => t | None => r_fresh r end            (* session: `is None` *)
  | _ => match r_stored r with Some t => if is_empty t then r_fresh r else t | None => r_fresh r end  (* `not token` *)
  end.

(* token lifecycle: get_csrf_token mints (new_csrf_token) exactly when the storage holds none *)
Definition token_absent (s : storage) (stored : option text) : bool :=
  match stored with
  | None => true
  | Some t => match s with Legacy => false | _ => is_empty t end
  end.
(* what the storage holds after get_csrf_token / check_csrf_token *)
Definition store_after_get (s : storage) (stored : option text) (fresh : text) : option text :=
  if token_absent s stored then Some fresh else stored.

(* the token read by check_csrf_token *)
Definition supplied_token (token header : option text) (r : request) : text :=
  let s0 := match header with
            | Some h => or_empty (header_get h r)
            | None => []
            end in
  if is_empty s0 then
    match token with
    | Some t => or_empty (lookup_last t (r_post r))
    | None => s0
    end
  else s0.

Inductive tverdict := TPass | TFail | TRaise (e : err).

Definition policy_check (utf8 : bool) (s : storage) (r : request) (supplied : text) : tverdict :=
  match encode_tok utf8 (expected_token s r), encode_tok utf8 supplied with
  | Some a, Some b => if strings_differ a b then TFail else TPass
  | _, _ => TRaise EUnicode
  end.

Definition check_csrf_token_p (pr : params) (s : storage) (token header : option text) (r : request) : tverdict :=
  policy_check (p_utf8 pr) s r (supplied_token token header r).

(* ------------------------------------------------------------------ origin check *)
Inductive overdict := OPass | OFail (why : reason) | ORaise (e : err).

Definition own_host (r : request) : text :=
  if mem_text (req_host_port r) std_ports
  then req_domain r
  else flat_map (fun p => match fst p with 0 => snd p | 1 => req_domain r | _ => req_host_port r end) own_format.

(* the origin the request claims: (text, taken from Referer?) *)
Definition claimed_origin (r : request) : option text * bool :=
  match header_get origin_header r with
  | None => (env_get lit_HTTP_REFERER r, true)
  | Some o =>
      let parts := split_on (hd 32 origin_sep) o in
      (Some (if origin_pick_last then last parts [] else hd [] parts), false)
  end.

(* check_csrf_origin(request, trusted_origins=caller, allow_no_origin=allow)
   -> verdict and the content of the caller's list afterwards *)
Definition check_csrf_origin_p (pr : params) (settings : list text) (caller : option (list text))
           (allow : bool) (r : request) : overdict * option (list text) :=
  if negb (text_eqb (req_scheme r) https_req) then (OPass, caller)
  else
    let '(origin, is_ref) := claimed_origin r in
    if is_empty (or_empty origin) then ((if allow then OPass else OFail RMissing), caller)
    else
      let origin := or_empty origin in
      let base := match caller with None => aslist settings | Some l => l end in
      let trusted := base ++ [own_host r] in
      let caller' := match caller with
                     | Some l => if p_copies pr then Some l else Some trusted
                     | None => None
                     end in
      if negb is_ref && text_eqb origin null_origin then
        ((if mem_text origin trusted then OPass else OFail RNull), caller')
      else
        match urlparse_m (r_v6 r) origin with
        | PValueError => ((if p_catch pr then OFail RParse else ORaise EValue), caller')
        | PUnmodelled => (ORaise EUnmodelled, caller')
        | PUrl scheme netloc =>
            if negb (text_eqb scheme https_origin) then (OFail RInsecure, caller')
            else if existsb (is_same_domain netloc) trusted then (OPass, caller')
            else (OFail RNoMatch, caller')
        end.

(* a sequence of checks sharing one caller-supplied list object *)
Fixpoint origin_history (pr : params) (settings : list text) (caller : option (list text)) (allow : bool)
         (rs : list request) : list overdict * option (list text) :=
  match rs with
  | [] => ([], caller)
  | r :: rest =>
      let '(v, c') := check_csrf_origin_p pr settings caller allow r in
      let '(vs, c'') := origin_history pr settings c' allow rest in
      (v :: vs, c'')
  end.

(* the same, the settings in force possibly differing from check to check (pyramid.csrf_trusted_origins is read from
   request.registry.settings when the request is checked, not when the view was derived) *)
Fixpoint origin_history_s (pr : params) (caller : option (list text)) (allow : bool)
         (rs : list (list text * request)) : list overdict * option (list text) :=
  match rs with
  | [] => ([], caller)
  | (s, r) :: rest =>
      let '(v, c') := check_csrf_origin_p pr s caller allow r in
      let '(vs, c'') := origin_history_s pr c' allow rest in
      (v :: vs, c'')
  end.

(* ------------------------------------------------------------------ configuration *)
(* an argument of set_default_csrf_options: None = not passed (signature default) *)
Record defaults := mkDefaults {
  d_require : option bool;
  d_token : option (option text);      (* Some None = token=None *)
  d_header : option (option text);
  d_safe : option (list text);
  d_check_origin : option bool;
  d_allow_no_origin : option bool;
  d_callback : bool                    (* a callback was passed *)
}.

Record config := mkConfig {
  c_explicit : option bool;            (* require_csrf view option: True / False / anything else *)
  c_defaults : option defaults;        (* None = set_default_csrf_options never called *)
  c_exception_only : bool;
  c_storage : storage;
  c_settings : list text;              (* pyramid.csrf_trusted_origins: [] absent, [s] a str, else a list *)
  c_defaults_first : bool              (* set_default_csrf_options is stated before add_view (flattened include order) *)
}.

(* The require_csrf view option exists at two levels: the view CLASS's __view_defaults__ (pyramid.view.view_defaults)
   and the add_view call.  config.views.viewdefaults merges them with `defaults.update(kw)`: whatever the call passes --
   an explicit None included -- replaces the class-level value.  A level: None = not given; Some None = given, but neither
   True nor False (None, 0, 1, '' ...: csrf_view only tests `is True` / `is not False`). *)
Definition level := option (option bool).
Definition explicit_of (cls call : level) : option bool :=
  match call with
  | Some v => v
  | None => match cls with Some v => v | None => None end
  end.

(* add_exception_view / add_notfound_view / add_forbidden_view: the API refuses a require_csrf argument and registers the
   view with require_csrf=False itself (documented: these views are not subject to automatic CSRF checking) *)
Definition special_explicit : option bool := Some false.

(* The options utility is read when the view is DERIVED, i.e. when add_view's action runs.  Actions run
   ordered by (order, statement position): the utility is there iff the directive's action sorts first. *)
Definition defaults_visible (stated_first : bool) : bool :=
  (sdc_order <? view_order)%Z || ((sdc_order =? view_order)%Z && stated_first).

(* the same configuration with the two statements in the other order *)
Definition with_defaults_first (c : config) (b : bool) : config :=
  mkConfig (c_explicit c) (c_defaults c) (c_exception_only c) (c_storage c) (c_settings c) b.

(* the same application while registry.settings holds another value of pyramid.csrf_trusted_origins *)
Definition with_settings (c : config) (s : list text) : config :=
  mkConfig (c_explicit c) (c_defaults c) (c_exception_only c) (c_storage c) s (c_defaults_first c).

(* what csrf_view reads *)
Record options := mkOptions {
  o_require : bool; o_token : option text; o_header : option text; o_safe : list text;
  o_check_origin : bool; o_allow_no_origin : bool; o_callback : bool
}.

Definition dflt {A} (o : option A) (d : A) : A := match o with Some a => a | None => d end.

Definition builtin_options : options :=
  mkOptions builtin_require (Some builtin_token) (Some builtin_header) builtin_safe
            builtin_check_origin builtin_allow_no_origin (negb builtin_callback_none).

(* the DefaultCSRFOptions object set_default_csrf_options registers: each argument as passed, else its signature default *)
Definition options_of_defaults (d : defaults) : options :=
  mkOptions (dflt (d_require d) sdc_require) (dflt (d_token d) (Some sdc_token))
            (dflt (d_header d) (Some sdc_header)) (dflt (d_safe d) sdc_safe)
            (dflt (d_check_origin d) sdc_check_origin)
            (dflt (d_allow_no_origin d) sdc_allow_no_origin) (d_callback d).

Definition effective (c : config) : options :=
  match c_defaults c with
  | None => builtin_options
  | Some d => if negb (defaults_visible (c_defaults_first c)) then builtin_options else options_of_defaults d
  end.

Definition truthy (o : option text) : bool := match o with Some (_ :: _) => true | _ => false end.

Definition is_true (o : option bool) : bool := match o with Some true => true | _ => false end.
Definition is_false (o : option bool) : bool := match o with Some false => true | _ => false end.

(* viewderivers.csrf_view: `enabled` *)
Definition csrf_enabled (c : config) : bool :=
  let o := effective c in
  (is_true (c_explicit c) || (negb (is_false (c_explicit c)) && o_require o && negb (c_exception_only c)))
  && (truthy (o_token o) || truthy (o_header o)).

Inductive outcome := Ran | BadOrigin (why : reason) | BadToken | Raised (e : err).

(* does the wrapper reach the checks for this request *)
Definition checks_apply (c : config) (r : request) : bool :=
  let o := effective c in
  csrf_enabled c && negb (mem_text (req_method r) (o_safe o)) && (negb (o_callback o) || r_cb r).

Definition callback_called (c : config) (r : request) : bool :=
  let o := effective c in
  csrf_enabled c && negb (mem_text (req_method r) (o_safe o)) && o_callback o.

Definition view_outcome_p (pr : params) (c : config) (r : request) : outcome :=
  let o := effective c in
  if checks_apply c r then
    let ov := if o_check_origin o
              then fst (check_csrf_origin_p pr (c_settings c) None (o_allow_no_origin o) r)
              else OPass in
    match ov with
    | OFail why => BadOrigin why
    | ORaise e => Raised e
    | OPass =>
        match check_csrf_token_p pr (c_storage c) (o_token o) (o_header o) r with
        | TPass => Ran
        | TFail => BadToken
        | TRaise e => Raised e
        end
    end
  else Ran.

Definition view_outcome (c : config) (r : request) : outcome := view_outcome_p (the_params (c_storage c)) c r.

(* ------------------------------------------------------------------ leaves used by the regenerated program
   (coq/Gen/Facts_C12_prog.v, harness/c12/translate.py): Python's None tests, the options utility as
   csrf_view finds it, the session object's own token methods, the outcome of a check as a truth value *)
Definition is_none (o : option text) : bool := match o with None => true | Some _ => false end.
Definition is_none_l (o : option (list text)) : bool := match o with None => true | Some _ => false end.
Definition or_nil (o : option (list text)) : list text := match o with Some l => l | None => [] end.
(* info.registry.queryUtility(IDefaultCSRFOptions) when the view is derived *)
Definition registered_options (c : config) : option options :=
  match c_defaults c with
  | None => None
  | Some d => if negb (defaults_visible (c_defaults_first c)) then None else Some (effective c)
  end.
Definition is_none_o (o : option options) : bool := match o with None => true | Some _ => false end.
Definition or_options (o : option options) : options := match o with Some x => x | None => builtin_options end.
(* pyramid.session CookieSession.get_csrf_token (`is None`) as seen through the held token *)
Definition session_token (st : option text) (fresh : text) : text := match st with Some t => t | None => fresh end.
Definition session_store (st : option text) (fresh : text) : option text := match st with Some t => Some t | None => Some fresh end.
(* `if not policy.check_csrf_token(..)`: the truth value, or the exception that propagates *)
Definition verdict_bool (v : tverdict) : option bool :=
  match v with TPass => Some true | TFail => Some false | TRaise _ => None end.
Definition verdict_error (v : tverdict) : tverdict := v.

(* ------------------------------------------------------------------ sequences of requests by several clients *)
(* Per-client state = the token its session / csrf cookie holds.  A request may carry the
   placeholder U+10FFFE as a header or form value, meaning "the token this client holds now"
   (the legitimate page echoing its token); [with_client_state] resolves it and installs the state. *)
Definition placeholder : text := [1114110].
Definition resolve_val (st : option text) (v : text) : text :=
  if text_eqb v placeholder then or_empty st else v.
Definition with_client_state (st : option text) (r : request) : request :=
  mkReq (map (fun kv => (fst kv, resolve_val st (snd kv))) (r_env r))
        (map (fun kv => (fst kv, resolve_val st (snd kv))) (r_post r))
        (r_query r) st (r_fresh r) (r_cb r) (r_v6 r).

(* policy.check_csrf_token (hence get_csrf_token) is reached *)
Definition token_stage_reached (pr : params) (c : config) (r : request) : bool :=
  let o := effective c in
  checks_apply c r &&
  (if o_check_origin o
   then match fst (check_csrf_origin_p pr (c_settings c) None (o_allow_no_origin o) r) with OPass => true | _ => false end
   else true).

(* session / cookie changes reach the client only with a response: a BadCSRF* raised inside an
   exception view, and any other exception, leave the router as an exception *)
Definition response_produced (c : config) (out : outcome) : bool :=
  match out with
  | Ran => true
  | BadOrigin _ | BadToken => negb (c_exception_only c)
  | Raised _ => false
  end.

Definition client_step (pr : params) (c : config) (st : option text) (r : request) : outcome * option text :=
  let r' := with_client_state st r in
  let out := view_outcome_p pr c r' in
  (out, if token_stage_reached pr c r' && response_produced c out
        then store_after_get (c_storage c) st (r_fresh r') else st).

Fixpoint run_client (pr : params) (c : config) (st : option text) (rs : list request) : list outcome * option text :=
  match rs with
  | [] => ([], st)
  | r :: rest =>
      let '(out, st') := client_step pr c st r in
      let '(outs, st'') := run_client pr c st' rest in
      (out :: outs, st'')
  end.

Definition stores := list (N * option text).
Fixpoint st_get (k : N) (s : stores) : option text :=
  match s with [] => None | (k', v) :: r => if k =? k' then v else st_get k r end.
Definition st_set (k : N) (v : option text) (s : stores) : stores := (k, v) :: s.

(* the interleaved run: each step names its client *)
Fixpoint run_clients (pr : params) (c : config) (s : stores) (steps : list (N * request)) : list outcome * stores :=
  match steps with
  | [] => ([], s)
  | (k, r) :: rest =>
      let '(out, v) := client_step pr c (st_get k s) r in
      let '(outs, s') := run_clients pr c (st_set k v s) rest in
      (out :: outs, s')
  end.

(* the stores seen by each step (before it), for reporting *)
Fixpoint stores_trace (pr : params) (c : config) (s : stores) (steps : list (N * request)) : list (option text) :=
  match steps with
  | [] => []
  | (k, r) :: rest =>
      let v := snd (client_step pr c (st_get k s) r) in
      v :: stores_trace pr c (st_set k v s) rest
  end.

(* ------------------------------------------------------------------ the public token API called by the view body
   pyramid.csrf.get_csrf_token(request) / new_csrf_token(request): what a page does to show / rotate its token.
   The body runs only when the outcome is Ran (then a response is produced, so the change reaches the client). *)
Inductive action := ANone | AGet | ANew.
Definition body_store (s : storage) (a : action) (st : option text) (fresh : text) : option text :=
  match a with
  | ANone => st
  | AGet => store_after_get s st fresh          (* mints exactly when none is held *)
  | ANew => Some fresh                          (* always replaces the held token *)
  end.

Definition client_step_a (pr : params) (c : config) (st : option text) (ar : action * request) : outcome * option text :=
  let '(out, st1) := client_step pr c st (snd ar) in
  (out, match out with Ran => body_store (c_storage c) (fst ar) st1 (r_fresh (snd ar)) | _ => st1 end).

Fixpoint run_client_a (pr : params) (c : config) (st : option text) (rs : list (action * request)) : list outcome * option text :=
  match rs with
  | [] => ([], st)
  | r :: rest =>
      let '(out, st') := client_step_a pr c st r in
      let '(outs, st'') := run_client_a pr c st' rest in
      (out :: outs, st'')
  end.

Fixpoint run_clients_a (pr : params) (c : config) (s : stores) (steps : list (N * (action * request))) : list outcome * stores :=
  match steps with
  | [] => ([], s)
  | (k, r) :: rest =>
      let '(out, v) := client_step_a pr c (st_get k s) r in
      let '(outs, s') := run_clients_a pr c (st_set k v s) rest in
      (out :: outs, s')
  end.

Fixpoint stores_trace_a (pr : params) (c : config) (s : stores) (steps : list (N * (action * request))) : list (option text) :=
  match steps with
  | [] => []
  | (k, r) :: rest =>
      let v := snd (client_step_a pr c (st_get k s) r) in
      v :: stores_trace_a pr c (st_set k v s) rest
  end.

(* ================================================================== declarative specification *)
(* The property's wording, phrased without the code's control flow and with ITS OWN literals
   (documented names, defaults and strings).  The model above uses the regenerated constants;
   Proofs/C12.v shows they coincide, so a changed constant breaks a proof while this
   specification keeps judging the implementation by the documented behaviour. *)
Definition s_https : text := [104; 116; 116; 112; 115].            (* "https" *)
Definition s_null : text := [110; 117; 108; 108].                   (* "null" *)
Definition s_origin_hdr : text := [79; 114; 105; 103; 105; 110].   (* "Origin" *)
Definition s_token : text := [99; 115; 114; 102; 95; 116; 111; 107; 101; 110].   (* "csrf_token" *)
Definition s_header : text := [88; 45; 67; 83; 82; 70; 45; 84; 111; 107; 101; 110].   (* "X-CSRF-Token" *)
Definition s_safe : list text := [[71; 69; 84]; [72; 69; 65; 68]; [79; 80; 84; 73; 79; 78; 83]; [84; 82; 65; 67; 69]].   (* GET HEAD OPTIONS TRACE *)
Definition s_80 : text := [56; 48].
Definition s_443 : text := [52; 52; 51].

(* options in force: documented defaults of csrf_view (nothing configured) and of set_default_csrf_options *)
Definition spec_effective (c : config) : options :=
  match c_defaults c with
  | None => mkOptions false (Some s_token) (Some s_header) s_safe true false false
  | Some d => mkOptions (dflt (d_require d) true) (dflt (d_token d) (Some s_token))
                        (dflt (d_header d) (Some s_header)) (dflt (d_safe d) s_safe)
                        (dflt (d_check_origin d) true) (dflt (d_allow_no_origin d) false) (d_callback d)
  end.

(* host matching as documented *)
Definition strip_suffix (s suf : text) : option text :=
  match strip_prefix (rev suf) (rev s) with Some r => Some (rev r) | None => None end.

Definition domain_matches (host pattern : text) : bool :=
  let p := lower pattern in
  negb (is_empty pattern) &&
  (text_eqb host p ||
   match p with
   | c :: rest => (c =? 46) && (text_eqb host rest || match strip_suffix host p with Some _ => true | None => false end)
   | [] => false
   end).

Inductive claim := NoOrigin | NullOrigin | Claims (o : text).

(* Origin (the last of a space separated list), else Referer *)
Definition spec_claim (r : request) : claim :=
  match header_get s_origin_hdr r with
  | Some o =>
      let item := last (split_on 32 o) [] in
      if is_empty item then NoOrigin else if text_eqb item s_null then NullOrigin else Claims item
  | None =>
      match env_get lit_HTTP_REFERER r with
      | Some (c :: o) => Claims (c :: o)
      | _ => NoOrigin
      end
  end.

(* the request's own host: the domain, with the port unless it is 80 or 443 *)
Definition spec_own_host (r : request) : text :=
  let port := req_host_port r in
  if text_eqb port s_80 || text_eqb port s_443 then req_domain r else req_domain r ++ [58] ++ port.

Definition spec_trusted (settings : list text) (caller : option (list text)) (r : request) : list text :=
  spec_own_host r :: match caller with Some l => l | None => aslist settings end.

Definition spec_origin_ok (settings : list text) (caller : option (list text)) (allow : bool) (r : request) : bool :=
  if text_eqb (req_scheme r) s_https then
    match spec_claim r with
    | NoOrigin => allow
    | NullOrigin => mem_text s_null (spec_trusted settings caller r)
    | Claims o =>
        match urlparse_m (r_v6 r) o with
        | PUrl scheme netloc =>
            text_eqb scheme s_https && existsb (domain_matches netloc) (spec_trusted settings caller r)
        | _ => false
        end
    end
  else true.

(* header, or the form field when the header is absent or empty; never the query string *)
Definition spec_supplied (token header : option text) (r : request) : text :=
  match header with
  | Some h => match header_get h r with
              | Some (c :: v) => c :: v
              | _ => match token with Some t => or_empty (lookup_last t (r_post r)) | None => [] end
              end
  | None => match token with Some t => or_empty (lookup_last t (r_post r)) | None => [] end
  end.

Definition spec_token_ok (s : storage) (token header : option text) (r : request) : bool :=
  text_eqb (spec_supplied token header r) (expected_token s r).

(* documented precedence of the view option: the call's keyword when the call passes one at all, else the class default *)
Definition spec_explicit (cls call : level) : option bool :=
  match cls, call with
  | _, Some v => v
  | Some v, None => v
  | None, None => None
  end.

Definition spec_in_force (c : config) : bool :=
  let o := spec_effective c in
  match c_explicit c with
  | Some true => truthy (o_token o) || truthy (o_header o)
  | Some false => false
  | None => o_require o && negb (c_exception_only c) && (truthy (o_token o) || truthy (o_header o))
  end.

Definition spec_checked (c : config) (r : request) : bool :=
  spec_in_force c && negb (mem_text (req_method r) (o_safe (spec_effective c)))
  && (if o_callback (spec_effective c) then r_cb r else true).

(* does the body run *)
Definition spec_runs (c : config) (r : request) : bool :=
  let o := spec_effective c in
  if spec_checked c r then
    (if o_check_origin o then spec_origin_ok (c_settings c) None (o_allow_no_origin o) r else true)
    && spec_token_ok (c_storage c) (o_token o) (o_header o) r
  else true.

(* tokens are sequences of Unicode scalar values (true of anything that arrives over HTTP) *)
Definition wf_tokens (c : config) (r : request) : bool :=
  let o := spec_effective c in
  forallb valid_scalar (expected_token (c_storage c) r) && forallb valid_scalar (spec_supplied (o_token o) (o_header o) r).

(* the urllib fragment answers for the claimed origin *)
Definition parse_defined (r : request) : bool :=
  match spec_claim r with
  | Claims o => match urlparse_m (r_v6 r) o with PUnmodelled => false | _ => true end
  | _ => true
  end.

(* ================================================================== wire glue *)
Definition get_pair (v : val) : option (text * text) :=
  match v with VL [VT a; VT b] => Some (a, b) | _ => None end.
Definition get_pairs := get_list_of get_pair.
Definition get_tb (v : val) : option (text * bool) :=
  match v with VL [VT a; VI z] => Some (a, negb (Z.eqb z 0)) | _ => None end.

Definition get_request (v : val) : option request :=
  match v with
  | VL [env; post; query; stored; fresh; cb; v6] =>
      olet env := get_pairs env in olet post := get_pairs post in olet query := get_pairs query in
      olet stored := get_opt get_text stored in olet fresh := get_text fresh in olet cb := get_bool cb in
      olet v6 := get_list_of get_tb v6 in
      Some (mkReq env post query stored fresh cb v6)
  | _ => None
  end.

(* a request of a sequence may carry an 8th field: the value of the trusted-origins setting in force when it is checked *)
Definition get_request_s (v : val) : option (request * option (list text)) :=
  match v with
  | VL [env; post; query; stored; fresh; cb; v6; so] =>
      olet r := get_request (VL [env; post; query; stored; fresh; cb; v6]) in
      olet so := get_opt get_texts so in Some (r, so)
  | _ => olet r := get_request v in Some (r, None)
  end.

Definition get_defaults (v : val) : option defaults :=
  match v with
  | VL [rq; tk; hd; sf; co; an; cb] =>
      olet rq := get_opt get_bool rq in olet tk := get_opt (get_opt get_text) tk in
      olet hd := get_opt (get_opt get_text) hd in olet sf := get_opt get_texts sf in
      olet co := get_opt get_bool co in olet an := get_opt get_bool an in olet cb := get_bool cb in
      Some (mkDefaults rq tk hd sf co an cb)
  | _ => None
  end.

Definition get_storage (v : val) : option storage :=
  match v with VI 0%Z => Some Legacy | VI 1%Z => Some Session | VI 2%Z => Some Cookie | _ => None end.

(* the view option: [] / [b] (one level, as before), [class level; call level] with a level = [] | [[]] | [[b]],
   or [7] = registered through add_exception_view / add_notfound_view / add_forbidden_view *)
Definition get_explicit (v : val) : option (option bool) :=
  match v with
  | VL [VL cls; VL call] =>
      olet cls := get_opt (get_opt get_bool) (VL cls) in olet call := get_opt (get_opt get_bool) (VL call) in
      Some (explicit_of cls call)
  | VL [VI 7%Z] => Some special_explicit
  | _ => get_opt get_bool v
  end.

Definition get_config (v : val) : option config :=
  match v with
  | VL [ex; df; eo; st; se; fi] =>
      olet ex := get_explicit ex in olet df := get_opt get_defaults df in olet eo := get_bool eo in
      olet st := get_storage st in olet se := get_texts se in olet fi := get_bool fi in
      Some (mkConfig ex df eo st se fi)
  | _ => None
  end.

Definition reason_code (w : reason) : Z :=
  match w with RMissing => 0 | RNull => 1 | RParse => 2 | RInsecure => 3 | RNoMatch => 4 end.
Definition err_code (e : err) : Z := match e with EUnicode => 0 | EValue => 1 | EUnmodelled => 2 end.

Definition put_outcome (o : outcome) : val :=
  match o with
  | Ran => VL [VI 0]
  | BadOrigin w => VL [VI 1; VI (reason_code w)]
  | BadToken => VL [VI 2]
  | Raised e => VL [VI 3; VI (err_code e)]
  end.
Definition put_tverdict (t : tverdict) : val :=
  match t with TPass => VL [VI 1] | TFail => VL [VI 0] | TRaise e => VL [VI 3; VI (err_code e)] end.
Definition put_overdict (o : overdict) : val :=
  match o with OPass => VL [VI 1] | OFail w => VL [VI 0; VI (reason_code w)] | ORaise e => VL [VI 3; VI (err_code e)] end.

(* case = [config; caller list (option); requests]
   answer = [ per request [view outcome; callback called; token verdict; origin verdict (history)];
              caller list afterwards;
              per request [spec runs; spec token ok; spec origin ok (initial list); wf_tokens; parse_defined] ] *)
Definition put_parsed (p : parsed) : val :=
  match p with
  | PUrl sc nl => VL [VI 0; VT sc; VT nl]
  | PValueError => VL [VI 1]
  | PUnmodelled => VL [VI 2]
  end.

Definition get_action (z : Z) : action := match z with 1%Z => AGet | 2%Z => ANew | _ => ANone end.
Definition get_step (v : val) : option (N * (action * request)) :=
  match v with
  | VL [VI k; r] => olet r := get_request r in Some (Z.to_N k, (ANone, r))
  | VL [VI k; r; VI a] => olet r := get_request r in Some (Z.to_N k, (get_action a, r))
  | _ => None
  end.
Definition get_store (v : val) : option (N * option text) :=
  match v with VL [VI k; t] => olet t := get_opt get_text t in Some (Z.to_N k, t) | _ => None end.

(* case = [config; caller list (option); requests]
   answer = [ per request [view outcome; callback called; token verdict; origin verdict (history)];
              caller list afterwards;
              per request [spec runs; spec token ok; spec origin ok (initial list); wf_tokens; parse_defined] ]
   case = [1; url; oracle]            answer = urlparse_m
   case = [2; config; stores; steps]  (step = [client; request] or [client; request; body action 0/1/2 = none/get/new])
                                      answer = [ per step [outcome; client's store afterwards];
                                                 per step [spec runs; wf_tokens; parse_defined] (on the resolved request) ] *)
Definition run_C12 (v : val) : val :=
  ret_or_bad (
    match v with
    | VL [VI 1%Z; VT u; v6] =>
        olet v6 := get_list_of get_tb v6 in Some (put_parsed (urlparse_m v6 u))
    | VL [VI 2%Z; cfg; st; steps] =>
        olet c := get_config cfg in olet st := get_list_of get_store st in
        olet steps := get_list_of get_step steps in
        let pr := the_params (c_storage c) in
        let outs := fst (run_clients_a pr c st steps) in
        let trace := stores_trace_a pr c st steps in
        let before := (fix go (s : stores) (l : list (N * (action * request))) (t : list (option text)) : list request :=
                         match l, t with
                         | (k, (_, r)) :: l', v :: t' => with_client_state (st_get k s) r :: go (st_set k v s) l' t'
                         | _, _ => []
                         end) st steps trace in
        Some (VL [VL (map (fun ov => VL [put_outcome (fst ov); vopt VT (snd ov)]) (combine outs trace));
                  VL (map (fun r => VL [vbool (spec_runs c r); vbool (wf_tokens c r); vbool (parse_defined r)]) before)])
    | VL [cfg; caller; reqs] =>
        olet c := get_config cfg in olet caller := get_opt get_texts caller in
        olet rqs := get_list_of get_request_s reqs in
        let pr := the_params (c_storage c) in
        (* the settings in force per request: the request's own value, else the configured one *)
        let srs := map (fun rq => (dflt (snd rq) (c_settings c), fst rq)) rqs in
        (* arguments of the two direct calls: the harness passes the declared / documented options *)
        let o := spec_effective c in
        let '(hist, caller') := origin_history_s pr caller (o_allow_no_origin o) srs in
        Some (VL [
          VL (map (fun rv => let '((s, r), ov) := rv in
                 let cs := with_settings c s in
                 VL [put_outcome (view_outcome cs r); vbool (callback_called cs r);
                     put_tverdict (check_csrf_token_p pr (c_storage c) (o_token o) (o_header o) r);
                     put_overdict ov]) (combine srs hist));
          vopt vtexts caller';
          VL (map (fun sr =>
                 let '(s, r) := sr in
                 let cs := with_settings c s in
                 let so := spec_effective c in
                 VL [vbool (spec_runs cs r);
                     vbool (spec_token_ok (c_storage c) (o_token so) (o_header so) r);
                     vbool (spec_origin_ok s caller (o_allow_no_origin so) r);
                     vbool (wf_tokens cs r); vbool (parse_defined r)]) srs)])
    | _ => None
    end).
