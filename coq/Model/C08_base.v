(* C08 -- types shared by the REGENERATED definitions (Gen/Facts_C08.v, produced by harness/c08/translate.py
   from src/pyramid/config/*.py on every run) and the hand-written reference model (Model/C08.v). *)
From Coq Require Import List NArith ZArith Bool String Ascii.
Import ListNotations.
Require Import Verif.Lib.Wire.

(* one `self.action(...)` call made by a directive: site "<function>#<k>", head of the discriminator,
   order= value, discriminator is Deferred, a callable is given *)
Record call := mkCall { k_site : text; k_head : text; k_order : Z; k_deferred : bool; k_callable : bool }.

(* the facts about a directive's arguments that decide WHICH actions it declares (atoms of the primitive table) *)
Record dargs := mkDargs { a_callable_none : bool;     (* add_request_method: callable is None *)
                          a_property : bool;          (* add_request_method: property=True *)
                          a_reify : bool;             (* add_request_method: reify=True *)
                          a_name_is_url : bool }.     (* add_static_view: urlparse(name).netloc *)

(* readable text literals for the reference model *)
Definition tx (s : string) : text := map (fun c => N_of_ascii c) (list_ascii_of_string s).

(* ------------------------------------------------------------------ the registration path (world functions)
   what Configurator.action / ActionState.action / Configurator.commit do with one action request *)
Require Import Verif.Model.C04.

Record qaction := mkQ { qa_disc : disc; qa_callable : bool; qa_order : Z; qa_path : path; qa_info : N;
                        qa_intrs : list N }.
Inductive wevent := WBegin | WEnd | WForce (info : N) | WRun (info : N) | WIntr (x : N) (info : N) | WExecute (n : nat).
Record world := mkWd { w_autocommit : bool; w_introspection : bool; w_includepath : path; w_info : N;
                       w_pending : list qaction; w_log : list wevent }.

Definition set_pending (w : world) (p : list qaction) : world :=
  mkWd (w_autocommit w) (w_introspection w) (w_includepath w) (w_info w) p (w_log w).
Definition log1 (w : world) (e : wevent) : world :=
  mkWd (w_autocommit w) (w_introspection w) (w_includepath w) (w_info w) (w_pending w) (w_log w ++ [e]).
(* primitives of the table *)
Definition p_begin (w : world) : world := log1 w WBegin.                 (* self.begin(): push the threadlocals *)
Definition p_end (w : world) : world := log1 w WEnd.                     (* self.end() *)
Definition p_undefer (w : world) (d : disc) : world :=                   (* undefer(d): calls Deferred.func *)
  if is_deferred d then log1 w (WForce (w_info w)) else w.
Definition p_call (w : world) : world := log1 w (WRun (w_info w)).       (* callable( *args, **kw ) *)
Definition p_register (w : world) (x info : N) : world := log1 w (WIntr x info).   (* introspectable.register(..) *)
Definition p_append (w : world) (q : qaction) : world := set_pending w (w_pending w ++ [q]).   (* self.actions.append *)
(* self.action_state.execute_actions(introspector=..): modelled by C04 (commit); here only that the n pending actions are handed over *)
Definition p_execute (w : world) : world := log1 w (WExecute (List.length (w_pending w))).
Definition p_fresh_state (w : world) : world := set_pending w [].         (* self.action_state = ActionState() *)
