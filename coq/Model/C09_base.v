(* C09 -- data types and PRIMITIVES shared by the hand-written reference model (Model/C09.v) and by the
   program the translator regenerates from src/pyramid/authentication.py on every run (Gen/Facts_C09.v).
   This file, Lib/C09Base.v, Lib/Text.v, Lib/Percent.v and Lib/Utf8.v are the target vocabulary of the
   translator's primitive table (harness/c09/translate.py).  Executable definitions only. *)
From Coq Require Import List NArith ZArith Bool.
Import ListNotations.
Require Import Verif.Lib.Wire Verif.Lib.Text Verif.Lib.Percent Verif.Lib.Utf8 Verif.Lib.C09Base.
Open Scope N_scope.

(* ------------------------------------------------------------------ data *)
Inductive ipaddr :=
| IP4 (parts : list N)       (* dotted decimal: map(chr, map(int, ip.split('.'))) *)
| IP6 (t : text).            (* ':' in ip: the text itself *)

(* Python values a user id can have *)
Inductive uval := VStr (t : text) | VInt (z : Z) | VBytes (b : list N).

Record cfg := mkCfg {
  secret : text; cookie_name : text; secure : bool; include_ip : bool;
  timeout : option Z; reissue_time : option Z; max_age : option Z;
  http_only : bool; path : text; wild_domain : bool; parent_domain : bool;
  domain : option text; hashalg : text; samesite : option text }.

Record req := mkReq {
  cookie : option text;        (* request.cookies.get(cookie_name) *)
  remote_addr : ipaddr;        (* environ['REMOTE_ADDR'] *)
  cur_domain : text;           (* request.domain *)
  now : Z;                     (* floor of time_mod.time() / helper.now *)
  half : bool;                 (* the clock reads now + 0.5 (fractional clocks at half-second resolution) *)
  tick : bool }.               (* a running clock: after its first reading in an operation it shows one second more *)

(* twice the clock value: comparisons against integer timestamps are made on doubled values *)
Definition now2 (r : req) : Z := (2 * now r + (if half r then 1 else 0))%Z.

(* the request as seen after one reading of the clock *)
Definition later (r : req) : req :=
  if tick r then mkReq (cookie r) (remote_addr r) (cur_domain r) (now r + 1)%Z (half r) false else r.

(* arguments handed to CookieProfile.get_headers (one header per domain; there is one domain) *)
Record ck := mkCk {
  ck_name : text; ck_value : option text; ck_domain : option text; ck_max_age : option Z;
  ck_path : text; ck_secure : bool; ck_httponly : bool; ck_samesite : option text }.

Inductive fields := FOk (digest : text) (ts : Z) (userid tokens user_data : text) | FBad.
Inductive pres := POk (ts : Z) (userid : text) (tokens : list text) (user_data : text) | PBad.
Inductive idres := INone | ISome (ts : Z) (u : uval) (tokens : list text) (user_data : text) | IRaise.

Record state := mkSt { reissued : bool; revoked : bool; callbacks : list (list ck) }.
Definition st0 : state := mkSt false false [].

Inductive op := OIdentify | ORemember (u : uval) (ma : option Z) (toks : list text) | OForget.
Inductive out := OutId (r : idres) | OutHdr (h : option (list ck)).    (* None: the call raised *)

(* ip text -> address form used by calculate_digest (parts must be plain decimal <= 255) *)
Definition parse_part (s : text) : option N :=
  match s with
  | [] => None
  | _ => if forallb (fun c => (48 <=? c) && (c <=? 57)) s
         then match py_int (fun _ => 63) 10 s with Some z => if (z <? 256)%Z then Some (Z.to_N z) else None | None => None end
         else None
  end.
Definition classify_ip (ip : text) : option ipaddr :=
  if memN 58 ip then (if is_bytes ip then Some (IP6 ip) else None)
  else match map_opt parse_part (split_on 46 ip) with Some ps => Some (IP4 ps) | None => None end.


(* ------------------------------------------------------------------ primitives of the translator's table *)
(* request flags: request._authtkt_reissue_revoked = True / del ... ; request._authtkt_reissued = True ;
   request.add_response_callback(<closure appending [headers] unless revoked>) *)
Definition set_revoked (st : state) (b : bool) : state := mkSt (reissued st) b (callbacks st).
Definition set_reissued (st : state) (b : bool) : state := mkSt b (revoked st) (callbacks st).
Definition push_callback (st : state) (hs : list ck) : state := mkSt (reissued st) (revoked st) (callbacks st ++ [hs]).

(* ':' in ip ; ip (as text, IPv6 form) ; map(int, ip.split('.')) as characters *)
Definition is_ip6 (ip : ipaddr) : bool := match ip with IP6 _ => true | IP4 _ => false end.
Definition ip6_text (ip : ipaddr) : text := match ip with IP6 t => t | IP4 _ => [] end.
Definition ip4_parts (ip : ipaddr) : list N := match ip with IP4 ps => ps | IP6 _ => [] end.
(* a str literal used as an address *)
Definition ip_lit (t : text) : ipaddr := match classify_ip t with Some i => i | None => IP4 [] end.

Definition truthy (o : option text) : bool := match o with Some (_ :: _) => true | _ => false end.
Definition nonempty (t : text) : bool := match t with [] => false | _ => true end.
Definition is_some {A} (o : option A) : bool := match o with Some _ => true | None => false end.

(* re.compile('^[first][rest]*$').match(t): '$' also matches before a final newline *)
Definition regex_rest (rest : list N) (dollar : bool) (s : text) : bool :=
  forallb (fun c => memN c rest) s
  || (dollar && match rev s with 10 :: r => forallb (fun c => memN c rest) r | _ => false end).
Definition regex_match (first rest : list N) (dollar : bool) (t : text) : bool :=
  match t with c :: r => memN c first && regex_rest rest dollar r | [] => false end.
(* ascii_(token): None = UnicodeEncodeError *)
Definition ascii_opt (t : text) : option text := if is_ascii t then Some t else None.

(* util.strings_differ on two byte strings (pinned): they differ *)
Definition strings_differ (a b : list N) : bool := negb (text_eqb a b).

(* a, b = s.split(c, 1) where c is known to occur in s *)
Definition split1_tot (c : N) (s : text) : text * text :=
  match split1 c s with Some p => p | None => ([], []) end.
(* s[a:b] *)
Definition slice (a b : nat) (s : text) : text := firstn (b - a) (skipn a s).

(* userid encoders / decoders (None = the callable raised) *)
Definition apply_enc (k : enckind) (u : uval) : option text :=
  match k, u with
  | EStr, VInt z => Some (dec_of_Z z)
  | EB64Utf8, VStr t => if forallb valid_scalar t then Some (b64encode (encode t)) else None
  | EB64, VBytes b => Some (b64encode b)
  | _, _ => None
  end.
(* userid_type_encoders.get(type(userid)) for the three modelled types *)
Definition enc_of (ei es eb : text * enckind) (u : uval) : text * enckind :=
  match u with VInt _ => ei | VStr _ => es | VBytes _ => eb end.

(* an ARGUMENT of remember(): a user id of one of the three table types, or an object of any other type (bool, float,
   None, a str / int / bytes SUBCLASS, ...) of which only str(x) matters *)
Inductive uarg := UKnown (u : uval) | UOther (s : text).
Definition uarg_val (a : uarg) : uval := match a with UKnown u => u | UOther s => VStr s end.
(* str(x) for x outside the table (only used on the branch where the type lookup found nothing) *)
Definition str_other (a : uarg) : text := match a with UOther s => s | UKnown _ => [] end.
(* userid_type_encoders.get(type(x)): the lookup is by EXACT type *)
Definition enc_of_arg (ei es eb : text * enckind) (a : uarg) : option (text * enckind) :=
  match a with UKnown u => Some (enc_of ei es eb u) | UOther _ => None end.

(* AuthTktAuthenticationPolicy.unauthenticated_userid: None | the user id | it raised *)
Inductive ures := UNone | USome (u : uval) | URaise.

Definition apply_dec (uni_tr : N -> N) (k : deckind) (u : uval) : option uval :=
  let b64 (u : uval) : option (list N) :=
    match u with
    | VStr t => if is_bytes t then b64decode t else None
    | VBytes b => b64decode b
    | VInt _ => None
    end in
  match k with
  | DInt => match u with
            | VStr t => option_map VInt (py_int uni_tr 10 t)
            | VBytes b => option_map VInt (py_int (fun _ => 63) 10 b)
            | VInt z => Some (VInt z)
            end
  | DUtf8 => match u with VBytes b => option_map VStr (decode b) | _ => None end
  | DB64 => option_map VBytes (b64 u)
  | DB64Utf8 => match b64 u with Some b => option_map VStr (decode b) | None => None end
  | DUtf8Text => match u with VStr t => Some (VStr t) | VBytes b => option_map VStr (decode b) | VInt _ => None end
  end.
