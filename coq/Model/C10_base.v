(* C10 base -- data types, the hand-written reference model of the single methods, and the PRIMITIVES the
   translator (harness/c10/translate.py) targets; Gen/Prog_C10.v (regenerated from session.py on every run)
   is built on this file.
   C10 -- signed cookie sessions (src/pyramid/session.py: manage_accessed, manage_changed,
   BaseCookieSessionFactory/CookieSession, SignedCookieSessionFactory; WebOb SignedSerializer and
   JSONSerializer enter through the [oracles] record).  Executable definitions only. *)
From Coq Require Import List NArith ZArith Bool.
Import ListNotations.
Require Import Verif.Lib.Wire Verif.Lib.Utf8 Verif.Gen.Facts_C10.

(* ------------------------------------------------------------------ JSON data model *)
(* Clock: time.time() is a float on a grid of 1/tick seconds (tick = 4: 0.25 s, exactly representable,
   so every float subtraction/comparison/int() the code performs is exact).  All clock values of the
   model (request time, operation time, float time stamps) are counted in ticks; int(time.time()) is
   truncation to whole seconds.  JFlt q is the float q/tick (time stamps only). *)
Definition tick : Z := 4%Z.
Inductive jv :=
| JNull | JBool (b : bool) | JInt (z : Z) | JFlt (z : Z) | JStr (s : text)
| JList (l : list jv) | JObj (m : list (text * jv)).
Definition dict := list (text * jv).      (* Python dict: insertion ordered, string keys *)

Fixpoint d_get (k : text) (d : dict) : option jv :=
  match d with [] => None | (k', v) :: r => if text_eqb k k' then Some v else d_get k r end.
Fixpoint d_set (k : text) (v : jv) (d : dict) : dict :=
  match d with
  | [] => [(k, v)]
  | (k', v') :: r => if text_eqb k k' then (k', v) :: r else (k', v') :: d_set k v r
  end.
Fixpoint d_del (k : text) (d : dict) : dict :=
  match d with [] => [] | (k', v') :: r => if text_eqb k k' then r else (k', v') :: d_del k r end.
Definition d_update (m d : dict) : dict := fold_left (fun acc kv => d_set (fst kv) (snd kv) acc) m d.

Definition num_of (v : jv) : option Z :=
  match v with JBool b => Some (if b then 1 else 0)%Z | JInt z => Some z | JFlt z => Some z | _ => None end.

(* Python == on JSON values (True == 1 == 1.0; dicts compare without order) *)
Fixpoint py_eq (a b : jv) {struct a} : bool :=
  match num_of a, num_of b with
  | Some x, Some y => Z.eqb x y
  | Some _, None => false
  | None, Some _ => false
  | None, None =>
      match a, b with
      | JNull, JNull => true
      | JStr s, JStr t => text_eqb s t
      | JList l, JList m =>
          (fix go (l m : list jv) : bool :=
             match l, m with
             | [], [] => true
             | x :: l', y :: m' => py_eq x y && go l' m'
             | _, _ => false
             end) l m
      | JObj p, JObj q =>
          Nat.eqb (length p) (length q) &&
          (fix go (p : list (text * jv)) : bool :=
             match p with
             | [] => true
             | (k, v) :: p' => match d_get k q with Some w => py_eq v w | None => false end && go p'
             end) p
      | _, _ => false
      end
  end.

(* ------------------------------------------------------------------ comparison operators of the REFERENCE model
   (fixed: `>` three times; the program regenerated from the source carries the source's own operators) *)
Definition timeout_cmp : N := 0%N.
Definition reissue_cmp : N := 0%N.
Definition limit_cmp : N := 0%N.
Definition cmp_eval (c : N) (a b : Z) : bool :=
  match c with
  | 0%N => Z.gtb a b | 1%N => Z.geb a b | 2%N => Z.ltb a b | 3%N => Z.leb a b
  | 4%N => Z.eqb a b | _ => negb (Z.eqb a b)
  end.

(* ------------------------------------------------------------------ third-party functions *)
(* WebOb SignedSerializer = b64 (mac key (ser p) ++ ser p); JSONSerializer = ser/deser.
   [ds] is the digest size.  The theorems quantify over every such record (plus the stated
   round-trip premises); the runner instantiates it (bottom of this file). *)
Record oracles := {
  mac : text -> text -> text;
  ser : jv -> text;
  deser : text -> option jv;
  b64 : text -> text;
  unb64 : text -> option text;
  ds : nat }.

Record opts := { key : text; timeout : option Z; reissue : option Z; soe : bool }.

(* ------------------------------------------------------------------ session object *)
Inductive tnum := TI (z : Z) | TF (q : Z).     (* int seconds / float (in ticks) time stamp *)
Definition tval (t : tnum) : Z := match t with TI z => (z * tick)%Z | TF q => q end.     (* in ticks *)
Definition int_time (now : Z) : Z := Z.quot now tick.     (* int(time.time()) *)
Definition tjv (t : tnum) : jv := match t with TI z => JInt z | TF z => JFlt z end.

Record sess := { st : dict; created : tnum; accessed : tnum; renewed : tnum; isnew : bool; dirty : bool }.

Definition with_st (s : sess) (d : dict) : sess :=
  {| st := d; created := created s; accessed := accessed s; renewed := renewed s; isnew := isnew s; dirty := dirty s |}.
Definition with_accessed (s : sess) (t : tnum) : sess :=
  {| st := st s; created := created s; accessed := t; renewed := renewed s; isnew := isnew s; dirty := dirty s |}.
(* CookieSession.changed: the callback is registered once; afterwards _dirty stays True *)
Definition mark (s : sess) : sess :=
  {| st := st s; created := created s; accessed := accessed s; renewed := renewed s; isnew := isnew s; dirty := true |}.

(* serializer.loads of SignedCookieSessionFactory; None = ValueError.  [canonical_check] (regenerated fact: does
   the factory wrap the SignedSerializer so that only the canonical text b64 (unb64 c) = c is accepted?) *)
Definition loads (O : oracles) (k c : text) : option jv :=
  match unb64 O c with
  | None => None
  | Some f =>
      if canonical_check && negb (text_eqb (b64 O f) c) then None
      else
        let cs := skipn (ds O) f in
        if text_eqb (mac O k cs) (firstn (ds O) f) then deser O cs else None
  end.

(* float(x) inside __init__ *)
Inductive fres := FOk (z : Z) | FErr | FUnm.
Definition is_digit (c : N) : bool := (48 <=? c)%N && (c <=? 57)%N.
Definition float_ok_char (c : N) : bool :=     (* ASCII characters that may occur in a float literal *)
  is_digit c || memN c [43; 45; 46; 95; 32; 9; 10; 11; 12; 13; 28; 29; 30; 31;
                        105; 110; 102; 97; 116; 121; 101; 73; 78; 70; 65; 84; 89; 69]%N.
Definition digits_val (s : text) : Z := fold_left (fun a c => (a * 10 + Z.of_N (c - 48))%Z) s 0%Z.
Definition float_of (v : jv) : fres :=
  match v with
  | JInt z => FOk (z * tick)%Z | JFlt q => FOk q | JBool b => FOk (if b then tick else 0)%Z
  | JStr s =>
      if negb (Nat.eqb (length s) 0) && forallb is_digit s && Nat.leb (length s) 15 then FOk (digits_val s * tick)%Z
      else if existsb (fun c => (c <? 128)%N && negb (float_ok_char c)) s then FErr
      else match s with [] => FErr | _ => FUnm end
  | _ => FErr
  end.

(* rval, cval, sval = value *)
Definition unpack3 (v : jv) : option (jv * jv * jv) :=
  match v with
  | JList [a; b; c] => Some (a, b, c)
  | JObj [(a, _); (b, _); (c, _)] => Some (JStr a, JStr b, JStr c)
  | JStr [a; b; c] => Some (JStr [a], JStr [b], JStr [c])
  | _ => None
  end.

Inductive ires := IOk (s : sess) | IRaise | IUnm.

(* dict.__init__(self, state) *)
Definition state_dict (v : jv) : option (option dict) :=      (* Some None = raises; None = not modelled *)
  match v with
  | JObj m => Some (Some m)
  | JList [] => Some (Some [])
  | JStr [] => Some (Some [])
  | JList _ => None
  | _ => Some None
  end.

Definition empty_state : jv := JObj [].

(* CookieSession.__init__ *)
Definition init (O : oracles) (o : opts) (cookie : option text) (now : Z) : ires :=
  let value := match cookie with
               | None => None
               | Some c => match loads O (key o) c with Some JNull => None | x => x end
               end in
  let fresh := Some (TF now, TF now, empty_state, true) in
  let r :=
    match value with
    | None => fresh
    | Some v =>
        match unpack3 v with
        | None => fresh
        | Some (rv, cv, sv) =>
            match float_of rv with
            | FErr => fresh
            | FUnm => None
            | FOk r =>
                match float_of cv with
                | FErr => Some (TF r, TF now, empty_state, true)
                | FUnm => None
                | FOk c => Some (TF r, TF c, sv, false)
                end
            end
        end
    end in
  match r with
  | None => IUnm
  | Some (rn, cr, state, nw) =>
      let state := match timeout o with
                   | Some t => if cmp_eval timeout_cmp (now - tval rn) (t * tick) then empty_state else state
                   | None => state
                   end in
      match state_dict state with
      | None => IUnm
      | Some None => IRaise
      | Some (Some d) => IOk {| st := d; created := cr; accessed := rn; renewed := rn; isnew := nw; dirty := false |}
      end
  end.

(* ------------------------------------------------------------------ operations *)
Inductive op :=
| OGet (k : text) (d : jv) | OGetItem (k : text) | OItems | OValues | OKeys | OContains (k : text) | OLen | OIter
| OClear | OUpdate (m : dict) | OSetDefault (k : text) (d : jv) | OPop (k : text) (d : option jv) | OPopItem
| OSetItem (k : text) (v : jv) | ODelItem (k : text)
| OFlash (msg : jv) (q : text) (dup : bool) | OPopFlash (q : text) | OPeekFlash (q : text)
| ONewCsrf (tok : text) | OGetCsrf (tok : text) | OChanged | OInvalidate
| OIor (m : dict).     (* session |= m : dict.__ior__, Python >= 3.9 *)

Inductive meth :=
| MGet | MGetItem | MItems | MValues | MKeys | MContains | MLen | MIter
| MClear | MUpdate | MSetDefault | MPop | MPopItem | MSetItem | MDelItem
| MFlash | MPopFlash | MPeekFlash | MNewCsrf | MGetCsrf | MChanged | MInvalidate | MIor.

Definition all_meths : list meth :=
  [MGet; MGetItem; MItems; MValues; MKeys; MContains; MLen; MIter;
   MClear; MUpdate; MSetDefault; MPop; MPopItem; MSetItem; MDelItem;
   MFlash; MPopFlash; MPeekFlash; MNewCsrf; MGetCsrf; MChanged; MInvalidate; MIor].

Definition meth_name (m : meth) : text :=
  match m with
  | MGet => nm_get | MGetItem => nm_getitem | MItems => nm_items | MValues => nm_values | MKeys => nm_keys
  | MContains => nm_contains | MLen => nm_len | MIter => nm_iter
  | MClear => nm_clear | MUpdate => nm_update | MSetDefault => nm_setdefault | MPop => nm_pop
  | MPopItem => nm_popitem | MSetItem => nm_setitem | MDelItem => nm_delitem
  | MFlash => nm_flash | MPopFlash => nm_pop_flash | MPeekFlash => nm_peek_flash
  | MNewCsrf => nm_new_csrf_token | MGetCsrf => nm_get_csrf_token | MChanged => nm_changed
  | MInvalidate => nm_invalidate
  | MIor => nm_ior
  end.

Fixpoint lookup_tab {A} (k : text) (l : list (text * A)) : option A :=
  match l with [] => None | (k', a) :: r => if text_eqb k k' then Some a else lookup_tab k r end.

(* wrapper kind of a method as the class body says NOW (0 bare, 1 manage_accessed, 2 manage_changed);
   a name the class does not bind is inherited from dict, i.e. bare *)
Definition wrapper_of (m : meth) : N :=
  match lookup_tab (meth_name m) wrapper_table with Some (k, _) => k | None => 0%N end.

(* manage_accessed / manage_changed around one call made at clock [now] *)
Definition apply_wrap (o : opts) (now : Z) (s : sess) (kind : N) : sess :=
  match kind with
  | 1%N =>
      let s1 := with_accessed s (TI (int_time now)) in
      match reissue o with
      | Some r => if cmp_eval reissue_cmp (int_time now * tick - tval (renewed s)) (r * tick) then mark s1 else s1
      | None => s1
      end
  | 2%N => mark (with_accessed s (TI (int_time now)))
  | _ => s
  end.

Inductive res := RV (v : jv) | RErr (e : N) | RUnm.    (* 1 KeyError, 2 AttributeError *)

Definition flash_key (q : text) : text := flash_prefix ++ q.
Definition pair_jv (kv : text * jv) : jv := JList [JStr (fst kv); snd kv].
Definition keys_jv (d : dict) : jv := JList (map (fun kv => JStr (fst kv)) d).
Definition token_absent (d : dict) : bool :=
  match d_get csrf_key d with None => true | Some JNull => true | Some _ => false end.

(* the dict-level effect of each operation (the wrapped dict method, or the body of the
   flash / csrf method with its inner calls resolved) *)
Definition raw (p : op) (d : dict) : dict * res :=
  match p with
  | OGet k dflt => (d, RV (match d_get k d with Some v => v | None => dflt end))
  | OGetItem k => (d, match d_get k d with Some v => RV v | None => RErr 1 end)
  | OItems => (d, RV (JList (map pair_jv d)))
  | OValues => (d, RV (JList (map snd d)))
  | OKeys => (d, RV (keys_jv d))
  | OContains k => (d, RV (JBool (match d_get k d with Some _ => true | None => false end)))
  | OLen => (d, RV (JInt (Z.of_nat (length d))))
  | OIter => (d, RV (keys_jv d))
  | OClear => ([], RV JNull)
  | OUpdate m => (d_update m d, RV JNull)
  | OSetDefault k dflt => match d_get k d with Some v => (d, RV v) | None => (d ++ [(k, dflt)], RV dflt) end
  | OPop k dflt =>
      match d_get k d with
      | Some v => (d_del k d, RV v)
      | None => (d, match dflt with Some v => RV v | None => RErr 1 end)
      end
  | OPopItem =>
      match rev d with
      | [] => (d, RErr 1)
      | kv :: r => (rev r, RV (pair_jv kv))
      end
  | OSetItem k v => (d_set k v d, RV JNull)
  | ODelItem k => match d_get k d with Some _ => (d_del k d, RV JNull) | None => (d, RErr 1) end
  | OFlash msg q dup =>
      match d_get (flash_key q) d with
      | None => (d ++ [(flash_key q, JList [msg])], RV JNull)
      | Some (JList l) =>
          if dup || negb (existsb (fun x => py_eq x msg) l)
          then (d_set (flash_key q) (JList (l ++ [msg])) d, RV JNull)
          else (d, RV JNull)
      | Some _ => (d, if dup then RErr 2 else RUnm)
      end
  | OPopFlash q =>
      match d_get (flash_key q) d with
      | Some v => (d_del (flash_key q) d, RV v)
      | None => (d, RV (JList []))
      end
  | OPeekFlash q => (d, RV (match d_get (flash_key q) d with Some v => v | None => JList [] end))
  | ONewCsrf tok => (d_set csrf_key (JStr tok) d, RV (JStr tok))
  | OGetCsrf tok =>
      if token_absent d then (d_set csrf_key (JStr tok) d, RV (JStr tok))
      else (d, RV (match d_get csrf_key d with Some v => v | None => JNull end))
  | OChanged => (d, RV JNull)
  | OInvalidate => ([], RV JNull)
  | OIor m => (d_update m d, RV JNull)
  end.

(* the CookieSession methods entered (through attribute lookup on the session, hence through
   their wrappers) while the operation runs, in order *)
Definition calls (p : op) (d : dict) : list meth :=
  match p with
  | OGet _ _ => [MGet] | OGetItem _ => [MGetItem] | OItems => [MItems] | OValues => [MValues]
  | OKeys => [MKeys] | OContains _ => [MContains] | OLen => [MLen] | OIter => [MIter]
  | OClear => [MClear] | OUpdate _ => [MUpdate] | OSetDefault _ _ => [MSetDefault] | OPop _ _ => [MPop]
  | OPopItem => [MPopItem] | OSetItem _ _ => [MSetItem] | ODelItem _ => [MDelItem]
  | OFlash _ _ _ => [MFlash; MSetDefault]
  | OPopFlash _ => [MPopFlash; MPop]
  | OPeekFlash _ => [MPeekFlash; MGet]
  | ONewCsrf _ => [MNewCsrf; MSetItem]
  | OGetCsrf _ => if token_absent d then [MGetCsrf; MGet; MNewCsrf; MSetItem] else [MGetCsrf; MGet]
  | OChanged => [MChanged]
  | OInvalidate => [MInvalidate; MClear]
  | OIor _ => [MIor]
  end.

(* result of the response callback / of _set_cookie *)
Inductive fin := FNone | FCookie (c : text) | FOversize.
(* the size limit of the REFERENCE model (fixed; the regenerated program carries the source's own literal) *)
Definition cookie_limit : N := 4064%N.

(* ================================================================== primitives for the translator *)
(* attribute stores on the session object *)
Definition set_created (s : sess) (t : tnum) : sess :=
  {| st := st s; created := t; accessed := accessed s; renewed := renewed s; isnew := isnew s; dirty := dirty s |}.
Definition set_accessed (s : sess) (t : tnum) : sess := with_accessed s t.
Definition set_renewed (s : sess) (t : tnum) : sess :=
  {| st := st s; created := created s; accessed := accessed s; renewed := t; isnew := isnew s; dirty := dirty s |}.
Definition set_new (s : sess) (b : bool) : sess :=
  {| st := st s; created := created s; accessed := accessed s; renewed := renewed s; isnew := b; dirty := dirty s |}.
Definition set_dirty (s : sess) (b : bool) : sess :=
  {| st := st s; created := created s; accessed := accessed s; renewed := renewed s; isnew := isnew s; dirty := b |}.
(* self.request.add_response_callback(cb) with cb = "self._set_cookie(response); self.request = None":
   the registration is represented by the dirty flag (it happens exactly when _dirty flips to True);
   [finish] runs the callback iff dirty *)
Definition register_cb (s : sess) : sess := s.
(* the object before __init__ has assigned anything (_dirty = False is a class attribute) *)
Definition blank_sess : sess :=
  {| st := []; created := TF 0; accessed := TF 0; renewed := TF 0; isnew := true; dirty := false |}.
(* dict.__init__(self, state) as the last statement of __init__ *)
Definition init_dict (s : sess) (state : jv) : ires :=
  match state_dict state with
  | None => IUnm
  | Some None => IRaise
  | Some (Some d) => IOk (with_st s d)
  end.
Definition is_none (v : jv) : bool := match v with JNull => true | _ => false end.   (* JSON null is Python None *)
(* serializer.dumps(x) of the SignedSerializer *)
Definition signed_dumps (O : oracles) (k : text) (p : jv) : text :=
  let b := ser O p in b64 O (mac O k b ++ b).
(* value of a call that cannot raise *)
Definition rv (r : res) : jv := match r with RV v => v | _ => JNull end.
(* a dict method applied to the session's own data *)
Definition on_state (p : op) (s : sess) : sess * res :=
  (with_st s (fst (raw p (st s))), snd (raw p (st s))).
(* attribute lookup of a method on the session: the wrapper the class table gives it, around its body *)
Definition wrap_with (acc chg : (sess -> sess * res) -> sess -> sess * res) (kind : N)
           (body : sess -> sess * res) : sess -> sess * res :=
  match kind with 1%N => acc body | 2%N => chg body | _ => body end.
(* `x in storage` / storage.append(x) on the object obtained from self.setdefault(key, []) (an alias of the
   list stored in the session); None = not a list (TypeError or substring test / AttributeError) *)
Definition py_in (x v : jv) : option bool :=
  match v with JList l => Some (existsb (fun y => py_eq y x) l) | _ => None end.
Definition append_at (k : text) (x : jv) (s : sess) : option sess :=
  match d_get k (st s) with
  | Some (JList l) => Some (with_st s (d_set k (JList (l ++ [x])) (st s)))
  | _ => None
  end.

(* ================================================================== the factory layer
   SignedCookieSessionFactory(secret, .., timeout, reissue_time, max_age, set_on_exception, salt, ..) builds the
   serializer handed to BaseCookieSessionFactory, whose class body converts the options (`x if x is None else
   int(x)`) ONCE, at configuration time.  Option values as the caller may pass them: *)
Inductive cfgv := CNone | CInt (z : Z) | CBool (b : bool) | CFlt (q : Z) (* float, in ticks *) | CStr (s : text).

(* int(x): FErr = TypeError / ValueError; FUnm = a string this model does not decide *)
Definition int_ok_char (c : N) : bool :=       (* ASCII characters that may occur in a base-10 int literal *)
  is_digit c || memN c [43; 45; 95; 32; 9; 10; 11; 12; 13; 28; 29; 30; 31]%N.
Definition int_of (v : cfgv) : fres :=
  match v with
  | CNone => FErr
  | CInt z => FOk z
  | CBool b => FOk (if b then 1 else 0)%Z          (* bool is an int *)
  | CFlt q => FOk (Z.quot q tick)                  (* truncation towards zero *)
  | CStr s =>
      if negb (Nat.eqb (length s) 0) && forallb is_digit s && Nat.leb (length s) 15 then FOk (digits_val s)
      else if existsb (fun c => (c <? 128)%N && negb (int_ok_char c)) s then FErr
      else match s with [] => FErr | _ => FUnm end
  end.
(* truth value of an option value (`if not self._cookie_on_exception`) *)
Definition py_truth (v : cfgv) : bool :=
  match v with
  | CNone => false | CInt z => negb (Z.eqb z 0) | CBool b => b | CFlt q => negb (Z.eqb q 0)
  | CStr s => negb (Nat.eqb (length s) 0)
  end.
Definition is_cnone (v : cfgv) : bool := match v with CNone => true | _ => false end.

(* which serializer object the factory builds: WebOb's SignedSerializer(secret, salt, hashalg, JSONSerializer()),
   possibly wrapped in pyramid.session._CanonicalBase64Serializer *)
Inductive serdesc := SSigned (secret : text) (salt : option text) | SCanon (d : serdesc).

(* the cookie attributes, raw as passed: cookie_name, path, domain, secure, httponly, samesite *)
Record attrs := { a_name : cfgv; a_path : cfgv; a_domain : cfgv; a_secure : cfgv; a_httponly : cfgv; a_samesite : cfgv }.
Record fargs := { fa_secret : text; fa_salt : option text; fa_max_age : cfgv; fa_timeout : cfgv; fa_reissue : cfgv;
                  fa_soe : cfgv; fa_attrs : attrs }.                      (* arguments of SignedCookieSessionFactory *)
Record bargs := { b_ser : serdesc; b_max_age : cfgv; b_timeout : cfgv; b_reissue : cfgv; b_soe : cfgv;
                  b_attrs : attrs }.
                                                        (* what it hands to BaseCookieSessionFactory *)
Record cfg := { c_max_age : option Z; c_timeout : option Z; c_reissue : option Z; c_soe : cfgv; c_attrs : attrs }.
                                                        (* class attributes of CookieSession *)
Inductive ores := OOk (v : option Z) | ORaise | OUnm.
Inductive cres := CfgOk (c : cfg) | CfgRaise | CfgUnm.
Definition oint (v : cfgv) : ores := match int_of v with FOk z => OOk (Some z) | FErr => ORaise | FUnm => OUnm end.
Definition cfg_bind (e : ores) (k : option Z -> cres) : cres :=
  match e with OOk v => k v | ORaise => CfgRaise | OUnm => CfgUnm end.

(* ---- reference model of the factory layer *)
Definition cfg_conv (v : cfgv) : ores := if is_cnone v then OOk None else oint v.     (* x if x is None else int(x) *)
Definition config (b : bargs) : cres :=
  cfg_bind (cfg_conv (b_max_age b)) (fun m =>
  cfg_bind (cfg_conv (b_reissue b)) (fun r =>
  cfg_bind (cfg_conv (b_timeout b)) (fun t =>
  CfgOk {| c_max_age := m; c_timeout := t; c_reissue := r; c_soe := b_soe b; c_attrs := b_attrs b |}))).
Definition signed_factory (a : fargs) : bargs :=
  {| b_ser := (if canonical_check then SCanon (SSigned (fa_secret a) (fa_salt a)) else SSigned (fa_secret a) (fa_salt a));
     b_max_age := fa_max_age a; b_timeout := fa_timeout a; b_reissue := fa_reissue a; b_soe := fa_soe a;
     b_attrs := fa_attrs a |}.

(* WebOb SignedSerializer: salted_secret = bytes_(salt or '') + bytes_(secret) in latin-1 if BOTH can be encoded so,
   otherwise both in UTF-8 *)
Definition latin1 (s : text) : bool := forallb (fun c => (c <? 256)%N) s.
Definition salted_key (salt : option text) (secret : text) : text :=
  let s := match salt with Some s => s | None => [] end in
  if latin1 s && latin1 secret then s ++ secret else Utf8.encode s ++ Utf8.encode secret.
(* WebOb SignedSerializer.loads (no canonical-text check); None = ValueError *)
Definition signed_loads (O : oracles) (k c : text) : option jv :=
  match unb64 O c with
  | None => None
  | Some f => let cs := skipn (ds O) f in
              if text_eqb (mac O k cs) (firstn (ds O) f) then deser O cs else None
  end.
(* reference model of _CanonicalBase64Serializer.loads around an inner loads *)
Definition canon_loads (O : oracles) (inner : text -> option jv) (c : text) : option jv :=
  match unb64 O c with
  | None => None
  | Some f => if text_eqb (b64 O f) c then inner c else None
  end.
Fixpoint ser_key (d : serdesc) : text :=
  match d with SSigned sec salt => salted_key salt sec | SCanon d' => ser_key d' end.
Definition ser_canonical (d : serdesc) : bool := match d with SCanon _ => true | SSigned _ _ => false end.

(* ================================================================== calling SignedCookieSessionFactory
   The documented signature (14 parameters, this order):
     0 secret 1 cookie_name 2 max_age 3 path 4 domain 5 secure 6 httponly 7 samesite 8 set_on_exception
     9 timeout 10 reissue_time 11 hashalg 12 salt 13 serializer
   A call passes the first [c_npos] values positionally, the others by keyword or not at all. [c_vals] lists the
   values in the DOCUMENTED order (None = not given).  Python binds positional argument j to the j-th parameter of
   the signature AS IT IS IN THE SOURCE ([sig]: for each source position the documented index of that parameter;
   regenerated), keywords by name, the rest to the source's defaults ([dflt], by documented index; regenerated). *)
Record fcall := { c_npos : nat; c_vals : list (option cfgv) }.
Definition doc_sig : list nat := seq 0%nat 14%nat.
Fixpoint index_of (d : nat) (l : list nat) (i : nat) : option nat :=
  match l with [] => None | x :: r => if Nat.eqb x d then Some i else index_of d r (S i) end.
Definition given (c : fcall) (d : nat) : option cfgv :=
  match nth_error (c_vals c) d with Some (Some v) => Some v | _ => None end.
Definition dflt_of (dflt : list (option cfgv)) (d : nat) : option cfgv :=
  match nth_error dflt d with Some (Some v) => Some v | _ => None end.
(* the value parameter d (documented index) is bound to; None = TypeError (given twice / required and missing) *)
Definition bind1 (sig : list nat) (dflt : list (option cfgv)) (c : fcall) (d : nat) : option cfgv :=
  match index_of d sig 0 with
  | None => None
  | Some p =>
      if Nat.ltb p (c_npos c) then
        (* the p-th positional value lands here *)
        if Nat.leb (c_npos c) d && match given c d with Some _ => true | None => false end then None
        else given c p
      else if Nat.ltb d (c_npos c) then dflt_of dflt d        (* its own value went to another parameter *)
      else match given c d with Some v => Some v | None => dflt_of dflt d end
  end.
Definition bind_call (sig : list nat) (dflt : list (option cfgv)) (c : fcall) : option (list cfgv) :=
  map_opt (bind1 sig dflt c) doc_sig.

(* the documented defaults *)
Definition doc_defaults : list (option cfgv) :=
  [None; Some (CStr [115; 101; 115; 115; 105; 111; 110]%N); Some CNone; Some (CStr [47]%N); Some CNone;
   Some (CBool false); Some (CBool false); Some (CStr [76; 97; 120]%N); Some (CBool true);
   Some (CInt 1200); Some (CInt 0); Some (CStr [115; 104; 97; 53; 49; 50]%N);
   Some (CStr [112; 121; 114; 97; 109; 105; 100; 46; 115; 101; 115; 115; 105; 111; 110; 46]%N); Some CNone].
(* declarative reading of a call: each parameter has the value the caller gave for it, else the documented default *)
Definition doc_arg (c : fcall) (d : nat) : option cfgv :=
  match given c d with Some v => Some v | None => dflt_of doc_defaults d end.
Definition doc_bind (c : fcall) : option (list cfgv) := map_opt (doc_arg c) doc_sig.
(* a well-formed call: 14 slots, the positional ones all given, the secret given, no serializer passed positionally *)
Definition wf_call (c : fcall) : Prop :=
  length (c_vals c) = 14%nat /\ (1 <= c_npos c <= 14)%nat /\ forall d, (d < c_npos c)%nat -> given c d <> None.

(* the modelled arguments out of the bound values; None = a type this model does not cover *)
Definition fargs_of (l : list cfgv) : option fargs :=
  match l with
  | [CStr sec; nm; m; pa; dm; se; ho; ss; e; t; r; _; salt; _] =>
      match (match salt with CNone => Some None | CStr s => Some (Some s) | _ => None end) with
      | Some sl => Some {| fa_secret := sec; fa_salt := sl; fa_max_age := m; fa_timeout := t; fa_reissue := r;
                           fa_soe := e;
                           fa_attrs := {| a_name := nm; a_path := pa; a_domain := dm; a_secure := se;
                                          a_httponly := ho; a_samesite := ss |} |}
      | None => None
      end
  | _ => None
  end.

(* ================================================================== request plumbing (pyramid/request.py)
   response callbacks: the session's own (set_cookie_callback registered by changed()) and other ones *)
Inductive cb := CbSession | CbOther.
