(* C05 -- data types and PRIMITIVES shared by the hand-written model (Model/C05.v) and by the program the translator
   regenerates from the source on every run (Gen/Facts_C05.v).  This file is the target vocabulary of the translator's
   primitive table (harness/c05/translate.py): the generated definitions consist of control flow ([if], [match], local
   [fix]) over the computation monad below and over parameters.  Executable definitions only. *)
From Coq Require Import List NArith ZArith Bool.
Import ListNotations.
Require Import Verif.Lib.Wire.
Local Close Scope N_scope.
Local Open Scope nat_scope.

(* ------------------------------------------------------------------ *)
(* exceptions, contexts, events *)

Inductive exc := EForbidden | ENotFound | EPredMismatch | EValueError | EBoom | ECsrf.   (* ECsrf: BadCSRFToken (HTTPBadRequest) *)
Definition exc_eqb (a b : exc) : bool :=
  match a, b with
  | EForbidden, EForbidden | ENotFound, ENotFound | EPredMismatch, EPredMismatch
  | EValueError, EValueError | EBoom, EBoom | ECsrf, ECsrf => true
  | _, _ => false
  end.

(* the object a view is called with: a resource of the tree, or the exception being rendered *)
Inductive ctx := CRes (n : N) | CExc (e : exc).
Definition ctx_eqb (a b : ctx) : bool :=
  match a, b with
  | CRes x, CRes y => N.eqb x y
  | CExc x, CExc y => exc_eqb x y
  | _, _ => false
  end.
Definition is_exc_ctx (c : ctx) : bool := match c with CExc _ => true | CRes _ => false end.

Inductive behave := BReturn | BRaise (e : exc).

Inductive event :=
| Permits (p : text) (c : ctx) (b : bool)     (* policy.permits(request, c, p) was called and answered b (truthiness) *)
| Deco (t : N) (c : ctx)                      (* the decorator= of view t was entered *)
| Body (t : N) (c : ctx)                      (* the view callable of t started to execute *)
| Raised (e : exc).                           (* the main handler raised e into the exception-view tween *)
Definition trace := list event.

Definition event_eqb (a b : event) : bool :=
  match a, b with
  | Permits p c x, Permits q d y => text_eqb p q && ctx_eqb c d && Bool.eqb x y
  | Deco t c, Deco u d => N.eqb t u && ctx_eqb c d
  | Body t c, Body u d => N.eqb t u && ctx_eqb c d
  | Raised e, Raised f => exc_eqb e f
  | _, _ => false
  end.

Inductive res := Ret (t : N) | Raise (e : exc) | NoView | Stuck.   (* Stuck: fuel exhausted / dangling tag (unreachable) *)

Definition grants := list (text * ctx).     (* the decision table: listed pairs are granted, all others refused *)
Definition granted (tb : grants) (p : text) (c : ctx) : bool :=
  existsb (fun pc => text_eqb (fst pc) p && ctx_eqb (snd pc) c) tb.


(* ------------------------------------------------------------------ *)
(* computations: the event log written so far and how the call ended.  A RESPONSE value is [Ret t] (the response produced
   by the view registered under t) or [NoView] (Python None) *)
Definition comp := (trace * res)%type.

Definition m_ret (r : res) : comp := ([], r).                 (* return r *)
Definition m_raise (e : exc) : comp := ([], Raise e).         (* raise e *)
(* x = c ; k x      (an exception or fuel exhaustion in c ends the block) *)
Definition m_bind (c : comp) (k : res -> comp) : comp :=
  let '(tr, o) := c in
  match o with
  | Raise _ | Stuck => (tr, o)
  | v => let '(tr2, o2) := k v in (tr ++ tr2, o2)
  end.
(* try: c   except ... as e: h e        (h re-raises what its clauses do not catch) *)
Definition m_try (c : comp) (h : exc -> comp) : comp :=
  let '(tr, o) := c in
  match o with
  | Raise e => let '(tr2, o2) := h e in (tr ++ tr2, o2)
  | _ => (tr, o)
  end.
(* b = c ; k b      for a computation that cannot raise and yields a truth value (policy.permits) *)
Definition m_bindb (c : trace * bool) (k : bool -> comp) : comp :=
  let '(tr, b) := c in let '(tr2, o) := k b in (tr ++ tr2, o).
(* policy.permits(request, context, permission): logged, answered by the decision table *)
Definition m_permits (tb : grants) (p : text) (c : ctx) : trace * bool := ([Permits p c (granted tb p c)], granted tb p c).

Definition res_is_none (r : res) : bool := match r with NoView => true | _ => false end.
Definition o_is_none {A} (o : option A) : bool := match o with None => true | Some _ => false end.

(* exception classes named in except clauses / raise statements *)
Inductive excclass := CException | CHTTPNotFound | CPredicateMismatch | CHTTPForbidden.
Definition exc_isa (k : excclass) (e : exc) : bool :=
  match k, e with
  | CException, _ => true
  | CHTTPNotFound, (ENotFound | EPredMismatch) => true         (* PredicateMismatch subclasses HTTPNotFound *)
  | CPredicateMismatch, EPredMismatch => true
  | CHTTPForbidden, EForbidden => true
  | _, _ => false
  end.
Definition exc_new (k : excclass) : exc :=                     (* raise K(...) *)
  match k with CException => EBoom | CHTTPNotFound => ENotFound | CPredicateMismatch => EPredMismatch
             | CHTTPForbidden => EForbidden end.
