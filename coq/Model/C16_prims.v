(* C16 -- target vocabulary of the source translator (harness/c16/translate.py).

   The program regenerated from src/pyramid/static.py on every run
   (Gen/Facts_C16_gen.v) consists of control flow -- local [fix]es, [if], [match] on
   an option, monadic sequencing -- over exactly the constants defined here and in
   Model/C16.v.  [E A] is "a Python computation inside a static_view method":
   it reads and writes self.filemap, calls the file system (every call is logged),
   and either yields a value or raises (the raised thing is the response / the
   exception class the harness observes).  Executable definitions only. *)
From Coq Require Import List NArith ZArith Bool.
Import ListNotations.
Require Import Verif.Lib.Wire Verif.Lib.Text Verif.Lib.PathNorm Verif.Lib.C16Posix
               Verif.Gen.Facts_C16 Verif.Model.C16.
Open Scope N_scope.

Inductive outcome (A : Type) : Type := Val (a : A) | Raise (r : resp).
Arguments Val {A} a.
Arguments Raise {A} r.

Definition E (A : Type) : Type := filemap -> M (outcome A * filemap).

Definition eret {A} (a : A) : E A := fun fm => ret (Val a, fm).
Definition eraise {A} (r : resp) : E A := fun fm => ret (Raise r, fm).
Definition ebind {A B} (m : E A) (f : A -> E B) : E B :=
  fun fm => bind (m fm) (fun x => match fst x with
                                  | Val a => f a (snd x)
                                  | Raise r => ret (Raise r, snd x)
                                  end).
Definition lift {A} (m : M A) : E A := fun fm => bind m (fun a => ret (Val a, fm)).

(* self.filemap *)
Definition get_fm : E filemap := fun fm => ret (Val fm, fm).
Definition set_fm (fm' : filemap) : E unit := fun _ => ret (Val tt, fm').

(* os.path.isdir / exists (also behind pkg_resources.resource_isdir / resource_exists) *)
Definition p_isdir (fs : fsys) (p : text) : E bool := lift (bind (stat fs p) (fun e => ret (is_dir e))).
Definition p_exists (fs : fsys) (p : text) : E bool := lift (bind (stat fs p) (fun e => ret (exists_ e))).

(* request.path_url / request.url: UnicodeDecodeError when PATH_INFO is not UTF-8 *)
Definition p_path_url (c : config) (pi : text) : E text :=
  fun fm => ret (match path_url c pi with None => Raise (RExc 2) | Some u => Val u end, fm).

(* <splitter>(request.path_info), the splitter being the regenerated fact *)
Definition p_view_tuple (pi : text) : E (list text) :=
  match view_tuple pi with Datatypes.inl r => eraise r | Datatypes.inr t => eret t end.

(* files.sort(key=lambda x: getsize(x[0])) *)
Definition p_sort_by_size (fs : fsys) (l : list cand) : E (list cand) :=
  lift (bind (sizes fs l) (fun keyed => ret (map snd (sort_by keyed)))).

(* FileResponse(path, request, cache_max_age, content_type, content_encoding); _add_vary *)
Definition p_file_response (fs : fsys) (p : text) (enc : option text) : E resp :=
  fun fm => bind (file_response fs p enc false)
                 (fun r => ret (match r with R200 _ _ _ => Val r | _ => Raise r end, fm)).
Definition set_vary (r : resp) : resp := match r with R200 b e _ => R200 b e true | _ => r end.

Definition nonempty_text (s : text) : bool := match s with [] => false | _ => true end.
Definition is_none {A} (o : option A) : bool := match o with None => true | Some _ => false end.

(* the set of acceptable encodings of find_best_match:
   {x[0] for x in request.accept_encoding.acceptable_offers([enc for _, enc in files if enc is not None])},
   then .add(None), then `encoding in set` *)
Definition accset : Type := (bool * list text)%type.
Fixpoint file_encodings (files : list cand) : list text :=
  match files with
  | [] => []
  | (_, Some e) :: r => e :: file_encodings r
  | (_, None) :: r => file_encodings r
  end.
Definition acc_offers (rq : request) (files : list cand) : accset :=
  (false, filter (fun e => mem_text e (r_ae_ok rq)) (file_encodings files)).
Definition acc_add_none (s : accset) : accset := (true, snd s).
Definition acc_mem (enc : option text) (s : accset) : bool :=
  match enc with None => fst s | Some e => mem_text e (snd s) end.

(* the instance attributes static_view.__init__ binds (cache_max_age is not modelled) *)
Record view_inst := mkView {
  v_package_name : option text; v_docroot : text; v_norm_docroot : text; v_use_subpath : bool; v_index : text;
  v_reload : bool; v_encodings : list (text * list text); v_filemap : filemap
}.

(* reference model of __init__: [caller] = caller_package().__name__, [encmap] = mimetypes.encodings_map.items() *)
Definition init_model (encmap : list (text * text)) (caller root_dir : text) (package_name : option text)
           (use_subpath : bool) (index : text) (reload : bool) (content_encodings : list text) : view_inst :=
  let r := init_root root_dir package_name caller in
  mkView (fst r) (snd r) (normpath (snd r)) use_subpath index reload (compile_encodings content_encodings encmap) [].

Definition nonempty_list {A} (l : list A) : bool := match l with [] => false | _ => true end.

(* a, b = s.split(c, 1) where c occurs in s (the translator emits it only under that knowledge) *)
Definition split1 (ch : N) (s : text) : text * text :=
  match split_once ch s with Some p => p | None => (s, []) end.
