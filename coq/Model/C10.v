(* C10 -- signed cookie sessions: request chains over the reference model (Model/C10_base.v) and over the
   program regenerated from src/pyramid/session.py (Gen/Prog_C10.v), declarative specification, concrete
   JSON / base64, wire glue.  Executable definitions only. *)
From Coq Require Import List NArith ZArith Bool.
Import ListNotations.
Require Import Verif.Lib.Wire Verif.Gen.Facts_C10.
Require Export Verif.Model.C10_base Verif.Gen.Prog_C10.

Definition step (o : opts) (p : op) (now : Z) (s : sess) : sess * res :=
  let s1 := fold_left (apply_wrap o now) (map wrapper_of (calls p (st s))) s in
  let s2 := match p with OChanged => mark s1 | _ => s1 end in
  (with_st s2 (fst (raw p (st s))), snd (raw p (st s))).

Fixpoint run_ops (o : opts) (l : list (op * Z)) (s : sess) : sess * list res :=
  match l with
  | [] => (s, [])
  | (p, t) :: r =>
      let '(s1, x) := step o p t s in
      let '(s2, xs) := run_ops o r s1 in (s2, x :: xs)
  end.

(* ------------------------------------------------------------------ response callback *)

Definition payload (s : sess) : jv := JList [tjv (accessed s); tjv (created s); JObj (st s)].
Definition cookie_of (O : oracles) (o : opts) (s : sess) : text :=
  let p := ser O (payload s) in b64 O (mac O (key o) p ++ p).

(* CookieSession._set_cookie *)
Definition set_cookie (O : oracles) (o : opts) (s : sess) (exc : bool) : fin :=
  if negb (soe o) && exc then FNone
  else let c := cookie_of O o s in
       if cmp_eval limit_cmp (Z.of_nat (length c)) (Z.of_N cookie_limit) then FOversize else FCookie c.

Definition finish (O : oracles) (o : opts) (s : sess) (exc : bool) : fin :=
  if dirty s then set_cookie O o s exc else FNone.

(* ------------------------------------------------------------------ requests and chains *)
(* what a request presents: no cookie / the cookie most recently set / an arbitrary byte string /
   an ALTERED cookie: a text that differs from the cookie most recently set (an edit of it, or the same
   payload signed with another secret / salt) -- the harness only uses SAltered for texts that differ *)
Inductive src := SNone | SLast | SText (c : text) | SAltered (c : text).
(* rcb: how many OTHER response callbacks the application registers before / after it uses the session *)
Record req := { rsrc : src; rt : Z; rops : list (op * Z); rexc : bool; rcb : nat * nat }.

Inductive robs :=
| ObsExc                      (* the constructor raised *)
| ObsUnm                      (* outside the modelled domain *)
| Obs (s0 : sess) (rs : list res) (s1 : sess) (f : fin).

Definition present (last : option text) (s : src) : option text :=
  match s with SNone => None | SLast => last | SText c => Some c | SAltered c => Some c end.

Definition run_req (O : oracles) (o : opts) (last : option text) (r : req) : robs :=
  match init O o (present last (rsrc r)) (rt r) with
  | IRaise => ObsExc
  | IUnm => ObsUnm
  | IOk s0 => let '(s1, rs) := run_ops o (rops r) s0 in Obs s0 rs s1 (finish O o s1 (rexc r))
  end.

Definition next_last (last : option text) (ob : robs) : option text :=
  match ob with Obs _ _ _ (FCookie c) => Some c | _ => last end.

Fixpoint run_chain (O : oracles) (o : opts) (last : option text) (l : list req) : list robs :=
  match l with
  | [] => []
  | r :: l' => let ob := run_req O o last r in ob :: run_chain O o (next_last last ob) l'
  end.

(* ------------------------------------------------------------------ the same chains over the program
   REGENERATED from src/pyramid/session.py (Gen/Prog_C10.v): this is what the runner executes *)
Definition meth_of (p : op) : meth :=
  match p with
  | OGet _ _ => MGet | OGetItem _ => MGetItem | OItems => MItems | OValues => MValues
  | OKeys => MKeys | OContains _ => MContains | OLen => MLen | OIter => MIter
  | OClear => MClear | OUpdate _ => MUpdate | OSetDefault _ _ => MSetDefault | OPop _ _ => MPop
  | OPopItem => MPopItem | OSetItem _ _ => MSetItem | ODelItem _ => MDelItem
  | OFlash _ _ _ => MFlash | OPopFlash _ => MPopFlash | OPeekFlash _ => MPeekFlash
  | ONewCsrf _ => MNewCsrf | OGetCsrf _ => MGetCsrf | OChanged => MChanged | OInvalidate => MInvalidate
  | OIor _ => MIor
  end.
(* the body of the method an operation enters: regenerated for the methods CookieSession defines itself,
   the dict operation on the session's data for the wrapped dict methods *)
Definition gbody (o : opts) (now : Z) (p : op) : sess -> sess * res :=
  match p with
  | OFlash msg q dup => gen_flash o now msg q dup
  | OPopFlash q => gen_pop_flash o now q
  | OPeekFlash q => gen_peek_flash o now q
  | ONewCsrf tok => gen_new_csrf o now tok
  | OGetCsrf tok => gen_get_csrf o now tok
  | OInvalidate => gen_invalidate o now
  | OChanged => fun s => (gen_changed s, RV JNull)
  | _ => on_state p
  end.
Definition gstep (o : opts) (p : op) (now : Z) (s : sess) : sess * res :=
  gcall o now (meth_of p) (gbody o now p) s.
Fixpoint grun_ops (o : opts) (l : list (op * Z)) (s : sess) : sess * list res :=
  match l with
  | [] => (s, [])
  | (p, t) :: r =>
      let '(s1, x) := gstep o p t s in
      let '(s2, xs) := grun_ops o r s1 in (s2, x :: xs)
  end.
(* the response callback registered by changed(): runs iff the session is dirty *)
Definition gfinish (O : oracles) (o : opts) (s : sess) (exc : bool) : fin :=
  if dirty s then gen_set_cookie O o exc s else FNone.
(* the same through the REQUEST's callback queue (regenerated: gen_add_cb = add_response_callback,
   gen_process_cbs = _process_response_callbacks): the application's other callbacks registered before / after the
   session was used, the session's callback between them iff changed() registered it (dirty) *)
Fixpoint add_others (n : nat) (q : list cb) : list cb :=
  match n with O => q | S n' => add_others n' (gen_add_cb q CbOther) end.
Definition req_queue (s : sess) (nb na : nat) : list cb :=
  let q := add_others nb [] in
  add_others na (if dirty s then gen_add_cb q CbSession else q).
Definition call_cb (O : oracles) (o : opts) (s : sess) (exc : bool) (c : cb) (f : fin) : fin :=
  match c with CbSession => gen_set_cookie O o exc s | CbOther => f end.
Definition gfinish_q (O : oracles) (o : opts) (s : sess) (exc : bool) (n : nat * nat) : fin :=
  gen_process_cbs (call_cb O o s exc) (req_queue s (fst n) (snd n)) FNone.
(* the router's pipeline around it (regenerated: gen_invoke_request = Router.invoke_request): the view's response,
   then the callbacks if there are any *)
Definition gfinish_r (O : oracles) (o : opts) (s : sess) (exc : bool) (n : nat * nat) : fin :=
  let q := req_queue s (fst n) (snd n) in
  match gen_invoke_request (Some FNone) (negb (match q with [] => true | _ => false end))
                           (gen_process_cbs (call_cb O o s exc) q) with
  | Some f => f
  | None => FNone
  end.
(* request.session: the registered factory applied to the request (gen_request_session) *)
Definition grun_req (O : oracles) (o : opts) (last : option text) (r : req) : robs :=
  match gen_request_session (Some (fun _ : unit => gen_init O o (present last (rsrc r)) (rt r))) with
  | None => ObsExc
  | Some IRaise => ObsExc
  | Some IUnm => ObsUnm
  | Some (IOk s0) => let '(s1, rs) := grun_ops o (rops r) s0 in Obs s0 rs s1 (gfinish_r O o s1 (rexc r) (rcb r))
  end.
Fixpoint grun_chain (O : oracles) (o : opts) (last : option text) (l : list req) : list robs :=
  match l with
  | [] => []
  | r :: l' => let ob := grun_req O o last r in ob :: grun_chain O o (next_last last ob) l'
  end.

(* ------------------------------------------------------------------ the factory layer (regenerated:
   gen_signed_factory, gen_config, gen_canon_loads / gen_canon_dumps of Gen/Prog_C10.v) *)
(* loads / dumps of the serializer object the factory built *)
Fixpoint ser_loads (O : oracles) (d : serdesc) (c : text) : option jv :=
  match d with
  | SSigned sec salt => signed_loads O (salted_key salt sec) c
  | SCanon d' => gen_canon_loads O (ser_loads O d') c
  end.
Fixpoint ser_dumps (O : oracles) (d : serdesc) (p : jv) : text :=
  match d with
  | SSigned sec salt => signed_dumps O (salted_key salt sec) p
  | SCanon d' => gen_canon_dumps (ser_dumps O d') p
  end.
(* SignedCookieSessionFactory(..) -> the session class with its options converted at configuration time *)
Inductive facres := FacOk (o : opts) | FacRaise | FacUnm.
Definition opts_of (k : text) (c : cfg) : opts :=
  {| key := k; timeout := c_timeout c; reissue := c_reissue c; soe := py_truth (c_soe c) |}.
Definition gfactory (a : fargs) : facres :=
  let b := gen_signed_factory a in
  match gen_config b with
  | CfgOk c => FacOk (opts_of (ser_key (b_ser b)) c)
  | CfgRaise => FacRaise
  | CfgUnm => FacUnm
  end.
(* declarative reading of the documented options: None stays None (never expires / never reissued), everything else
   goes through int() ONCE at configuration time -- 0, False and 0.0 are the number 0, not "unset" -- ; the key is
   salt ++ secret (latin-1, else UTF-8), an absent or empty salt being the empty string; set_on_exception counts by truth value *)
Definition spec_factory (a : fargs) : facres :=
  match cfg_conv (fa_max_age a), cfg_conv (fa_reissue a), cfg_conv (fa_timeout a) with
  | OOk _, OOk r, OOk t =>
      FacOk {| key := salted_key (fa_salt a) (fa_secret a); timeout := t; reissue := r; soe := py_truth (fa_soe a) |}
  | OUnm, _, _ => FacUnm
  | ORaise, _, _ => FacRaise
  | OOk _, OUnm, _ => FacUnm
  | OOk _, ORaise, _ => FacRaise
  | OOk _, OOk _, OUnm => FacUnm
  | OOk _, OOk _, ORaise => FacRaise
  end.
(* the max-age attribute the cookies will carry *)
Definition gfactory_max_age (a : fargs) : option (option Z) :=
  match gen_config (gen_signed_factory a) with CfgOk c => Some (c_max_age c) | _ => None end.

(* a CALL of the factory: arguments bound as the signature in the source says (gen_sig, gen_defaults: regenerated) *)
Definition gfactory_call (c : fcall) : facres :=
  match bind_call gen_sig gen_defaults c with
  | None => FacRaise
  | Some l => match fargs_of l with Some a => gfactory a | None => FacUnm end
  end.
Definition gcall_max_age (c : fcall) : option (option Z) :=
  match bind_call gen_sig gen_defaults c with
  | Some l => match fargs_of l with Some a => gfactory_max_age a | None => None end
  | None => None
  end.
(* the attributes the cookies will carry (raw option values; WebOb renders them) *)
Definition gcall_attrs (c : fcall) : option attrs :=
  match bind_call gen_sig gen_defaults c with
  | Some l => match fargs_of l with
              | Some a => match gen_config (gen_signed_factory a) with CfgOk g => Some (c_attrs g) | _ => None end
              | None => None
              end
  | None => None
  end.
(* documented: each attribute is the value the caller gave for it, else the documented default *)
Definition doc_attrs (c : fcall) : option attrs :=
  match doc_bind c with
  | Some l => match fargs_of l with Some a => Some (fa_attrs a) | None => None end
  | None => None
  end.
(* the documented reading of the same call *)
Definition spec_factory_call (c : fcall) : facres :=
  match doc_bind c with
  | None => FacRaise
  | Some l => match fargs_of l with Some a => spec_factory a | None => FacUnm end
  end.

(* ================================================================== declarative specification *)
(* The property speaks about a store: what the cookie most recently set holds.  No cookie
   bytes, no signature, no wrappers here. *)
Record store := { s_st : dict; s_created : Z; s_acc : tnum }.

Inductive cls := CAcc | CMut | CMark.
(* the semantic kind of each public operation (the property's own reading of the API) *)
Definition op_cls (p : op) (d : dict) : cls :=
  match p with
  | OGet _ _ | OGetItem _ | OItems | OValues | OKeys | OContains _ | OLen | OIter | OPeekFlash _ => CAcc
  | OGetCsrf _ => if token_absent d then CMut else CAcc
  | OChanged => CMark
  | _ => CMut
  end.

(* does the byte string carry a signature valid under the key? *)
Definition valid_signed (O : oracles) (k c : text) : bool :=
  match unb64 O c with
  | Some f => negb (canonical_check && negb (text_eqb (b64 O f) c))
              && text_eqb (mac O k (skipn (ds O) f)) (firstn (ds O) f)
  | None => false
  end.

Record sobs := { b_new : bool; b_created : Z; b_start : dict; b_res : list res; b_end : dict; b_fin : N }.
(* b_fin: 0 no cookie, 1 cookie set, 2 refused (too long) *)

(* state at the start of a request *)
Definition spec_start (o : opts) (sv : option store) (now : Z) : bool * Z * Z * dict :=
  match sv with
  | None => (true, now, now, [])
  | Some s =>
      let expired := match timeout o with Some t => Z.gtb (now - tval (s_acc s)) (t * tick) | None => false end in
      (false, s_created s, tval (s_acc s), if expired then [] else s_st s)
  end.

(* fold over the operations: (state, time stamp to be stored, modified?) *)
Fixpoint spec_ops (o : opts) (rn : Z) (l : list (op * Z)) (d : dict) (acc : tnum) (md : bool)
  : dict * tnum * bool * list res :=
  match l with
  | [] => (d, acc, md, [])
  | (p, t) :: r =>
      let '(acc1, md1) :=
        match op_cls p d with
        | CAcc => (TI (int_time t),
                   md || match reissue o with Some ri => Z.gtb (int_time t * tick - rn) (ri * tick) | None => false end)
        | CMut => (TI (int_time t), true)
        | CMark => (acc, true)
        end in
      let '(d2, acc2, md2, xs) := spec_ops o rn r (fst (raw p d)) acc1 md1 in
      (d2, acc2, md2, snd (raw p d) :: xs)
  end.

(* the cookie size limit the property speaks of (a property-level constant, deliberately not
   the regenerated one: if the check disappears from the code the specification keeps it) *)
Definition spec_limit : N := 4064%N.

Definition store_sess (sv : store) : sess :=
  {| st := s_st sv; created := TF (s_created sv); accessed := s_acc sv; renewed := s_acc sv; isnew := false; dirty := true |}.

Definition spec_req (O : oracles) (o : opts) (sv : option store) (r : req) : sobs * option store :=
  let '(nw, cr, rn, d0) := spec_start o sv (rt r) in
  let '(d1, acc, md, xs) := spec_ops o rn (rops r) d0 (TF rn) false in
  let sv1 := {| s_st := d1; s_created := cr; s_acc := acc |} in
  let f := if md && negb (negb (soe o) && rexc r)
           then if Z.gtb (Z.of_nat (length (cookie_of O o (store_sess sv1)))) (Z.of_N spec_limit) then 2%N else 1%N
           else 0%N in
  ({| b_new := nw; b_created := cr; b_start := d0; b_res := xs; b_end := d1; b_fin := f |},
   if N.eqb f 1 then Some sv1 else sv).

(* None = the property does not constrain this request (a presented byte string that is
   validly signed although it is not the cookie last set, or anything after such a request) *)
Fixpoint spec_chain (O : oracles) (o : opts) (sv : option store) (live : bool) (l : list req) : list (option sobs) :=
  match l with
  | [] => []
  | r :: l' =>
      if negb live then None :: spec_chain O o sv false l'
      else
        match rsrc r with
        | SText c =>
            if valid_signed O (key o) c then None :: spec_chain O o sv false l'
            else let '(ob, sv') := spec_req O o None r in
                 Some ob :: spec_chain O o (match sv' with Some x => Some x | None => sv end) true l'
        | SNone =>
            let '(ob, sv') := spec_req O o None r in
            Some ob :: spec_chain O o (match sv' with Some x => Some x | None => sv end) true l'
        | SAltered _ =>
            (* "a cookie that was altered in any way ... yields a new empty session": whatever the text *)
            let '(ob, sv') := spec_req O o None r in
            Some ob :: spec_chain O o (match sv' with Some x => Some x | None => sv end) true l'
        | SLast =>
            let '(ob, sv') := spec_req O o sv r in Some ob :: spec_chain O o sv' true l'
        end
  end.

(* which wrapper each method must carry for the property to hold: every method whose dict-level
   effect can change the state carries manage_changed (2), every reading method manage_accessed (1);
   changed() and invalidate() are bare (invalidate goes through the wrapped clear) *)
Definition expected_wrapper (m : meth) : N :=
  match m with
  | MGet | MGetItem | MItems | MValues | MKeys | MContains | MLen | MIter | MPeekFlash | MGetCsrf => 1%N
  | MChanged | MInvalidate => 0%N
  | _ => 2%N
  end.

(* the effect on time stamp and dirty flag that the property expects of an operation of each kind *)
Definition eff (o : opts) (c : cls) (now : Z) (s : sess) : sess :=
  match c with CAcc => apply_wrap o now s 1%N | CMut => apply_wrap o now s 2%N | CMark => mark s end.

Definition fresh_sess (now : Z) : sess :=
  {| st := []; created := TF now; accessed := TF now; renewed := TF now; isnew := true; dirty := false |}.

(* premises about the third-party functions, stated explicitly in the theorems that need them *)
Definition rt_b64 (O : oracles) : Prop := forall x, unb64 O (b64 O x) = Some x.
Definition rt_ser (O : oracles) : Prop := forall p, deser O (ser O p) = Some p.
Definition mac_len (O : oracles) : Prop := forall k m, length (mac O k m) = ds O.

(* the session the property expects at the start of a request, given what the last cookie holds *)
Definition start_sess (o : opts) (sv : option store) (now : Z) : sess :=
  let '(nw, cr, rn, d0) := spec_start o sv now in
  {| st := d0; created := TF cr; accessed := TF rn; renewed := TF rn; isnew := nw; dirty := false |}.

(* link between the cookie last set (model) and the store (specification) *)
Definition inv (O : oracles) (o : opts) (last : option text) (sv : option store) : Prop :=
  match last, sv with
  | None, None => True
  | Some c, Some v => c = cookie_of O o (store_sess v)
  | _, _ => False
  end.

Definition fin_code (f : fin) : N := match f with FNone => 0 | FCookie _ => 1 | FOversize => 2 end.
Definition proj (ob : robs) : option sobs :=
  match ob with
  | Obs s0 rs s1 f => Some {| b_new := isnew s0; b_created := tval (created s0); b_start := st s0;
                              b_res := rs; b_end := st s1; b_fin := fin_code f |}
  | _ => None
  end.

(* the same premises restricted to the payloads of states satisfying W (the real JSON / base64
   round trips hold for well-formed data only: no lone surrogates, bytes < 256) *)
Definition codec_at (O : oracles) (k : text) (s : sess) : Prop :=
  let p := ser O (payload s) in
  unb64 O (b64 O (mac O k p ++ p)) = Some (mac O k p ++ p) /\ deser O p = Some (payload s).
Definition codec_ok (O : oracles) (k : text) (W : dict -> Prop) : Prop :=
  forall s, W (st s) -> codec_at O k s.
Definition closed (W : dict -> Prop) (p : op) : Prop := forall d, W d -> W (fst (raw p d)).
Definition chain_closed (W : dict -> Prop) (l : list req) : Prop :=
  Forall (fun r => Forall (fun pt => closed W (fst pt)) (rops r)) l.
Definition inv_on (O : oracles) (o : opts) (W : dict -> Prop) (last : option text) (sv : option store) : Prop :=
  match last, sv with
  | None, None => True
  | Some c, Some v => c = cookie_of O o (store_sess v) /\ W (s_st v)
  | _, _ => False
  end.

(* the clause "an altered cookie yields a new empty session" holds of the code only for altered texts the
   signature check refuses; with the lenient base64 decoder an altered TEXT can decode to the very same bytes
   (see the _refuted theorems), hence this premise of the chain theorems *)
Definition chain_ok (O : oracles) (o : opts) (l : list req) : Prop :=
  Forall (fun r => match rsrc r with SAltered c => valid_signed O (key o) c = false | _ => True end) l.

(* once only the canonical text of a cookie is accepted (canonical_check), that premise shrinks to unforgeability:
   an altered text is not the signed encoding of ANY byte string under the key *)
Definition unforged (O : oracles) (o : opts) (l : list req) : Prop :=
  Forall (fun r => match rsrc r with
                   | SAltered c => forall m, c <> b64 O (mac O (key o) m ++ m)
                   | _ => True
                   end) l.

Definition ok_at (ob : robs) (sp : option sobs) : Prop :=
  match sp with None => True | Some b => proj ob = Some b end.

(* ================================================================== concrete instances for the runner *)
(* json.dumps (ensure_ascii, default separators) on the data model *)
Definition hexd (n : N) : N := if (n <? 10)%N then (48 + n)%N else (87 + n)%N.
Definition u4 (c : N) : text :=
  [92; 117; hexd (c / 4096); hexd ((c / 256) mod 16); hexd ((c / 16) mod 16); hexd (c mod 16)]%N.
Definition esc_char (c : N) : text :=
  if (c =? 34)%N then [92; 34]%N else if (c =? 92)%N then [92; 92]%N
  else if (c =? 10)%N then [92; 110]%N else if (c =? 13)%N then [92; 114]%N
  else if (c =? 9)%N then [92; 116]%N else if (c =? 8)%N then [92; 98]%N
  else if (c =? 12)%N then [92; 102]%N
  else if (32 <=? c)%N && (c <=? 126)%N then [c]
  else if (c <? 65536)%N then u4 c
  else let v := (c - 65536)%N in u4 (55296 + v / 1024) ++ u4 (56320 + v mod 1024).
Definition json_str (s : text) : text := 34%N :: flat_map esc_char s ++ [34%N].

Fixpoint dec_fuel (f : nat) (n : N) (acc : text) : text :=
  match f with
  | O => acc
  | S f' => let acc' := (48 + n mod 10)%N :: acc in
            if (n / 10 =? 0)%N then acc' else dec_fuel f' (n / 10) acc'
  end.
Definition dec_N (n : N) : text := dec_fuel (S (N.to_nat (N.log2 n))) n [].
Definition dec_Z (z : Z) : text := if (z <? 0)%Z then 45%N :: dec_N (Z.abs_N z) else dec_N (Z.to_N z).

(* repr of the float q/4 *)
Definition frac_repr (r : N) : text :=
  match r with 0%N => [48]%N | 1%N => [50; 53]%N | 2%N => [53]%N | _ => [55; 53]%N end.
Definition flt_repr (q : Z) : text :=
  (if (q <? 0)%Z then [45%N] else []) ++ dec_N (Z.abs_N q / 4) ++ [46%N] ++ frac_repr (Z.abs_N q mod 4).

Fixpoint join_sep (l : list text) : text :=       (* ", ".join(l) *)
  match l with
  | [] => []
  | x :: r => match r with [] => x | _ => x ++ [44; 32]%N ++ join_sep r end
  end.

Fixpoint json_dumps (v : jv) : text :=
  match v with
  | JNull => [110; 117; 108; 108]%N
  | JBool true => [116; 114; 117; 101]%N
  | JBool false => [102; 97; 108; 115; 101]%N
  | JInt z => dec_Z z
  | JFlt q => flt_repr q
  | JStr s => json_str s
  | JList l => 91%N :: join_sep (map json_dumps l) ++ [93%N]
  | JObj m => 123%N :: join_sep (map (fun kv => json_str (fst kv) ++ [58; 32]%N ++ json_dumps (snd kv)) m) ++ [125%N]
  end.

(* ---- a reader for exactly this output format (json.loads restricted to what json.dumps writes) *)
Definition hexv (c : N) : option N :=
  if is_digit c then Some (c - 48)%N
  else if (97 <=? c)%N && (c <=? 102)%N then Some (c - 87)%N
  else if (65 <=? c)%N && (c <=? 70)%N then Some (c - 55)%N else None.
Definition read_u4 (l : text) : option (N * text) :=
  match l with
  | a :: b :: c :: d :: r =>
      match hexv a, hexv b, hexv c, hexv d with
      | Some a, Some b, Some c, Some d => Some ((((a * 16 + b) * 16 + c) * 16 + d)%N, r)
      | _, _, _, _ => None
      end
  | _ => None
  end.
Definition unesc (e : N) : option N :=
  if (e =? 34)%N then Some 34%N else if (e =? 92)%N then Some 92%N else if (e =? 47)%N then Some 47%N
  else if (e =? 110)%N then Some 10%N else if (e =? 114)%N then Some 13%N else if (e =? 116)%N then Some 9%N
  else if (e =? 98)%N then Some 8%N else if (e =? 102)%N then Some 12%N else None.
Definition cons_res (c : N) (x : option (text * text)) : option (text * text) :=
  match x with Some (s, r) => Some (c :: s, r) | None => None end.

(* after the opening quote *)
Fixpoint read_str (f : nat) (l : text) : option (text * text) :=
  match f with
  | O => None
  | S f' =>
      match l with
      | [] => None
      | c :: r =>
          if (c =? 34)%N then Some ([], r)
          else if (c =? 92)%N then
            match r with
            | [] => None
            | e :: r1 =>
                if (e =? 117)%N then
                  match read_u4 r1 with
                  | None => None
                  | Some (h, r2) =>
                      if (55296 <=? h)%N && (h <=? 56319)%N then
                        match r2 with
                        | a :: b :: r3 =>
                            if (a =? 92)%N && (b =? 117)%N then
                              match read_u4 r3 with
                              | Some (lo, r4) =>
                                  if (56320 <=? lo)%N && (lo <=? 57343)%N
                                  then cons_res (65536 + (h - 55296) * 1024 + (lo - 56320))%N (read_str f' r4)
                                  else cons_res h (read_str f' r2)
                              | None => None
                              end
                            else cons_res h (read_str f' r2)
                        | _ => cons_res h (read_str f' r2)
                        end
                      else cons_res h (read_str f' r2)
                  end
                else match unesc e with Some x => cons_res x (read_str f' r1) | None => None end
            end
          else cons_res c (read_str f' r)
      end
  end.

Fixpoint span_digits (l : text) : text * text :=
  match l with
  | [] => ([], [])
  | c :: r => if is_digit c then let '(a, b) := span_digits r in (c :: a, b) else ([], l)
  end.
Definition numval (s : text) (a : N) : N := fold_left (fun a c => (a * 10 + (c - 48))%N) s a.

Definition read_num (l : text) : option (jv * text) :=
  let '(neg, l1) := match l with c :: r => if (c =? 45)%N then (true, r) else (false, l) | [] => (false, l) end in
  let '(dsx, r) := span_digits l1 in
  match dsx with
  | [] => None
  | _ =>
      let n := Z.of_N (numval dsx 0) in
      let sg := fun z : Z => if neg then Z.opp z else z in
      match r with
      | d :: a :: r1 =>
          if (d =? 46)%N then
            if (a =? 48)%N then Some (JFlt (sg (n * 4)%Z), r1)
            else if (a =? 53)%N then Some (JFlt (sg (n * 4 + 2)%Z), r1)
            else match r1 with
                 | b :: r2 =>
                     if (a =? 50)%N && (b =? 53)%N then Some (JFlt (sg (n * 4 + 1)%Z), r2)
                     else if (a =? 55)%N && (b =? 53)%N then Some (JFlt (sg (n * 4 + 3)%Z), r2)
                     else None
                 | [] => None
                 end
          else Some (JInt (sg n), r)
      | _ => Some (JInt (sg n), r)
      end
  end.

Definition reader := text -> option (jv * text).

(* items after '[' (at least one), up to and including ']' *)
Fixpoint p_items (d : reader) (k : nat) (l : text) : option (list jv * text) :=
  match k with
  | O => None
  | S k' =>
      match d l with
      | None => None
      | Some (v, r) =>
          match r with
          | c :: r1 =>
              if (c =? 93)%N then Some ([v], r1)
              else if (c =? 44)%N then
                match r1 with
                | sp :: r2 =>
                    if (sp =? 32)%N then
                      match p_items d k' r2 with Some (vs, r3) => Some (v :: vs, r3) | None => None end
                    else None
                | [] => None
                end
              else None
          | [] => None
          end
      end
  end.

(* pairs after '{' (at least one), up to and including '}' *)
Fixpoint p_pairs (d : reader) (f k : nat) (l : text) : option (list (text * jv) * text) :=
  match k with
  | O => None
  | S k' =>
      match l with
      | q :: l1 =>
          if (q =? 34)%N then
            match read_str f l1 with
            | Some (key, c1 :: c2 :: l2) =>
                if (c1 =? 58)%N && (c2 =? 32)%N then
                  match d l2 with
                  | None => None
                  | Some (v, r) =>
                      match r with
                      | c :: r1 =>
                          if (c =? 125)%N then Some ([(key, v)], r1)
                          else if (c =? 44)%N then
                            match r1 with
                            | sp :: r2 =>
                                if (sp =? 32)%N then
                                  match p_pairs d f k' r2 with Some (vs, r3) => Some ((key, v) :: vs, r3) | None => None end
                                else None
                            | [] => None
                            end
                          else None
                      | [] => None
                      end
                  end
                else None
            | _ => None
            end
          else None
      | [] => None
      end
  end.

Fixpoint strip_lit (p s : text) : option text :=
  match p with
  | [] => Some s
  | x :: p' => match s with y :: s' => if (x =? y)%N then strip_lit p' s' else None | [] => None end
  end.

Fixpoint parse (f : nat) (l : text) : option (jv * text) :=
  match f with
  | O => None
  | S f' =>
      match l with
      | [] => None
      | c :: r =>
          if (c =? 110)%N then match strip_lit [117; 108; 108]%N r with Some r' => Some (JNull, r') | None => None end
          else if (c =? 116)%N then match strip_lit [114; 117; 101]%N r with Some r' => Some (JBool true, r') | None => None end
          else if (c =? 102)%N then match strip_lit [97; 108; 115; 101]%N r with Some r' => Some (JBool false, r') | None => None end
          else if (c =? 34)%N then match read_str f' r with Some (s, r') => Some (JStr s, r') | None => None end
          else if (c =? 91)%N then
            match r with
            | c1 :: r1 => if (c1 =? 93)%N then Some (JList [], r1)
                          else match p_items (parse f') f' r with Some (vs, r') => Some (JList vs, r') | None => None end
            | [] => None
            end
          else if (c =? 123)%N then
            match r with
            | c1 :: r1 => if (c1 =? 125)%N then Some (JObj [], r1)
                          else match p_pairs (parse f') f' f' r with Some (vs, r') => Some (JObj vs, r') | None => None end
            | [] => None
            end
          else read_num l
      end
  end.

Definition json_loads (b : text) : option jv :=
  match parse (length b) b with Some (v, []) => Some v | _ => None end.

(* well-formed data: strings of Unicode scalar values (json.dumps writes a lone surrogate as an
   escape that json.loads may merge with its neighbour, so those do not round-trip in Python either) *)
Definition wf_char (c : N) : bool := (c <? 1114112)%N && negb ((55296 <=? c)%N && (c <=? 57343)%N).
Fixpoint wf_jv (v : jv) : bool :=
  match v with
  | JStr s => forallb wf_char s
  | JList l => forallb wf_jv l
  | JObj m => forallb (fun kv => forallb wf_char (fst kv) && wf_jv (snd kv)) m
  | _ => true
  end.
Definition wf_dict (d : dict) : bool := wf_jv (JObj d).

(* base64.urlsafe_b64encode(..).rstrip(b'=') *)
Definition b64c (n : N) : N :=
  if (n <? 26)%N then (65 + n)%N else if (n <? 52)%N then (71 + n)%N
  else if (n <? 62)%N then (n - 4)%N else if (n =? 62)%N then 45%N else 95%N.
Fixpoint b64enc (l : list N) : text :=
  match l with
  | a :: b :: c :: r =>
      [b64c (a / 4); b64c ((a mod 4) * 16 + b / 16); b64c ((b mod 16) * 4 + c / 64); b64c (c mod 64)]%N ++ b64enc r
  | [a; b] => [b64c (a / 4); b64c ((a mod 4) * 16 + b / 16); b64c ((b mod 16) * 4)]%N
  | [a] => [b64c (a / 4); b64c ((a mod 4) * 16)]%N
  | [] => []
  end.

(* operations whose arguments are well-formed data *)
Definition wf_text (s : text) : bool := forallb wf_char s.
Definition wf_op (p : op) : bool :=
  match p with
  | OUpdate m | OIor m => wf_dict m
  | OSetDefault k d => wf_text k && wf_jv d
  | OSetItem k v => wf_text k && wf_jv v
  | OFlash msg q _ => wf_jv msg && wf_text q
  | ONewCsrf tok | OGetCsrf tok => wf_text tok
  | _ => true
  end.
Definition wf_chain (l : list req) : Prop :=
  Forall (fun r => Forall (fun pt => wf_op (fst pt) = true) (rops r)) l.

(* bytes_(c) (latin-1) ; c + '=' * (-len(c) % 4) ; base64.urlsafe_b64decode, i.e. binascii.a2b_base64 in its
   default NON-STRICT mode after translating '-' '_' to '+' '/':  both alphabets are accepted, every other character
   (also whitespace and bytes >= 128) is DISCARDED, '=' is ignored unless it completes a quantum (then everything after
   it is ignored), and the data must not end inside a quantum.  None = UnicodeEncodeError / binascii.Error. *)
Definition b64v (c : N) : option N :=
  if (65 <=? c)%N && (c <=? 90)%N then Some (c - 65)%N
  else if (97 <=? c)%N && (c <=? 122)%N then Some (c - 71)%N
  else if (48 <=? c)%N && (c <=? 57)%N then Some (c + 4)%N
  else if (c =? 45)%N || (c =? 43)%N then Some 62%N
  else if (c =? 95)%N || (c =? 47)%N then Some 63%N else None.
Definition ocons (b : N) (x : option (list N)) : option (list N) :=
  match x with Some l => Some (b :: l) | None => None end.
Fixpoint b64go (l : text) (qp left pads : N) : option (list N) :=
  match l with
  | [] => if (qp =? 0)%N then Some [] else None
  | c :: r =>
      if (c =? 61)%N then
        if (2 <=? qp)%N
        then if (4 <=? qp + (pads + 1))%N then Some [] else b64go r qp left (pads + 1)%N
        else b64go r qp left pads
      else
        match b64v c with
        | None => b64go r qp left pads
        | Some v =>
            if (qp =? 0)%N then b64go r 1%N v 0%N
            else if (qp =? 1)%N then ocons (left * 4 + v / 16)%N (b64go r 2%N (v mod 16)%N 0%N)
            else if (qp =? 2)%N then ocons (left * 16 + v / 4)%N (b64go r 3%N (v mod 4)%N 0%N)
            else ocons (left * 64 + v)%N (b64go r 0%N 0%N 0%N)
        end
  end.
Definition b64pad (n : nat) : text := repeat 61%N (Nat.modulo (4 - Nat.modulo n 4) 4).
Definition b64dec (c : text) : option (list N) :=
  if existsb (fun x => (256 <=? x)%N) c then None
  else b64go (c ++ b64pad (length c)) 0%N 0%N 0%N.

(* the real wire format: JSON + urlsafe base64 as written/read above; only the MAC stays abstract *)
Definition real_O (macf : text -> text -> text) (n : nat) : oracles :=
  {| mac := macf; ser := json_dumps; deser := json_loads; b64 := b64enc; unb64 := b64dec; ds := n |}.

(* ------------------------------------------------------------------ wire glue *)
Fixpoint get_jv (v : val) : option jv :=
  match v with
  | VL [VI 0%Z] => Some JNull
  | VL [VI 1%Z; VI b] => Some (JBool (negb (Z.eqb b 0)))
  | VL [VI 2%Z; VI z] => Some (JInt z)
  | VL [VI 3%Z; VI z] => Some (JFlt z)
  | VL [VI 4%Z; VT s] => Some (JStr s)
  | VL [VI 5%Z; VL l] =>
      match (fix go (l : list val) : option (list jv) :=
               match l with
               | [] => Some []
               | x :: r => match get_jv x, go r with Some y, Some ys => Some (y :: ys) | _, _ => None end
               end) l with
      | Some ys => Some (JList ys) | None => None end
  | VL [VI 6%Z; VL l] =>
      match (fix go (l : list val) : option (list (text * jv)) :=
               match l with
               | [] => Some []
               | VL [VT k; x] :: r => match get_jv x, go r with Some y, Some ys => Some ((k, y) :: ys) | _, _ => None end
               | _ => None
               end) l with
      | Some ys => Some (JObj ys) | None => None end
  | _ => None
  end.

Fixpoint put_jv (v : jv) : val :=
  match v with
  | JNull => VL [VI 0]
  | JBool b => VL [VI 1; vbool b]
  | JInt z => VL [VI 2; VI z]
  | JFlt z => VL [VI 3; VI z]
  | JStr s => VL [VI 4; VT s]
  | JList l => VL [VI 5; VL (map put_jv l)]
  | JObj m => VL [VI 6; VL ((fix go (m : list (text * jv)) : list val :=
                               match m with [] => [] | (k, x) :: r => VL [VT k; put_jv x] :: go r end) m)]
  end.

Definition get_dict (v : val) : option dict :=
  match get_jv v with Some (JObj m) => Some m | _ => None end.
Definition put_dict (d : dict) : val := put_jv (JObj d).

Definition get_optZ (v : val) : option (option Z) := get_opt get_Z v.

Definition get_op (v : val) : option op :=
  match v with
  | VL [VI 0%Z; VT k; d] => olet d := get_jv d in Some (OGet k d)
  | VL [VI 1%Z; VT k] => Some (OGetItem k)
  | VL [VI 2%Z] => Some OItems
  | VL [VI 3%Z] => Some OValues
  | VL [VI 4%Z] => Some OKeys
  | VL [VI 5%Z; VT k] => Some (OContains k)
  | VL [VI 6%Z] => Some OLen
  | VL [VI 7%Z] => Some OIter
  | VL [VI 8%Z] => Some OClear
  | VL [VI 9%Z; m] => olet m := get_dict m in Some (OUpdate m)
  | VL [VI 10%Z; VT k; d] => olet d := get_jv d in Some (OSetDefault k d)
  | VL [VI 11%Z; VT k; d] => olet d := get_opt get_jv d in Some (OPop k d)
  | VL [VI 12%Z] => Some OPopItem
  | VL [VI 13%Z; VT k; x] => olet x := get_jv x in Some (OSetItem k x)
  | VL [VI 14%Z; VT k] => Some (ODelItem k)
  | VL [VI 15%Z; m; VT q; VI b] => olet m := get_jv m in Some (OFlash m q (negb (Z.eqb b 0)))
  | VL [VI 16%Z; VT q] => Some (OPopFlash q)
  | VL [VI 17%Z; VT q] => Some (OPeekFlash q)
  | VL [VI 18%Z; VT t] => Some (ONewCsrf t)
  | VL [VI 19%Z; VT t] => Some (OGetCsrf t)
  | VL [VI 20%Z] => Some OChanged
  | VL [VI 21%Z] => Some OInvalidate
  | VL [VI 22%Z; m] => olet m := get_dict m in Some (OIor m)
  | _ => None
  end.

Definition get_opt_at (v : val) : option (op * Z) :=
  match v with VL [p; VI t] => olet p := get_op p in Some (p, t) | _ => None end.

Definition get_src (v : val) : option src :=
  match v with
  | VL [] => Some SNone | VL [VI _] => Some SLast | VL [VT c] => Some (SText c)
  | VL [VT c; VI _] => Some (SAltered c) | _ => None
  end.

Definition get_req (v : val) : option req :=
  match v with
  | VL [s; VI t; ops; VI e; VI nb; VI na] =>
      olet s := get_src s in olet ops := get_list_of get_opt_at ops in
      Some {| rsrc := s; rt := t; rops := ops; rexc := negb (Z.eqb e 0); rcb := (Z.to_nat nb, Z.to_nat na) |}
  | VL [s; VI t; ops; VI e] =>
      olet s := get_src s in olet ops := get_list_of get_opt_at ops in
      Some {| rsrc := s; rt := t; rops := ops; rexc := negb (Z.eqb e 0); rcb := (0%nat, 0%nat) |}
  | _ => None
  end.

Definition get_cfgv (v : val) : option cfgv :=
  match v with
  | VL [] => Some CNone
  | VL [VI 0%Z; VI z] => Some (CInt z)
  | VL [VI 1%Z; VI b] => Some (CBool (negb (Z.eqb b 0)))
  | VL [VI 2%Z; VI q] => Some (CFlt q)
  | VL [VI 3%Z; VT s] => Some (CStr s)
  | _ => None
  end.
(* a call of SignedCookieSessionFactory: [npos; the 14 values in documented order, [] = not given] *)
Definition get_fcall (v : val) : option fcall :=
  match v with
  | VL [VI n; vs] =>
      olet vs := get_list_of (get_opt get_cfgv) vs in Some {| c_npos := Z.to_nat n; c_vals := vs |}
  | _ => None
  end.

(* oracle tables computed by the harness with the real libraries *)
Definition get_mac_row (v : val) : option (text * (text * text)) :=
  match v with VL [VT k; VT m; VT d] => Some (k, (m, d)) | _ => None end.
Definition get_unb_row (v : val) : option (text * option text) :=
  match v with VL [VT c; b] => olet b := get_opt get_text b in Some (c, b) | _ => None end.
Definition get_des_row (v : val) : option (text * option jv) :=
  match v with VL [VT c; b] => olet b := get_opt get_jv b in Some (c, b) | _ => None end.

Fixpoint lookup_mac (k m : text) (l : list (text * (text * text))) : text :=
  match l with
  | [] => [77; 73; 83; 83]%N       (* "MISS": the harness did not supply this digest *)
  | (k', (m', d)) :: r => if text_eqb k k' && text_eqb m m' then d else lookup_mac k m r
  end.

Definition table_oracles (n : nat) (macs : list (text * (text * text)))
           (unbs : list (text * option text)) (dess : list (text * option jv)) : oracles :=
  {| mac := fun k m => lookup_mac k m macs;
     ser := json_dumps;
     deser := fun b => match lookup_tab b dess with Some x => x | None => None end;
     b64 := b64enc;
     unb64 := b64dec;      (* the Gallina model of bytes_ + padding + base64.urlsafe_b64decode (lenient) *)
     ds := n |}.

Definition put_tnum (t : tnum) : val := match t with TI z => VL [VI 2; VI z] | TF z => VL [VI 3; VI z] end.
Definition put_res (r : res) : val :=
  match r with RV v => VL [VI 0; put_jv v] | RErr e => VL [VI 1; vN e] | RUnm => VL [VI 2] end.
Definition put_sess (s : sess) : val :=
  VL [put_dict (st s); put_tnum (created s); put_tnum (accessed s); put_tnum (renewed s); vbool (isnew s); vbool (dirty s)].
Definition put_fin (f : fin) : val :=
  match f with FNone => VL [VI 0] | FCookie c => VL [VI 1; VT c] | FOversize => VL [VI 2] end.
Definition put_robs (ob : robs) : val :=
  match ob with
  | ObsExc => VL [VI 1]
  | ObsUnm => VL [VI 2]
  | Obs s0 rs s1 f => VL [VI 0; put_sess s0; VL (map put_res rs); put_sess s1; put_fin f]
  end.
Definition put_sobs (ob : option sobs) : val :=
  match ob with
  | None => VL []
  | Some b => VL [VL [vbool (b_new b); VI (b_created b); put_dict (b_start b); VL (map put_res (b_res b));
                      put_dict (b_end b); vN (b_fin b)]]
  end.

(* case = [[ds; macs; unb64s; desers]; factory arguments; requests]
   answer = [observations of the program regenerated from the source; spec observations; max-age attribute;
             the other cookie attributes]
            [1; spec?] the factory call raises   [2] outside the modelled domain *)
Definition put_cfgv (v : cfgv) : val :=
  match v with
  | CNone => VL [] | CInt z => VL [VI 0; VI z] | CBool b => VL [VI 1; vbool b] | CFlt q => VL [VI 2; VI q]
  | CStr s => VL [VI 3; VT s]
  end.
Definition put_attrs (x : option attrs) : val :=
  match x with
  | Some a => VL (map put_cfgv [a_name a; a_path a; a_domain a; a_secure a; a_httponly a; a_samesite a])
  | None => VL []
  end.
Definition put_optZ (x : option Z) : val := match x with Some z => VL [VI z] | None => VL [] end.
Definition run_C10 (v : val) : val :=
  ret_or_bad (
    match v with
    | VL [VL [VI n; macs; unbs; dess]; a; rs] =>
        olet macs := get_list_of get_mac_row macs in
        olet unbs := get_list_of get_unb_row unbs in
        olet dess := get_list_of get_des_row dess in
        olet a := get_fcall a in
        olet rs := get_list_of get_req rs in
        let O := table_oracles (Z.to_nat n) macs unbs dess in
        match gfactory_call a with
        | FacRaise =>
            (* the factory call raises; if the documented reading of the options says it should not, the
               specification of the chain is still reported (the judge then sees a deviation) *)
            Some (VL [VI 1; match spec_factory_call a with
                            | FacOk o' => VL [VL (map put_sobs (spec_chain O o' None true rs))]
                            | _ => VL []
                            end])
        | FacUnm => Some (VL [VI 2])
        | FacOk o =>
            (* the specification reads the options DECLARATIVELY (spec_factory), never through the regenerated
               factory layer: a changed conversion must show as a deviation, not move the specification along *)
            Some (VL [VL (map put_robs (grun_chain O o None rs));
                      match spec_factory_call a with
                      | FacOk o' => VL (map put_sobs (spec_chain O o' None true rs))
                      | _ => VL (map (fun _ => VL []) rs)
                      end;
                      match gcall_max_age a with Some m => put_optZ m | None => VL [] end;
                      put_attrs (gcall_attrs a)])
        end
    | _ => None
    end).
