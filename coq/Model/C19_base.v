(* C19 -- data types and PRIMITIVES shared by the hand-written reference model (Model/C19.v)
   and by the program the translator regenerates from src/pyramid/httpexceptions.py on every
   run (Gen/Facts_C19.v: gen_init, gen_move_init, gen_prepare, gen_call).

   This file is the target vocabulary of the translator's primitive table
   (harness/c19/translate.py, PRIMITIVE TABLE): string.Template, webob.html_escape,
   json.dumps, str.encode, dict assignment, and the object record.  Executable definitions only. *)
From Coq Require Import List NArith ZArith Bool.
Import ListNotations.
Require Import Verif.Lib.Wire Verif.Lib.Utf8.
Open Scope N_scope.

Inductive escfn := EscHtml | EscNone | EscUnknown.
Inductive pagekind := PageHtml | PageJson | PagePlain.
Record branch := mkBranch {
  b_test : option text;      (* [match == <const>]; None = else *)
  b_ctype : text;            (* self.content_type = <const> *)
  b_charset_none : bool;     (* self.charset = None present *)
  b_esc : escfn;             (* escape = <name> *)
  b_br : text;               (* br = <const> *)
  b_cpre : text; b_csuf : text;   (* html_comment = '<pre>%s<suf>' % X   or   X (both empty) *)
  b_comment_escaped : bool;  (* X is escape(comment) rather than comment *)
  b_page : pagekind }.
Inductive argsrc := ABr | AExplanation | ADetail | AComment | AHtmlComment.
Record cls := mkCls {
  c_name : text; c_code : text; c_title : text; c_expl : text; c_tmpl : text;
  c_default_tmpl : bool;     (* body_template_obj is HTTPException.body_template_obj (same object) *)
  c_empty : bool;            (* empty_body *)
  c_move : bool }.           (* constructor takes location= *)

(* ------------------------------------------------------------------ string.Template
   The pattern (Python 3.12) is: DOLLAR followed by one of
     escaped = DOLLAR | named = ID | braced = LBRACE ID RBRACE | invalid = empty
   with ID = one of [_a-z] then any of [_a-z0-9], ASCII only, under re.IGNORECASE.
   [pattern.sub] scans the template once, left to right; the scanner below is that scan,
   one character per step. *)
Definition is_id_start (c : N) : bool :=
  (c =? 95) || ((65 <=? c) && (c <=? 90)) || ((97 <=? c) && (c <=? 122)).
Definition is_id_char (c : N) : bool := is_id_start c || ((48 <=? c) && (c <=? 57)).

Inductive tok := TChar (c : N) | TDollar | TRef (name : text) | TInvalid.
Inductive mode := MNormal | MDollar | MNamed (acc : text) | MBraced (acc : text).   (* acc reversed *)

Definition is_nil {A} (l : list A) : bool := match l with [] => true | _ => false end.

Fixpoint tokenise_from (m : mode) (s : text) : list tok :=
  match s with
  | [] =>
      match m with
      | MNormal => []
      | MDollar => [TInvalid]
      | MNamed acc => [TRef (rev acc)]
      | MBraced _ => [TInvalid]
      end
  | c :: r =>
      match m with
      | MNormal => if c =? 36 then tokenise_from MDollar r else TChar c :: tokenise_from MNormal r
      | MDollar =>
          if c =? 36 then TDollar :: tokenise_from MNormal r
          else if is_id_start c then tokenise_from (MNamed [c]) r
          else if c =? 123 then tokenise_from (MBraced []) r
          else [TInvalid]
      | MNamed acc =>
          if is_id_char c then tokenise_from (MNamed (c :: acc)) r
          else TRef (rev acc) ::
               (if c =? 36 then tokenise_from MDollar r else TChar c :: tokenise_from MNormal r)
      | MBraced acc =>
          if (if is_nil acc then is_id_start c else is_id_char c) then tokenise_from (MBraced (c :: acc)) r
          else if (c =? 125) && negb (is_nil acc) then TRef (rev acc) :: tokenise_from MNormal r
          else [TInvalid]
      end
  end.
Definition tokenise := tokenise_from MNormal.

Inductive res (A : Type) := Ok (a : A) | KeyErr | ValErr | EncErr.
Arguments Ok {A} a. Arguments KeyErr {A}. Arguments ValErr {A}. Arguments EncErr {A}.
Definition rmap {A B} (f : A -> B) (r : res A) : res B :=
  match r with Ok a => Ok (f a) | KeyErr => KeyErr | ValErr => ValErr | EncErr => EncErr end.
Definition rbind {A B} (r : res A) (f : A -> res B) : res B :=
  match r with Ok a => f a | KeyErr => KeyErr | ValErr => ValErr | EncErr => EncErr end.

(* Python dict with str keys: lookup / assignment (replace in place, else append) *)
Definition env := list (text * text).
Fixpoint lookup (k : text) (e : env) : option text :=
  match e with [] => None | (k', v) :: r => if text_eqb k k' then Some v else lookup k r end.
Fixpoint aset (k v : text) (e : env) : env :=
  match e with
  | [] => [(k, v)]
  | (k', v') :: r => if text_eqb k k' then (k', v) :: r else (k', v') :: aset k v r
  end.

(* convert(mo) for each match, in order; the first failing match raises *)
Fixpoint render (ts : list tok) (e : env) : res text :=
  match ts with
  | [] => Ok []
  | TChar c :: r => rmap (cons c) (render r e)
  | TDollar :: r => rmap (cons 36) (render r e)
  | TRef n :: r => match lookup n e with Some v => rmap (app v) (render r e) | None => KeyErr end
  | TInvalid :: _ => ValErr
  end.
Definition substitute (tmpl : text) (e : env) : res text := render (tokenise tmpl) e.

(* ------------------------------------------------------------------ webob.html_escape on a str:
   html.escape(s, quote=True) then .encode('ascii', 'xmlcharrefreplace') *)
Fixpoint dec_aux (fuel : nat) (n : N) (acc : text) : text :=
  match fuel with
  | O => acc
  | S f => let acc' := (48 + n mod 10) :: acc in
           if n / 10 =? 0 then acc' else dec_aux f (n / 10) acc'
  end.
Definition dec (n : N) : text := dec_aux (S (N.size_nat n)) n [].

Definition ent_amp : text := [38; 97; 109; 112; 59].          (* &amp; *)
Definition ent_lt : text := [38; 108; 116; 59].               (* &lt; *)
Definition ent_gt : text := [38; 103; 116; 59].               (* &gt; *)
Definition ent_quot : text := [38; 113; 117; 111; 116; 59].   (* &quot; *)
Definition ent_apos : text := [38; 35; 120; 50; 55; 59].      (* &#x27; *)
Definition html_escape1 (c : N) : text :=
  if c =? 38 then ent_amp
  else if c =? 60 then ent_lt
  else if c =? 62 then ent_gt
  else if c =? 34 then ent_quot
  else if c =? 39 then ent_apos
  else if c <? 128 then [c]
  else [38; 35] ++ dec c ++ [59].                             (* &#NNN; *)
Definition html_escape (s : text) : text := flat_map html_escape1 s.

Definition esc_apply (f : escfn) (s : text) : text :=
  match f with EscHtml => html_escape s | EscNone => s | EscUnknown => s end.

(* ------------------------------------------------------------------ json.dumps (ensure_ascii) *)
Definition hex1 (d : N) : N := if d <? 10 then 48 + d else 87 + d.
Definition uesc (c : N) : text :=
  [92; 117; hex1 ((c / 4096) mod 16); hex1 ((c / 256) mod 16); hex1 ((c / 16) mod 16); hex1 (c mod 16)].
Definition json_char (c : N) : text :=
  if c =? 34 then [92; 34]
  else if c =? 92 then [92; 92]
  else if c =? 10 then [92; 110]
  else if c =? 13 then [92; 114]
  else if c =? 9 then [92; 116]
  else if c =? 8 then [92; 98]
  else if c =? 12 then [92; 102]
  else if (32 <=? c) && (c <=? 126) then [c]
  else if c <? 65536 then uesc c
  else let n := c - 65536 in uesc (55296 + (n / 1024) mod 1024) ++ uesc (56320 + n mod 1024).
Definition json_string (s : text) : text := 34 :: flat_map json_char s ++ [34].
Definition json_member (kv : text * text) : text := json_string (fst kv) ++ [58; 32] ++ json_string (snd kv).
Fixpoint json_members (l : list (text * text)) : text :=
  match l with
  | [] => []
  | [kv] => json_member kv
  | kv :: r => json_member kv ++ [44; 32] ++ json_members r
  end.
Definition json_object (l : list (text * text)) : text := [123] ++ json_members l ++ [125].

(* ------------------------------------------------------------------ str.encode('UTF-8') *)
Definition utf8_bytes (s : text) : res text :=
  if forallb valid_scalar s then Ok (Utf8.encode s) else EncErr.


(* ------------------------------------------------------------------ small primitives of the table *)
Definition or_empty (o : option text) : text := match o with Some t => t | None => [] end.   (* x or '' *)
Definition no_escape (s : text) : text := s.            (* _no_escape on a str *)
Definition truthy (s : text) : bool := negb (is_nil s). (* bool(str) *)
Definition lower1 (c : N) : N := if (65 <=? c) && (c <=? 90) then c + 32 else c.
Definition lower (s : text) : text := map lower1 s.     (* str.lower(), ASCII *)
Fixpoint startswith (p s : text) : bool :=
  match p, s with
  | [], _ => true
  | x :: p', y :: s' => (x =? y) && startswith p' s'
  | _ :: _, [] => false
  end.
(* environ.get(k, default) on str values *)
Definition env_get (k d : text) (e : list (text * text)) : text :=
  match lookup k e with Some v => v | None => d end.
Definition cs_utf8 : text := [85; 84; 70; 45; 56].
(* page.encode(enc): only UTF-8 is modelled; another codec is an explicit error value *)
Definition encode_text (enc page : text) : res text :=
  if text_eqb enc cs_utf8 then utf8_bytes page else EncErr.

(* ------------------------------------------------------------------ json_formatter= (documented hook)
   A custom formatter is a callable (status, body, title, environ) -> dict.  The family modelled (and
   generated by the harness): the dict is built member by member, in order, by dict assignment; a
   member's value is the body, the status, the title, a constant, environ[K] (KeyError when the
   request does not carry K) or environ.get(K, D). *)
Inductive fsrc := FBody | FStatus | FTitle | FConst (t : text) | FEnv (k : text) | FEnvGet (k d : text).
Definition fmt := list (text * fsrc).
Definition fsrc_val (status body title : text) (environ : list (text * text)) (s : fsrc) : res text :=
  match s with
  | FBody => Ok body
  | FStatus => Ok status
  | FTitle => Ok title
  | FConst t => Ok t
  | FEnv k => match lookup k environ with Some v => Ok v | None => KeyErr end
  | FEnvGet k d => Ok (match lookup k environ with Some v => v | None => d end)
  end.
Fixpoint apply_fmt (f : fmt) (status body title : text) (environ : list (text * text)) (acc : env) : res env :=
  match f with
  | [] => Ok acc
  | (k, s) :: r => rbind (fsrc_val status body title environ s)
                         (fun v => apply_fmt r status body title environ (aset k v acc))
  end.

(* the exception object: the attributes the translated functions read and write.
   ob_ctype / ob_charset = [] stands for "no Content-Type header" / charset None;
   ob_body = [] is an empty body (has_body false); ob_formatter = Some f: the instance
   attribute _json_formatter set by the constructor shadows the method of the class. *)
Record obj := mkObj {
  ob_code : text; ob_title : text; ob_expl : text;
  ob_tmpl : text; ob_tmpl_custom : bool;      (* body_template_obj; "is not HTTPException.body_template_obj" *)
  ob_empty : bool;
  ob_status : text; ob_detail : option text; ob_comment : option text;
  ob_headers : list (text * text);            (* headers a Template identifier can name (no Content-Type/-Length) *)
  ob_ctype : text; ob_charset : text; ob_body : text;
  ob_formatter : option fmt }.

Definition has_body (o : obj) : bool := negb (is_nil (ob_body o)).

(* WebOb: which content types get a charset parameter (webob.response._content_type_has_charset,
   _is_xml, and the text/html shortcut of the content_type setter / the constructor) *)
Definition endswith (p s : text) : bool := startswith (rev p) (rev s).
Definition t_html : text := [116; 101; 120; 116; 47; 104; 116; 109; 108].
Definition p_text_ : text := [116; 101; 120; 116; 47].                                               (* text/ *)
Definition p_app_xml : text := [97; 112; 112; 108; 105; 99; 97; 116; 105; 111; 110; 47; 120; 109; 108].   (* application/xml *)
Definition p_app_ : text := [97; 112; 112; 108; 105; 99; 97; 116; 105; 111; 110; 47].               (* application/ *)
Definition p_image_ : text := [105; 109; 97; 103; 101; 47].                                         (* image/ *)
Definition s_xml : text := [43; 120; 109; 108].                                                     (* +xml *)
Definition texty (ct : text) : bool :=
  text_eqb ct t_html || startswith p_text_ ct || startswith p_app_xml ct
  || (startswith p_app_ ct && endswith s_xml ct) || (startswith p_image_ ct && endswith s_xml ct).
(* self.content_type = v (v without parameters): Content-Type := v, plus the default charset
   when v is "texty"; every earlier parameter (a charset given to the constructor) is dropped *)
Definition default_charset (ct : text) : text := if texty ct then cs_utf8 else [].

(* Response.__init__(self, status=status, **kw) of WebOb: content type = content_type= or the
   default text/html; charset parameter = charset= (default UTF-8) when the type is texty and
   the charset is not empty/None; Content-Length 0; every other keyword is set as an attribute:
   location= becomes the Location header.  Keywords: content_type (without parameters),
   charset, location; others are not modelled (none is generated). *)
Definition k_content_type : text := [99; 111; 110; 116; 101; 110; 116; 95; 116; 121; 112; 101].
Definition k_charset : text := [99; 104; 97; 114; 115; 101; 116].
Definition kw_ctype (kw : list (text * text)) : text :=
  match lookup k_content_type kw with Some v => if is_nil v then t_html else v | None => t_html end.
Definition kw_charset (kw : list (text * text)) : text :=
  if texty (kw_ctype kw) then match lookup k_charset kw with Some c => c | None => cs_utf8 end else [].
Definition kw_headers (kw : list (text * text)) : list (text * text) :=
  flat_map (fun kv => if text_eqb (fst kv) [108; 111; 99; 97; 116; 105; 111; 110]
                      then [([76; 111; 99; 97; 116; 105; 111; 110], snd kv)] else []) kw.

(* ------------------------------------------------------------------ raise sites outside httpexceptions.py
   [req]: the WebOb request properties a site reads (oracle values); [raised]: the class and the
   constructor arguments the site passes (detail, location, body_template) *)
Record req := mkReq { r_url : text; r_path : text; r_path_info : text; r_path_url : text; r_query_string : text }.
Record raised := mkRaised { ra_cls : text; ra_detail : option text; ra_location : text; ra_tmpl : option text }.

Record output := mkOutput { o_status : text; o_ctype : text; o_charset : text; o_body : text }.
(* Response.__call__: what reaches start_response and the body iterable *)
Definition respond (o : obj) : output := mkOutput (ob_status o) (ob_ctype o) (ob_charset o) (ob_body o).
