(* C04 -- the doors through which an action reaches ConflictResolverState.remaining_actions:
   ActionState.action (the method), the public list ActionState.actions holding old-style tuples or ready-made dicts
   (normalize_actions / expand_action_tuple, run by resolveConflicts on everything it is handed), and the initial
   ConflictResolverState.  Executable definitions only; the functions regenerated from the source
   (Gen/Exec_C04.v) are proved equal to these in Proofs/C04_entry.v. *)
From Coq Require Import List NArith ZArith Bool.
Import ListNotations.
Require Import Verif.Lib.Wire Verif.Model.C04.

(* one position of an old-style action tuple: only the three modelled values are told apart *)
Inductive tfield := TDisc (d : disc) | TPath (p : path) | TOrd (o : option Z) | TOther.

(* binding a positional argument: a required one / one with a default *)
Definition as_disc (f : option tfield) : option disc :=
  match f with Some (TDisc d) => Some d | _ => None end.
Definition as_path (dflt : path) (f : option tfield) : option path :=
  match f with None => Some dflt | Some (TPath p) => Some p | _ => None end.
Definition as_ord (dflt : option Z) (f : option tfield) : option (option Z) :=
  match f with None => Some dflt | Some (TOrd o) => Some o | _ => None end.

(* an element of the list handed to resolveConflicts: a dict, or a tuple (identity and re-entrant declarations of the
   callable it carries are given beside it) *)
Inductive raw := RDict (a : action) | RTuple (i : N) (adds : list action) (t : list tfield).

(* expand_action_tuple applied to the positions of t: discriminator, callable, args, kw, includepath, info, order, introspectables *)
Definition expand_tuple (i : N) (adds : list action) (t : list tfield) : option action :=
  match as_disc (nth_error t 0), as_path [] (nth_error t 4), as_ord (Some 0%Z) (nth_error t 6) with
  | Some d, Some p, Some o => if Nat.leb (length t) 8 then Some (declare p i d o adds) else None
  | _, _, _ => None
  end.

Definition norm1 (r : raw) : option action :=
  match r with RDict a => Some a | RTuple i adds t => expand_tuple i adds t end.
(* normalize_actions; None = a TypeError of the call of expand_action_tuple on the tuple *)
Definition normalize (l : list raw) : option (list action) := map_opt norm1 l.

(* ActionState.action: the dict appended to self.actions *)
Definition state_action (actions : list action) (i : N) (d : disc) (o : option Z) (p : path) (adds : list action)
  : list action := actions ++ [declare p i d o adds].

(* what resolveConflicts sees of a raw list: state.remaining_actions.extend(normalize_actions(actions)) *)
Definition restart_raw (st : cstate) (new : list raw) : option (cstate * gen) :=
  match normalize new with Some acts => Some (restart st acts) | None => None end.
Definition commit_raw (cfg : params) (l : list raw) : option (outcome * list event) :=
  match normalize l with Some acts => Some (commit_with cfg acts) | None => None end.
