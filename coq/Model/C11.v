(* C11 -- ACLHelper.permits / principals_allowed_by_permission
   (src/pyramid/authorization.py).  Executable definitions only.

   The data types and primitives live in Model/C11_base.v.  The CONTROL FLOW of
   the two methods is regenerated from the source on every run by
   harness/c11/translate.py into Gen/Facts_C11.v ([gen_permits],
   [gen_principals_allowed]); the definitions below are the hand-written
   reference model the property theorems were first proved about, and
   Proofs/C11_gen.v proves the regenerated program equal to them. *)
From Coq Require Import List NArith ZArith Bool.
Import ListNotations.
Require Import Verif.Lib.Wire.
Require Export Verif.Model.C11_base.
Require Import Verif.Gen.Facts_C11.

(* [permission in ace_permissions] after the normalisation idiom, with the two leaf functions as they were
   regenerated from pyramid/util.py (is_nonstr_iter) and pyramid/security.py (AllPermissionsList.__contains__) *)
Notation perm_in := (perm_in_with gen_is_nonstr_iter gen_all_contains).

Definition ace_matches (principals : list text) (p : text) (e : ace) : bool :=
  mem_text (who e) principals && perm_in p (what e).

(* for ace in acl: ... return on the first matching ACE *)
Fixpoint scan_acl (principals : list text) (p : text) (a : acl) (i : nat) : option (bool * nat) :=
  match a with
  | [] => None
  | e :: r =>
      if ace_matches principals p e
      then Some (match act e with Allow => true | _ => false end, i)
      else scan_acl principals p r (S i)
  end.

(* for location in lineage(context): ... *)
Fixpoint permits_from (d : nat) (L : lineage) (principals : list text) (p : text) : decision :=
  match L with
  | [] => DefaultDeny
  | None :: r => permits_from (S d) r principals p
  | Some a :: r =>
      match scan_acl principals p a 0 with
      | Some (true, i) => Allowed d i
      | Some (false, i) => Denied d i
      | None => permits_from (S d) r principals p
      end
  end.

Definition permits := permits_from 0.

Definition granted (d : decision) : bool := match d with Allowed _ _ => true | _ => false end.

(* inner loop of principals_allowed_by_permission over one ACL; returns
   (allowed, allowed_here) at loop exit (normal or through [break]) *)
Fixpoint pa_scan (p : text) (a : acl) (allowed ah dh : list text) : list text * list text :=
  match a with
  | [] => (allowed, ah)
  | e :: r =>
      let inp := perm_in p (what e) in
      match act e with
      | Allow =>
          if inp && negb (mem_text (who e) dh)
          then pa_scan p r allowed (add (who e) ah) dh
          else pa_scan p r allowed ah dh
      | Deny =>
          if inp then
            if text_eqb (who e) everyone then ([], ah)
            else pa_scan p r (remove (who e) allowed) ah (add (who e) dh)
          else pa_scan p r allowed ah dh
      | Other => pa_scan p r allowed ah dh
      end
  end.

Definition pa_step (p : text) (allowed : list text) (loc : option acl) : list text :=
  match loc with
  | None => allowed
  | Some a => let '(al, ah) := pa_scan p a allowed [] [] in union al ah
  end.

(* for location in reversed(list(lineage(context))) *)
Definition principals_allowed (L : lineage) (p : text) : list text :=
  fold_left (pa_step p) (rev L) [].

(* ---- declarative specification (the property's wording) *)
Definition flatten (L : lineage) : list ace :=
  concat (map (fun o => match o with Some a => a | None => [] end) L).

(* "whose permission set contains the permission (the all-permissions marker contains everything)": a single
   name contains exactly itself, an iterable its elements, the marker everything, any other object nothing.
   Independent of the regenerated leaf functions. *)
Definition perm_has (p : text) (v : perms) : bool :=
  match v with PAll => true | PNames l => mem_text p l | PStr s => text_eqb p s | PAtom => false end.

(* "whose principal is among the given principals and whose permission set contains the permission" *)
Definition spec_matches (principals : list text) (p : text) (e : ace) : bool :=
  mem_text (who e) principals && perm_has p (what e).

Definition first_match (L : lineage) (principals : list text) (p : text) : option ace :=
  find (spec_matches principals p) (flatten L).

Definition spec_granted (L : lineage) (principals : list text) (p : text) : bool :=
  match first_match L principals p with
  | Some e => match act e with Allow => true | _ => false end
  | None => false
  end.

(* ---- declarative description of principals_allowed_by_permission.
   The entries that SPEAK ABOUT principal q for permission p: an Allow or Deny entry naming q, or a Deny of Everyone,
   whose permission set contains p.  q is reported iff the first such entry, context's ACL first, then each
   ancestor's, is an Allow (Proofs/C11_char.v: principals_allowed_exact). *)
Definition explicit_for (q p : text) (e : ace) : bool :=
  perm_has p (what e) &&
  ((is_allow (act e) || is_deny (act e)) && text_eqb (who e) q || is_deny (act e) && text_eqb (who e) everyone).

Definition explicitly_allowed (L : lineage) (p q : text) : bool :=
  match find (explicit_for q p) (flatten L) with Some e => is_allow (act e) | None => false end.

Definition wf_action (e : ace) : bool := match act e with Other => false | _ => true end.
Definition wf_lineage (L : lineage) : bool := forallb wf_action (flatten L).

(* ---- the public routes from a request to the decision (pyramid/security.py; hand-written, tied by the name-blanked
   shape pins of harness/c11/pins_entry.json).
   request.has_permission(permission, context=None):
       if context is None: context = self.context
       policy = _get_security_policy(self)            -- registry.queryUtility(ISecurityPolicy)
       if policy is None: return Allowed('No security policy in use.')
       return policy.permits(self, context, permission)
   LegacySecurityPolicy.permits(request, context, permission):
       principals = authn.effective_principals(request); return authz.permits(context, principals, permission)
   security.principals_allowed_by_permission(context, permission):
       policy = registry.queryUtility(IAuthorizationPolicy)
       if policy is None: return [Everyone]
       return policy.principals_allowed_by_permission(context, permission)
   [policy] / [authz]: is a security policy / an authorization policy registered; [ps]: what the authentication policy
   reports as effective principals; the authorization policy is ACLAuthorizationPolicy (regenerated delegation). *)
Inductive hp_result := ByPolicy (d : decision) | NoPolicyAllowed.

Definition legacy_permits (L : lineage) (ps : list text) (p : text) : decision := gen_policy_permits L ps p.

Definition has_permission (policy : bool) (given : option lineage) (request_context : lineage)
           (ps : list text) (p : text) : hp_result :=
  let L := match given with None => request_context | Some L => L end in
  if policy then ByPolicy (legacy_permits L ps p) else NoPolicyAllowed.

Definition hp_granted (r : hp_result) : bool := match r with ByPolicy d => granted d | NoPolicyAllowed => true end.

Definition sec_principals_allowed (authz : bool) (L : lineage) (p : text) : list text :=
  if authz then gen_policy_principals_allowed L p else [everyone].

(* ---- pyramid.location.lineage: hand-written reference ([gen_lineage] is the regenerated program) *)
Definition step_parent (W : world) (x : nat) : option nat :=
  match parent_of W x with PTo y => Some y | _ => None end.

Fixpoint lineage_from (W : world) (fuel : nat) (r : option nat) : option (list nat) :=
  match fuel with
  | 0 => None
  | S f => match r with None => Some [] | Some x => ocons x (lineage_from W f (step_parent W x)) end
  end.

(* the decision / the report for a resource of a world: lineage() first, then the ACL scan over the ACLs found *)
Definition world_acls (W : world) (fuel : nat) (ctx : nat) : option lineage :=
  match gen_lineage W fuel (Some ctx) with Some l => Some (map (acl_of W) l) | None => None end.
Definition world_permits (W : world) (fuel : nat) (ctx : nat) (ps : list text) (p : text) : option decision :=
  match world_acls W fuel ctx with Some L => Some (gen_permits L ps p) | None => None end.
Definition world_principals_allowed (W : world) (fuel : nat) (ctx : nat) (p : text) : option (list text) :=
  match world_acls W fuel ctx with Some L => Some (gen_principals_allowed L p) | None => None end.

(* the world the harness builds: location i of the case is resource i, its __parent__ is resource i+1; the last one
   has __parent__ = None or no such attribute ([e]) *)
Fixpoint chain_from (i : nat) (L : lineage) (e : ptr) : world :=
  match L with
  | [] => []
  | [a] => [mkNode e a]
  | a :: r => mkNode (PTo (S i)) a :: chain_from (S i) r e
  end.
Definition chain_world (L : lineage) (e : ptr) : world := chain_from 0 L e.

(* ---- wire glue *)
Definition get_action (v : val) : option action :=
  match v with VI 0%Z => Some Deny | VI 1%Z => Some Allow | VI _ => Some Other | _ => None end.
Definition get_perms (v : val) : option perms :=
  match v with
  | VI 0%Z => Some PAll
  | VI _ => Some PAtom
  | VL [VI 0%Z; VT s] => Some (PStr s)
  | VL [VI 1%Z; VL l] => match map_opt get_text l with Some ts => Some (PNames ts) | None => None end
  | _ => None
  end.
Definition get_ace (v : val) : option ace :=
  match v with
  | VL [a; w; p] =>
      olet a := get_action a in olet w := get_text w in olet p := get_perms p in
      Some (mkAce a w p)
  | _ => None
  end.
Definition get_lineage (v : val) : option lineage := get_list_of (get_opt (get_list_of get_ace)) v.

Definition put_decision (d : decision) : val :=
  match d with
  | Allowed d i => VL [VI 1; vnat d; vnat i]
  | Denied d i => VL [VI 0; vnat d; vnat i]
  | DefaultDeny => VL [VI 0]
  end.

Definition put_hp (r : hp_result) : val :=
  match r with ByPolicy d => put_decision d | NoPolicyAllowed => VL [VI 1; VT [110; 111; 45; 112; 111; 108; 105; 99; 121]%N] end.

(* case = [lineage; principals; permission; root's __parent__ (0 = None, 1 = no attribute)]
   answer = [regenerated permits; regenerated principals_allowed; spec granted; wf;
             hand-written permits; hand-written principals_allowed;
             regenerated ACLAuthorizationPolicy.permits; regenerated ACLAuthorizationPolicy.principals_allowed_by_permission;
             request.has_permission(p) with request.context = the context; the same without a security policy;
             security.principals_allowed_by_permission without an authorization policy] *)
Definition run_C11 (v : val) : val :=
  ret_or_bad (
    match v with
    | VL [l; ps; p; root] =>
        olet L0 := get_lineage l in olet ps := get_texts ps in olet p := get_text p in
        olet e := (match root with VI 0%Z => Some PNone | VI 1%Z => Some PMissing | _ => None end) in
        (* the lineage the code scans is the one the REGENERATED lineage() yields in the world of the case *)
        let W := chain_world L0 e in
        olet L := world_acls W (S (length W)) 0 in
        Some (VL [put_decision (gen_permits L ps p);
                  vtexts (gen_principals_allowed L p);
                  vbool (spec_granted L ps p);
                  vbool (wf_lineage L);
                  put_decision (permits L ps p);
                  vtexts (principals_allowed L p);
                  put_decision (gen_policy_permits L ps p);
                  vtexts (gen_policy_principals_allowed L p);
                  put_hp (has_permission true None L ps p);
                  put_hp (has_permission false None L ps p);
                  vtexts (sec_principals_allowed false L p)])
    | _ => None
    end).
