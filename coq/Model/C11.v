(* C11 -- ACLHelper.permits / principals_allowed_by_permission
   (src/pyramid/authorization.py).  Executable definitions only.

   The data types and primitives live in Model/C11_base.v.  The CONTROL FLOW of
   the two methods is regenerated from the source on every run by
   harness/c11/translate.py into Gen/Facts_C11.v ([gen_permits],
   [gen_principals_allowed]); the definitions below are the hand-written
   reference model the property theorems were first proved about, and
   Proofs/C11_gen.v proves the regenerated program equal to them. *)
From Coq Require Import List NArith ZArith Bool.
Import ListNotations.
Require Import Verif.Lib.Wire.
Require Export Verif.Model.C11_base.
Require Import Verif.Gen.Facts_C11.

(* [permission in ace_permissions] after the normalisation idiom, with the two leaf functions as they were
   regenerated from pyramid/util.py (is_nonstr_iter) and pyramid/security.py (AllPermissionsList.__contains__) *)
Notation perm_in := (perm_in_with gen_is_nonstr_iter gen_all_contains).

Definition ace_matches (principals : list text) (p : text) (e : ace) : bool :=
  mem_text (who e) principals && perm_in p (what e).

(* for ace in acl: ... return on the first matching ACE *)
Fixpoint scan_acl (principals : list text) (p : text) (a : acl) (i : nat) : option (bool * nat) :=
  match a with
  | [] => None
  | e :: r =>
      if ace_matches principals p e
      then Some (match act e with Allow => true | _ => false end, i)
      else scan_acl principals p r (S i)
  end.

(* for location in lineage(context): ... *)
Fixpoint permits_from (d : nat) (L : lineage) (principals : list text) (p : text) : decision :=
  match L with
  | [] => DefaultDeny
  | None :: r => permits_from (S d) r principals p
  | Some a :: r =>
      match scan_acl principals p a 0 with
      | Some (true, i) => Allowed d i
      | Some (false, i) => Denied d i
      | None => permits_from (S d) r principals p
      end
  end.

Definition permits := permits_from 0.

Definition granted (d : decision) : bool := match d with Allowed _ _ => true | _ => false end.

(* inner loop of principals_allowed_by_permission over one ACL; returns
   (allowed, allowed_here) at loop exit (normal or through [break]) *)
Fixpoint pa_scan (p : text) (a : acl) (allowed ah dh : list text) : list text * list text :=
  match a with
  | [] => (allowed, ah)
  | e :: r =>
      let inp := perm_in p (what e) in
      match act e with
      | Allow =>
          if inp && negb (mem_text (who e) dh)
          then pa_scan p r allowed (add (who e) ah) dh
          else pa_scan p r allowed ah dh
      | Deny =>
          if inp then
            if text_eqb (who e) everyone then ([], ah)
            else pa_scan p r (remove (who e) allowed) ah (add (who e) dh)
          else pa_scan p r allowed ah dh
      | Other => pa_scan p r allowed ah dh
      end
  end.

Definition pa_step (p : text) (allowed : list text) (loc : option acl) : list text :=
  match loc with
  | None => allowed
  | Some a => let '(al, ah) := pa_scan p a allowed [] [] in union al ah
  end.

(* for location in reversed(list(lineage(context))) *)
Definition principals_allowed (L : lineage) (p : text) : list text :=
  fold_left (pa_step p) (rev L) [].

(* ---- malformed inputs (OUTSIDE the property's quantifier; hand-written extension, validated by a correspondence stream,
   not regenerated: the translated fragment has no exceptions).  What the loop of permits() does with
     XAclNone   __acl__ = None, or a FALSY callable that is not iterable (`if acl and callable(acl)` does not call it):
                `for ace in acl` raises TypeError when the walk reaches the location
     XBad       an ACE that is not a 3-sequence: the unpacking raises ValueError / TypeError when the scan reaches it
   (a falsy callable that IS iterable is scanned as it is, i.e. as the static ACL its iteration yields -- it is never
   called; an empty one is an empty ACL: XAcl []) *)
Inductive xace := XGood (e : ace) | XBad.
Inductive xloc := XNoAttr | XAclNone | XAcl (a : list xace).
Inductive xdecision := XDec (d : decision) | XRaised.
Inductive xres := XNoMatch | XHit (b : bool) (i : nat) | XRaise.

Fixpoint xscan_acl (principals : list text) (p : text) (a : list xace) (i : nat) : xres :=
  match a with
  | [] => XNoMatch
  | XBad :: _ => XRaise
  | XGood e :: r =>
      if ace_matches principals p e then XHit (match act e with Allow => true | _ => false end) i
      else xscan_acl principals p r (S i)
  end.

Fixpoint permits_x_from (d : nat) (L : list xloc) (principals : list text) (p : text) : xdecision :=
  match L with
  | [] => XDec DefaultDeny
  | XNoAttr :: r => permits_x_from (S d) r principals p
  | XAclNone :: _ => XRaised
  | XAcl a :: r =>
      match xscan_acl principals p a 0 with
      | XHit true i => XDec (Allowed d i)
      | XHit false i => XDec (Denied d i)
      | XRaise => XRaised
      | XNoMatch => permits_x_from (S d) r principals p
      end
  end.
Definition permits_x := permits_x_from 0.

(* the well-formed part the walk sees before the first malformed item, and whether there is such an item *)
Fixpoint trunc_acl (a : list xace) : acl * bool :=
  match a with
  | [] => ([], false)
  | XBad :: _ => ([], true)
  | XGood e :: r => let '(t, b) := trunc_acl r in (e :: t, b)
  end.
Fixpoint trunc (L : list xloc) : lineage * bool :=
  match L with
  | [] => ([], false)
  | XNoAttr :: r => let '(t, b) := trunc r in (None :: t, b)
  | XAclNone :: _ => ([], true)
  | XAcl a :: r =>
      let '(ta, ba) := trunc_acl a in
      if ba then ([Some ta], true) else let '(t, b) := trunc r in (Some ta :: t, b)
  end.

(* principals_allowed_by_permission on malformed input: the walk goes over the WHOLE lineage from the root, so an
   XAclNone anywhere raises; an XBad raises when the scan of its ACL reaches it, i.e. unless a matching Deny of Everyone
   earlier in the same ACL has left the loop.  None = raised. *)
Fixpoint pa_scan_x (p : text) (a : list xace) (allowed ah dh : list text) : option (list text * list text) :=
  match a with
  | [] => Some (allowed, ah)
  | XBad :: _ => None
  | XGood e :: r =>
      let inp := perm_in p (what e) in
      match act e with
      | Allow =>
          if inp && negb (mem_text (who e) dh)
          then pa_scan_x p r allowed (add (who e) ah) dh
          else pa_scan_x p r allowed ah dh
      | Deny =>
          if inp then
            if text_eqb (who e) everyone then Some ([], ah)
            else pa_scan_x p r (remove (who e) allowed) ah (add (who e) dh)
          else pa_scan_x p r allowed ah dh
      | Other => pa_scan_x p r allowed ah dh
      end
  end.

Definition pa_step_x (p : text) (acc : option (list text)) (loc : xloc) : option (list text) :=
  match acc with
  | None => None
  | Some allowed =>
      match loc with
      | XNoAttr => Some allowed
      | XAclNone => None
      | XAcl a => match pa_scan_x p a allowed [] [] with Some (al, ah) => Some (union al ah) | None => None end
      end
  end.

Definition principals_allowed_x (L : list xloc) (p : text) : option (list text) :=
  fold_left (pa_step_x p) (rev L) (Some []).

(* every ACL cut before its first malformed ACE *)
Definition strip (L : list xloc) : lineage :=
  map (fun l => match l with XAcl a => Some (fst (trunc_acl a)) | _ => None end) L.

(* ---- declarative specification (the property's wording) *)
Definition flatten (L : lineage) : list ace :=
  concat (map (fun o => match o with Some a => a | None => [] end) L).

(* "whose permission set contains the permission (the all-permissions marker contains everything)": a single
   name contains exactly itself, an iterable its elements, the marker everything, any other object nothing.
   Independent of the regenerated leaf functions. *)
Definition perm_has (p : text) (v : perms) : bool :=
  match v with PAll => true | PNames l => mem_text p l | PStr s | PEq s => text_eqb p s | PAtom => false end.

(* "whose principal is among the given principals and whose permission set contains the permission" *)
Definition spec_matches (principals : list text) (p : text) (e : ace) : bool :=
  mem_text (who e) principals && perm_has p (what e).

Definition first_match (L : lineage) (principals : list text) (p : text) : option ace :=
  find (spec_matches principals p) (flatten L).

Definition spec_granted (L : lineage) (principals : list text) (p : text) : bool :=
  match first_match L principals p with
  | Some e => match act e with Allow => true | _ => false end
  | None => false
  end.

(* ---- declarative description of principals_allowed_by_permission.
   The entries that SPEAK ABOUT principal q for permission p: an Allow or Deny entry naming q, or a Deny of Everyone,
   whose permission set contains p.  q is reported iff the first such entry, context's ACL first, then each
   ancestor's, is an Allow (Proofs/C11_char.v: principals_allowed_exact). *)
Definition explicit_for (q p : text) (e : ace) : bool :=
  perm_has p (what e) &&
  ((is_allow (act e) || is_deny (act e)) && text_eqb (who e) q || is_deny (act e) && text_eqb (who e) everyone).

Definition explicitly_allowed (L : lineage) (p q : text) : bool :=
  match find (explicit_for q p) (flatten L) with Some e => is_allow (act e) | None => false end.

Definition wf_action (e : ace) : bool := match act e with Other => false | _ => true end.
Definition wf_lineage (L : lineage) : bool := forallb wf_action (flatten L).

(* ---- the public routes from a request to the decision (pyramid/security.py).  Hand-written REFERENCE; the
   regenerated program is gen_has_permission / gen_legacy_permits / gen_sec_principals_allowed /
   gen_view_execution_permitted (harness/c11/translate_entry.py), proved equal in Proofs/C11_char.v. *)
Definition legacy_permits (L : lineage) (ps : list text) (p : text) : decision := permits L ps p.

Definition has_permission (R : registry) (given : option lineage) (request_context : lineage)
           (ps : list text) (p : text) : hp_result :=
  let L := match given with None => request_context | Some L => L end in
  if has_policy R then ByPolicy (legacy_permits L ps p) else NoPolicyAllowed.

Definition hp_granted (r : hp_result) : bool := match r with ByPolicy d => granted d | NoPolicyAllowed => true end.

Definition sec_principals_allowed (R : registry) (L : lineage) (p : text) : list text :=
  if has_authz R then principals_allowed L p else [everyone].

Definition view_execution_permitted (R : registry) (L : lineage) (ps : list text) : vep_result :=
  match secured_view R with
  | Some v => view_permitted (fun perm => legacy_permits L ps perm) v
  | None => if plain_view R then VAllowedNoPermission else VTypeError
  end.

(* the permission view_execution_permitted ends up asking for (None: no ACL decision is taken) *)
Definition vep_permission (R : registry) : option text :=
  match secured_view R with
  | Some (SOne perm) => Some perm
  | Some (SMulti subs) => match find (fun s : bool * option text => fst s) subs with Some (_, o) => o | None => None end
  | None => None
  end.
Definition vep_granted (r : vep_result) : option bool :=
  match r with VDecision d => Some (granted d) | VAllowedNoPermission | VTrue => Some true | _ => None end.

(* ---- pyramid.location.lineage: hand-written reference ([gen_lineage] is the regenerated program) *)
Definition step_parent (W : world) (x : nat) : option nat :=
  match parent_of W x with PTo y => Some y | _ => None end.

Fixpoint lineage_from (W : world) (fuel : nat) (r : option nat) : option (list nat) :=
  match fuel with
  | 0 => None
  | S f => match r with None => Some [] | Some x => ocons x (lineage_from W f (step_parent W x)) end
  end.

(* the decision / the report for a resource of a world: lineage() first, then the ACL scan over the ACLs found *)
Definition world_acls (W : world) (fuel : nat) (ctx : nat) : option lineage :=
  match gen_lineage W fuel (Some ctx) with Some l => Some (map (acl_of W) l) | None => None end.
Definition world_permits (W : world) (fuel : nat) (ctx : nat) (ps : list text) (p : text) : option decision :=
  match world_acls W fuel ctx with Some L => Some (gen_permits L ps p) | None => None end.
Definition world_principals_allowed (W : world) (fuel : nat) (ctx : nat) (p : text) : option (list text) :=
  match world_acls W fuel ctx with Some L => Some (gen_principals_allowed L p) | None => None end.

(* the world the harness builds: location i of the case is resource i, its __parent__ is resource i+1; the last one
   has __parent__ = None or no such attribute ([e]) *)
Fixpoint chain_from (i : nat) (L : lineage) (e : ptr) : world :=
  match L with
  | [] => []
  | [a] => [mkNode e a]
  | a :: r => mkNode (PTo (S i)) a :: chain_from (S i) r e
  end.
Definition chain_world (L : lineage) (e : ptr) : world := chain_from 0 L e.

(* ---- wire glue *)
Definition get_action (v : val) : option action :=
  match v with VI 0%Z => Some Deny | VI 1%Z => Some Allow | VI _ => Some Other | _ => None end.
Definition get_perms (v : val) : option perms :=
  match v with
  | VI 0%Z => Some PAll
  | VI _ => Some PAtom
  | VL [VI 0%Z; VT s] => Some (PStr s)
  | VL [VI 2%Z; VT s] => Some (PEq s)
  | VL [VI 1%Z; VL l] => match map_opt get_text l with Some ts => Some (PNames ts) | None => None end
  | _ => None
  end.
Definition get_ace (v : val) : option ace :=
  match v with
  | VL [a; w; p] =>
      olet a := get_action a in olet w := get_text w in olet p := get_perms p in
      Some (mkAce a w p)
  | _ => None
  end.
Definition get_lineage (v : val) : option lineage := get_list_of (get_opt (get_list_of get_ace)) v.

Definition put_decision (d : decision) : val :=
  match d with
  | Allowed d i => VL [VI 1; vnat d; vnat i]
  | Denied d i => VL [VI 0; vnat d; vnat i]
  | DefaultDeny => VL [VI 0]
  end.

Definition put_vep (r : vep_result) : val :=
  match r with
  | VDecision d => put_decision d
  | VAllowedNoPermission => VL [VI 1; VT [110; 111; 45; 112; 101; 114; 109]%N]        (* "no-perm" *)
  | VTrue => VL [VI 1; VT [116; 114; 117; 101]%N]                                       (* "true" *)
  | VTypeError => VL [VT [69; 88; 67]%N; VT [84; 121; 112; 101; 69; 114; 114; 111; 114]%N]     (* EXC TypeError *)
  | VPredicateMismatch => VL [VT [69; 88; 67]%N; VT [80; 114; 101; 100; 105; 99; 97; 116; 101; 77; 105; 115; 109; 97; 116; 99; 104]%N]
  end.
Definition get_sub (v : val) : option (bool * option text) :=
  match v with
  | VL [b; VT p] => olet b := get_bool b in Some (b, Some p)
  | VL [b] => olet b := get_bool b in Some (b, None)
  | _ => None
  end.
(* the view configuration of the case: 0 = no view at all; 1 = a view without permission; [p] = one secured view;
   [[ok; p]; [ok]; ..] = a MultiView *)
Definition get_views (v : val) : option (option sview * bool) :=
  match v with
  | VI 0%Z => Some (None, false)
  | VI _ => Some (None, true)
  | VT p => Some (Some (SOne p), false)
  | VL l => match map_opt get_sub l with Some subs => Some (Some (SMulti subs), false) | None => None end
  end.

Definition get_xace (v : val) : option xace :=
  match v with VI _ => Some XBad | _ => olet e := get_ace v in Some (XGood e) end.
Definition get_xloc (v : val) : option xloc :=
  match v with
  | VI 0%Z => Some XNoAttr
  | VI _ => Some XAclNone
  | VL [a] => olet a := get_list_of get_xace a in Some (XAcl a)
  | _ => None
  end.
Definition put_xdec (d : xdecision) : val :=
  match d with XDec d => put_decision d | XRaised => VL [VT [69; 88; 67]%N] end.

Definition put_hp (r : hp_result) : val :=
  match r with ByPolicy d => put_decision d | NoPolicyAllowed => VL [VI 1; VT [110; 111; 45; 112; 111; 108; 105; 99; 121]%N] end.

(* case = [lineage; principals; permission; root's __parent__ (0 = None, 1 = no attribute)]
   answer = [regenerated permits; regenerated principals_allowed; spec granted; wf;
             hand-written permits; hand-written principals_allowed;
             regenerated ACLAuthorizationPolicy.permits; regenerated ACLAuthorizationPolicy.principals_allowed_by_permission;
             request.has_permission(p) with request.context = the context; the same without a security policy;
             security.principals_allowed_by_permission without an authorization policy] *)
Definition run_C11 (v : val) : val :=
  ret_or_bad (
    match v with
    | VL [l; ps; p; root; views; xl] =>
        olet vw := get_views views in
        (* a malformed lineage (VI 0: none): answered by the hand-written extension permits_x / principals_allowed_x *)
        olet Lx := (match xl with VI _ => Some [] | _ => get_list_of get_xloc xl end) in
        let R := mkReg true true (fst vw) (snd vw) in
        let R0 := mkReg false false None false in
        olet L0 := get_lineage l in olet ps := get_texts ps in olet p := get_text p in
        olet e := (match root with VI 0%Z => Some PNone | VI 1%Z => Some PMissing | _ => None end) in
        (* the lineage the code scans is the one the REGENERATED lineage() yields in the world of the case *)
        let W := chain_world L0 e in
        olet L := world_acls W (S (length W)) 0 in
        Some (VL [put_decision (gen_permits L ps p);
                  vtexts (gen_principals_allowed L p);
                  vbool (spec_granted L ps p);
                  vbool (wf_lineage L);
                  put_decision (permits L ps p);
                  vtexts (principals_allowed L p);
                  put_decision (gen_policy_permits L ps p);
                  vtexts (gen_policy_principals_allowed L p);
                  put_hp (gen_has_permission R None L ps p);
                  put_hp (gen_has_permission R0 None L ps p);
                  vtexts (gen_sec_principals_allowed R0 L p);
                  put_hp (gen_has_permission R (Some L) [] ps p);
                  vtexts (gen_sec_principals_allowed R L p);
                  put_vep (gen_view_execution_permitted R L ps);
                  vopt vbool (match vep_permission R with Some q => Some (spec_granted L ps q) | None => None end);
                  put_xdec (permits_x Lx ps p);
                  vopt vtexts (principals_allowed_x Lx p);
                  vbool (spec_granted (fst (trunc Lx)) ps p)])
    | _ => None
    end).
