(* C17 -- vocabulary of the translator (harness/c17/translate.py, PRIMITIVE TABLE) for the helpers whose control flow
   was pinned until round 5 and is now regenerated from the source: URLMethodsMixin.route_url, current_route_url,
   static_url, the pregenerator closure add_route installs for a route whose pattern is a full URL, and
   StaticURLInfo.add (which registration a statement add_static_view(name, spec) leaves behind).
   Executable definitions only.  A separate file: Model/C17.v is imported by C06 / C07 and stays as it is. *)
From Coq Require Import List NArith ZArith Bool.
Import ListNotations.
Require Import Verif.Lib.Wire Verif.Lib.Text Verif.Lib.Utf8 Verif.Lib.Percent Verif.Gen.Facts_C17 Verif.Model.C17.
Open Scope N_scope.

(* mapper.get_route(name) : a route or None; reading an attribute of the route happens only where `route is None` is false *)
Definition c17_empty_pattern : pattern := mkPat [] [] None.
Definition c17_route_of (o : option pattern) : pattern := match o with Some p => p | None => c17_empty_pattern end.
(* route.pregenerator: only routes whose pattern is a full URL have one (the harness registers no other) *)
Definition c17_ext_of (o : option (option text * text)) : option text * text :=
  match o with Some x => x | None => (None, []) end.
(* `if elements:` on the tuple of extra path elements *)
Definition c17_els_truthy (l : list pval) : bool := match l with [] => false | _ => true end.

(* config/routes.py add_route, external_url_pregenerator(request, elements, kw) as a function of the keyword dictionary:
   an _app_url supplied by the caller is refused; otherwise _app_url := <_scheme | pattern's scheme | request scheme>://netloc *)
Definition c17_ext_pregen (e : env) (o : overrides) (x : option text * text) : res overrides :=
  match o_app_url o with
  | Some _ => Err EVal
  | None => Ok (set_app_url o (ext_app_url e o x))
  end.

(* the pattern's scheme as urlparse reports it: '' when absent *)
Definition c17_ext_scheme (x : option text * text) : text := oget (fst x).
Definition c17_ext_wf (x : option text * text) : Prop := fst x <> Some [].

(* an empty keyword dictionary {} *)
Definition c17_ov_empty : overrides := mkOv None None None None None None.

(* StaticURLInfo.generate as a whole (registrations are searched in order) *)
Definition c17_static_generate e routes (regs : list reg) (path : text) o kw : res text :=
  static_url_x e routes regs path o kw.
(* reg.queryUtility(IStaticURLInfo) is None: nothing was ever registered *)
Definition c17_no_static_info (regs : list reg) : bool := match regs with [] => true | _ => false end.

(* ------------------------------------------------------------------ StaticURLInfo.add (configuration time)
   add_static_view(name, spec): spec gets a trailing '/' unless it ends with '/' or ':' (a bare package), name gets a
   trailing '/'; a name that urlparse gives a netloc is a URL registration -- an earlier registration under the same
   URL is dropped --, otherwise a route '__<name>' with pattern '<name>*subpath' is added; the new entry goes last *)
Definition c17_add_slash (s : text) : text := if endswith_char 47 s then s else s ++ [47].
Definition c17_norm_spec (spec : text) : text :=
  if endswith_char 47 spec || endswith_char 58 spec then spec else spec ++ [47].
Definition c17_reg_spec (g : reg) : text := match g with RRoute s _ | RExt s _ => s end.
Definition c17_is_url_reg (u : text) (g : reg) : bool := match g with RExt _ u' => text_eqb u u' | RRoute _ _ => false end.
(* the first registration under URL u is removed (names.index) *)
Fixpoint c17_drop_first (u : text) (regs : list reg) : list reg :=
  match regs with
  | [] => []
  | g :: r => if c17_is_url_reg u g then r else g :: c17_drop_first u r
  end.
(* [is_url]: urlparse(name).netloc is non-empty (stdlib oracle, computed by the harness) *)
Definition c17_static_add (regs : list reg) (name spec : text) (is_url : bool) : list reg :=
  let spec := c17_norm_spec spec in
  let name := c17_add_slash name in
  if is_url then c17_drop_first name regs ++ [RExt spec name]
  else regs ++ [RRoute spec ([95; 95] ++ name)].
Definition c17_static_pattern (name : text) : text := c17_add_slash name ++ [42] ++ static_subpath_key.
Definition c17_static_adds (stmts : list (text * text * bool)) : list reg :=
  fold_left (fun regs s => c17_static_add regs (fst (fst s)) (snd (fst s)) (snd s)) stmts [].

(* ------------------------------------------------------------------ declarative reading of the route's part of the path
   (proved of route.generate in Proofs/C17_text.v; shipped to the judge by run_C17x): percent-decoded as a whole it reads
   literal, value, literal, .., star value *)
Definition kw_text (is_star : bool) (v : kwval) : option text :=
  match v with
  | KScalar x => spec_text x
  | KSeq l shown =>
      if is_star then olet ts := map_opt spec_text l in Some (join [47] ts)
      else if forallb valid_scalar shown then Some shown else None
  end.
Definition slot_text (p : pattern) (kw : list (text * kwval)) (n : text) : option text :=
  olet v := assoc n kw in kw_text (is_star_key p n) v.
Definition hole_text (p : pattern) (kw : list (text * kwval)) (h : text * text) : option text :=
  olet t := slot_text p kw (fst h) in Some (t ++ snd h).
Definition spec_path_text (p : pattern) (kw : list (text * kwval)) : option text :=
  olet hs := map_opt (hole_text p kw) (p_holes p) in
  olet st := match star_slot p with Some r => slot_text p kw r | None => Some [] end in
  Some (p_prefix p ++ concat hs ++ st).


(* ------------------------------------------------------------------ wire: the registrations a sequence of
   add_static_view statements leaves behind (round 6), everything else as before *)
Definition c17_put_reg (g : reg) : val :=
  match g with
  | RRoute s n => VL [VL []; VT s; VL [VT n]]
  | RExt s u => VL [VL [VT u]; VT s; VL []]
  end.
Definition c17_get_stmts : val -> option (list (text * text * bool)) :=
  get_list_of (fun v => match v with
                        | VL [VT n; VT s; VI 0%Z] => Some (n, s, false)
                        | VL [VT n; VT s; VI 1%Z] => Some (n, s, true)
                        | _ => None end).
Definition run_C17x (v : val) : val :=
  match v with
  | VL [VI 4%Z; stmts] =>
      ret_or_bad (match c17_get_stmts stmts with
                  | Some l => Some (VL [vlist c17_put_reg (c17_static_adds l);
                                        vlist (fun s : text * text * bool => VT (c17_static_pattern (fst (fst s))))
                                              (filter (fun s : text * text * bool => negb (snd s)) l)])
                  | None => None end)
  | VL [VI 6%Z; inner; VL [pat; md; kw; sub]] =>
      (* a generation case together with what the spec needs to read the route's part of the path:
         the pattern, matchdict (current_route_url), keywords, asset sub-path (static_url) *)
      ret_or_bad (olet p := get_pattern pat in olet md := get_kw md in olet kw := get_kw kw in
                  olet sub := get_opt get_text sub in
                  let kw1 := dupdate md kw in
                  let kw2 := match sub with Some sp => dset static_subpath_key (KScalar (PStr sp)) kw1 | None => kw1 end in
                  Some (VL [run_C17 inner; put_otext (spec_path_text p kw2)]))
  | _ => run_C17 v
  end.
