(* C07 -- resource paths and URLs resolve back to the resource they were
   generated for.  Executable definitions only.

   Code followed (src/pyramid): traversal.py _resource_path_list,
   resource_path_tuple, resource_path, find_resource, traverse (with webob's
   Request.blank, INCLUDING its reading of "^[a-z]+:" paths as URLs),
   ResourceURL.__init__ (both recognised forms of the virtual-root block,
   selected by the regenerated fact [url_vroot_mode]), virtual_root;
   url.py Request.resource_url / resource_path (no route_name, no
   __resource_url__, no query/anchor: those belong to C17).
   Trees, positions, the traverser, _join_path_tuple, quote_path_segment and
   webob's unquote are those of Model/C02.v. *)
From Coq Require Import List NArith ZArith Bool.
Import ListNotations.
Require Import Verif.Lib.Wire Verif.Lib.Text Verif.Lib.PathNorm Verif.Lib.Utf8 Verif.Lib.Percent
               Verif.Lib.C07Types Verif.Gen.Facts_C02 Verif.Gen.Facts_C07 Verif.Model.C02.

(* ------------------------------------------------------------ outcomes *)
Inductive err :=
| EExn (e : exn)        (* URLDecodeError / UnicodeDecodeError / UnicodeEncodeError *)
| ETypeError            (* webob: unknown scheme / fragment in the "URL" *)
| EValueError           (* urllib.parse.urlsplit: bad [..] host in the "URL" *)
| EUnsupported.         (* outside the model *)
Inductive out (A : Type) := Val (a : A) | Err (e : err).
Arguments Val {A}. Arguments Err {A}.

Definition xbind {A B} (r : out A) (f : A -> out B) : out B :=
  match r with Val a => f a | Err e => Err e end.
Notation "'xlet' x ':=' e 'in' k" := (xbind e (fun x => k))
  (at level 200, x pattern, e at level 100, k at level 200, right associativity).

Definition lift {A} (r : result A) : out A :=
  match r with Ok a => Val a | Exc e => Err (EExn e) | Unsupported => Err EUnsupported end.

(* ------------------------------------------------------------ lineage *)
(* the keys leading to the resource at position [p] *)
Fixpoint names_at (r : res) (p : pos) : option (list text) :=
  match p with
  | [] => Some []
  | i :: p' =>
      match r with
      | Node (Some l) =>
          match nth_error l i with
          | Some (n, c) => option_map (cons n) (names_at c p')
          | None => None
          end
      | Node None => None
      end
  end.

Definition names_of (root : res) (p : pos) : out (list text) :=
  match names_at root p with Some l => Val l | None => Err EUnsupported end.

(* loc.__name__ or '' *)
Definition name_or_default (n : text) : text := match n with [] => c07_name_default | _ => n end.

(* _resource_path_list(resource, *elements): the root's __name__ is None or '' *)
Definition resource_path_list (names els : list text) : list text :=
  (name_or_default [] :: map name_or_default names) ++ els.

(* resource_path_tuple / resource_path *)
Definition resource_path_tuple (root : res) (r : pos) (els : list text) : out (list text) :=
  xlet names := names_of root r in Val (resource_path_list names els).
Definition resource_path (root : res) (r : pos) (els : list text) : out text :=
  xlet t := resource_path_tuple root r els in lift (join_path_tuple t).

(* ------------------------------------------------------------ Request.blank *)
Definition lower (c : N) : N := if (N.leb 65 c && N.leb c 90)%bool then (c + 32)%N else c.
Definition colon : N := 58.
Definition hash : N := 35.

Fixpoint cut_at (f : N -> bool) (s : text) : text * text :=
  match s with
  | [] => ([], [])
  | c :: r => if f c then ([], s) else let '(a, b) := cut_at f r in (c :: a, b)
  end.

Definition is_tab_cr_lf (c : N) : bool := N.eqb c 9 || N.eqb c 10 || N.eqb c 13.
Definition is_netloc_end (c : N) : bool := N.eqb c slash || N.eqb c question || N.eqb c hash.
Definition t_http : text := [104; 116; 116; 112]%N.
Definition t_https : text := [104; 116; 116; 112; 115]%N.

(* environ_from_url(path)['PATH_INFO'] for an ascii [path].  When the text
   starts with "[A-Za-z]+:" webob hands it to urllib.parse.urlsplit. *)
Definition blank_path_info (path : text) : out text :=
  if has_scheme path then
    let url := filter (fun c => negb (is_tab_cr_lf c)) path in
    let '(scheme_raw, rest0) := cut_at (N.eqb colon) url in
    let scheme := map lower scheme_raw in
    let rest := tl rest0 in
    let '(netloc, url2) := if startswith [slash; slash] rest then cut_at is_netloc_end (skipn 2 rest)
                           else ([], rest) in
    if memN 91 netloc || memN 93 netloc then Err EUnsupported        (* IPv6 brackets: ValueError family *)
    else
      let '(url3, frag0) := cut_at (N.eqb hash) url2 in
      let '(url4, _) := cut_at (N.eqb question) url3 in
      if negb (match tl frag0 with [] => true | _ => false end) then Err ETypeError
      else if negb (memN colon netloc) && negb (text_eqb scheme t_http || text_eqb scheme t_https)
      then Err ETypeError
      else Val (webob_unquote url4)
  else Val (webob_unquote (hd [] (split_on question path))).

(* the same with the one opaque step of urlsplit supplied as an oracle: [host_ok] = "urlsplit(path) does not
   raise ValueError" (ipaddress / IPvFuture check of a bracketed host); consulted only when the netloc has
   both brackets -- a single bracket is always a ValueError *)
Definition blank_path_info_o (host_ok : bool) (path : text) : out text :=
  if has_scheme path then
    let url := filter (fun c => negb (is_tab_cr_lf c)) path in
    let '(scheme_raw, rest0) := cut_at (N.eqb colon) url in
    let scheme := map lower scheme_raw in
    let rest := tl rest0 in
    let '(netloc, url2) := if startswith [slash; slash] rest then cut_at is_netloc_end (skipn 2 rest)
                           else ([], rest) in
    if xorb (memN 91 netloc) (memN 93 netloc) then Err EValueError
    else if memN 91 netloc && negb host_ok then Err EValueError
    else
      let '(url3, frag0) := cut_at (N.eqb hash) url2 in
      let '(url4, _) := cut_at (N.eqb question) url3 in
      if negb (match tl frag0 with [] => true | _ => false end) then Err ETypeError
      else if negb (memN colon netloc) && negb (text_eqb scheme t_http || text_eqb scheme t_https)
      then Err ETypeError
      else Val (webob_unquote url4)
  else Val (webob_unquote (hd [] (split_on question path))).

(* pyramid.traversal.traverse(resource, path) *)
Definition traverse7 (root : res) (start : pos) (p : api_path) : out tdict :=
  xlet path := match p with
               | PStr s => Val s
               | PTuple [] => Val []
               | PTuple l => lift (join_path_tuple l)
               end in
  if negb (is_ascii path) then Err (EExn UnicodeEncodeError)           (* ascii_(path) *)
  else
    xlet resource := match path with
                     | c :: _ => if N.eqb c slash then Val ([], root)    (* find_root *)
                                 else match node_at root start with Some n => Val (start, n) | None => Err EUnsupported end
                     | [] => match node_at root start with Some n => Val (start, n) | None => Err EUnsupported end
                     end in
    xlet path_info := blank_path_info path in
    lift (traverser_call resource (mkReq (Some path_info) None None)).

Definition find7 (root : res) (start : pos) (p : api_path) : out found :=
  xlet d := traverse7 root start p in
  Val (match t_view_name d with [] => FoundAt (t_context d) | _ => KeyErr end).

(* find_resource(resource, <str>) with the oracle *)
Definition find7_str_o (host_ok : bool) (root : res) (start : pos) (path : text) : out found :=
  if negb (is_ascii path) then Err (EExn UnicodeEncodeError)
  else
    xlet resource := match path with
                     | c :: _ => if N.eqb c slash then Val ([], root)
                                 else match node_at root start with Some n => Val (start, n) | None => Err EUnsupported end
                     | [] => match node_at root start with Some n => Val (start, n) | None => Err EUnsupported end
                     end in
    xlet path_info := blank_path_info_o host_ok path in
    xlet d := lift (traverser_call resource (mkReq (Some path_info) None None)) in
    Val (match t_view_name d with [] => FoundAt (t_context d) | _ => KeyErr end).

(* ------------------------------------------------------------ ResourceURL *)
Fixpoint texts_eqb (a b : list text) : bool :=
  match a, b with
  | [], [] => true
  | x :: a', y :: b' => text_eqb x y && texts_eqb a' b'
  | _, _ => false
  end.

Record rurl := mkRU { ru_vp : text; ru_pp : text; ru_vpt : list text; ru_ppt : list text }.

Definition is_nil {A} (l : list A) : bool := match l with [] => true | _ => false end.

Definition resource_url_adapter (m : url_mode) (root : res) (r : pos) (vroot : option text) : out rurl :=
  xlet ppt0 := resource_path_tuple root r [] in
  xlet pp0 := lift (join_path_tuple ppt0) in
  let '(ppt, pp) := if texts_eqb ppt0 c07_root_tuple then (ppt0, pp0)
                    else (ppt0 ++ [c07_trail_elt], pp0 ++ c07_trail_sep) in
  match vroot with
  | None => Val (mkRU pp pp ppt ppt)
  | Some raw =>
      match m with
      | UrlTupleCompare =>
          xlet d := lift (decode_path_info raw) in
          let vt := split_path_info d in
          let n := length vt in
          if negb (Nat.eqb n 0) && texts_eqb (firstn n (skipn 1 ppt)) vt then
            let vpt := c07_vtuple_head ++ skipn (S n) ppt in
            xlet vp := lift (join_path_tuple vpt) in
            Val (mkRU vp pp vpt ppt)
          else Val (mkRU pp pp ppt ppt)
      | UrlStringPrefix =>
          let v := rstrip_char slash raw in
          if negb (is_nil v) && startswith v pp then
            let n := length (split_on slash v) in
            Val (mkRU (skipn (length v) pp) pp (c07_vtuple_head ++ skipn n ppt) ppt)
          else Val (mkRU pp pp ppt ppt)
      end
  end.

(* request.script_name (webob: latin-1 -> url_encoding) and its quoted form *)
Definition quoted_script_name (sn : text) : out text :=
  xlet d := lift (decode_path_info sn) in
  Val (Percent.quote c07_script_safe (Utf8.encode d)).

(* _join_elements(elements) for str elements *)
Definition join_elements (els : list text) : out text :=
  xlet qs := lift (rmap (fun e => quote_path_segment_safe e c07_elements_safe) els) in
  Val (join c07_elements_sep qs).

(* webob.request.PATH_SAFE, the safe set of BaseRequest.application_url (third-party constant) *)
Definition webob_path_safe : text := [47; 126; 33; 36; 38; 39; 40; 41; 42; 43; 44; 59; 61; 58; 64]%N.

(* webob: request.application_url = host_url + url_quote(bytes_(script_name, url_encoding), PATH_SAFE);
   [host] is the observed request.host_url (scheme://host[:port], C17's subject) *)
Definition application_url (host : text) (sn : text) : out text :=
  xlet d := lift (decode_path_info sn) in
  Val (host ++ Percent.quote webob_path_safe (Utf8.encode d)).

(* request.resource_url(resource, *elements) *)
Definition resource_url (m : url_mode) (root : res) (r : pos) (els : list text) (vroot : option text)
           (sn : text) (host : option text) : out text :=
  xlet ru := resource_url_adapter m root r vroot in
  match host with
  | None => Err EUnsupported
  | Some h =>
      xlet a := application_url h sn in
      xlet suffix := match els with [] => Val [] | _ => join_elements els end in
      Val (a ++ ru_vp ru ++ suffix)
  end.

(* request.resource_path(resource, *elements) *)
Definition request_resource_path (m : url_mode) (root : res) (r : pos) (els : list text) (vroot : option text)
           (sn : text) : out text :=
  xlet a := if c07_script_quoted then quoted_script_name sn else lift (decode_path_info sn) in
  xlet ru := resource_url_adapter m root r vroot in
  xlet suffix := match els with [] => Val [] | _ => join_elements els end in
  Val (a ++ ru_vp ru ++ suffix).

Definition endswith (suffix s : text) : bool := startswith (rev suffix) (rev s).

(* pyramid.traversal.virtual_root(resource, request) for a request without a
   [root] attribute (find_root(resource) is the fallback) *)
Definition virtual_root (m : url_mode) (root : res) (r : pos) (vroot : option text) : out found :=
  xlet ru := resource_url_adapter m root r vroot in
  let vpath := ru_vp ru in
  let rpath := ru_pp ru in
  if negb (text_eqb rpath vpath) && endswith vpath rpath then
    let vroot_path := match vpath with
                      | [] => []                                      (* rpath[:-0] *)
                      | _ => firstn (length rpath - length vpath) rpath
                      end in
    find7 root r (PStr vroot_path)
  else Val (FoundAt []).

(* requesting the path part of resource_url(resource) with the same
   virtual-root header: what a WSGI server hands over as PATH_INFO is the
   percent-decoded path as latin-1 text.  Returns the context, the view name
   and the context seen by a view registered with the empty name. *)
Definition request_back (m : url_mode) (root : res) (r : pos) (vroot : option text)
  : out (pos * text * option pos) :=
  xlet ru := resource_url_adapter m root r vroot in
  xlet d := lift (traverser_call ([], root) (mkReq (Some (Percent.unquote (ru_vp ru))) None vroot)) in
  Val (t_context d, t_view_name d, match t_view_name d with [] => Some (t_context d) | _ => None end).

(* ------------------------------------------------------------ primitives of the generated code *)
(* The LEAVES onto which harness/c07/translate.py maps the primitive expressions of the translated
   functions (Gen/Code_C07.v); the control flow of those functions is not written here. *)
(* x.__parent__ : the root has None, any other resource the resource one level up *)
Definition parent_of (p : pos) : option pos := match p with [] => None | _ => Some (removelast p) end.
(* the same inside try/except AttributeError: every resource of a modelled tree HAS the attribute *)
Definition attr_parent (p : pos) : option (option pos) := Some (parent_of p).
(* x.__name__ : None for the root, else the key under which the parent holds x *)
Definition attr_name (root : res) (p : pos) : option text :=
  match p with
  | [] => None
  | _ => match names_at root p with Some ns => Some (last ns []) | None => Some [] end
  end.
(* n or d   for n a str-or-None *)
Definition or_text (n : option text) (d : text) : text := match n with Some (c :: t) => c :: t | _ => d end.
(* bound for a loop that follows __parent__ links: the depth of the resource (+1) *)
Definition chain_fuel (o : option pos) : nat := match o with Some p => S (length p) | None => O end.
Definition loop_fuel (o : option pos) : nat := S (chain_fuel o).
Fixpoint omap {A B} (f : A -> out B) (l : list A) : out (list B) :=
  match l with
  | [] => Val []
  | x :: r => xlet y := f x in xlet ys := omap f r in Val (y :: ys)
  end.
(* url_quote(text_(segment, 'utf-8'), safe) for a str segment *)
Definition url_quote_r (seg safe : text) : out text := lift (quote_path_segment_safe seg safe).
(* ascii_(path) *)
Definition ascii_r (s : text) : out text := if is_ascii s then Val s else Err (EExn UnicodeEncodeError).
(* s[0] == c  for a non-empty s *)
Definition head_is (s : text) (c : N) : bool := match s with x :: _ => N.eqb x c | [] => false end.
Definition nonempty {A} (l : list A) : bool := negb (is_nil l).
(* Request.blank(path): all the traverser reads of it is PATH_INFO *)
Definition blank_request (path : text) : out request :=
  xlet pi := blank_path_info path in Val (mkReq (Some pi) None None).
(* ResourceTreeTraverser(resource)(request) *)
Definition run_traverser (root : res) (resource : pos) (q : request) : out tdict :=
  match node_at root resource with
  | Some n => lift (traverser_call (resource, n) q)
  | None => Err EUnsupported
  end.
(* ResourceURL(resource, request): the request is represented by its HTTP_X_VHM_ROOT header *)
Definition adapter_r (root : res) (resource : pos) (vroot : option text) : out rurl :=
  resource_url_adapter url_vroot_mode root resource vroot.
Definition py_to_text (z : Z) (l : text) : text := Verif.Lib.C02Expr.py_to z l.

(* ------------------------------------------------------------ elements of any type *)
(* What quote_path_segment accepts as a segment and the url / path functions as an extra element: a str, a
   bytes object (decoded as UTF-8), or any other object, of which the code reads str(x) -- [printed] -- and
   which a dictionary / lru_cache compares by == and hash: [key] names its equality class among the objects
   of one case (1 == True == 1.0 == Decimal('1.0') share a key and print differently). *)
Inductive seg := SStr (t : text) | SBytes (b : list N) | SObj (key : N) (printed : text).
(* s.__class__ in (str, bytes) *)
Definition seg_plain (s : seg) : bool := match s with SObj _ _ => false | _ => true end.
(* str(s) for an object that is neither *)
Definition seg_str (s : seg) : seg := match s with SObj _ p => SStr p | _ => s end.
(* text_(s, 'utf-8') *)
Definition seg_text_r (s : seg) : out text :=
  match s with
  | SStr t => Val t
  | SBytes b => match Utf8.decode b with Some t => Val t | None => Err (EExn UnicodeDecodeError) end
  | SObj _ _ => Err EUnsupported
  end.
(* quote_path_segment(segment, safe) for a segment of any type (reference for gen_quote_path_segment_any) *)
Definition quote_seg (s : seg) (safe : text) : out text :=
  xlet t := seg_text_r (if seg_plain s then s else seg_str s) in url_quote_r t safe.
(* _join_path_tuple(tuple) without its cache *)
Definition join_path_segs (l : list seg) : out text :=
  match l with
  | [] => Val slash_text
  | _ => xlet qs := omap (fun s => quote_seg s path_segment_safe) l in
         Val (match join slash_text qs with [] => slash_text | s => s end)
  end.
Definition resource_path_list_e (names : list text) (els : list seg) : list seg :=
  map SStr (name_or_default [] :: map name_or_default names) ++ els.
Definition resource_path_tuple_e (root : res) (r : pos) (els : list seg) : out (list seg) :=
  xlet names := names_of root r in Val (resource_path_list_e names els).
Definition resource_path_e (root : res) (r : pos) (els : list seg) : out text :=
  xlet t := resource_path_tuple_e root r els in join_path_segs t.

(* url._join_elements: the elements are first normalised to what is quoted (str / bytes stay, anything else is
   printed), then handed to the cached _join_quoted_elements *)
Definition norm_elements (els : list seg) : list seg := map (fun s => if seg_plain s then s else seg_str s) els.
Definition join_quoted_elements (els : list seg) : out text :=
  xlet qs := omap (fun s => quote_seg s c07_elements_safe) els in Val (join c07_elements_sep qs).
Definition join_elements_e (els : list seg) : out text := join_quoted_elements (norm_elements els).

Definition resource_url_e (m : url_mode) (root : res) (r : pos) (els : list seg) (vroot : option text)
           (sn : text) (host : option text) : out text :=
  xlet ru := resource_url_adapter m root r vroot in
  match host with
  | None => Err EUnsupported
  | Some h =>
      xlet a := application_url h sn in
      xlet suffix := match els with [] => Val [] | _ => join_elements_e els end in
      Val (a ++ ru_vp ru ++ suffix)
  end.
Definition request_resource_path_e (m : url_mode) (root : res) (r : pos) (els : list seg) (vroot : option text)
           (sn : text) : out text :=
  xlet a := if c07_script_quoted then quoted_script_name sn else lift (decode_path_info sn) in
  xlet ru := resource_url_adapter m root r vroot in
  xlet suffix := match els with [] => Val [] | _ => join_elements_e els end in
  Val (a ++ ru_vp ru ++ suffix).

(* equality of two segments AS CACHE KEYS (== and hash) *)
Definition seg_key_eqb (a b : seg) : bool :=
  match a, b with
  | SStr x, SStr y => text_eqb x y
  | SBytes x, SBytes y => text_eqb x y
  | SObj k _, SObj k' _ => N.eqb k k'
  | _, _ => false
  end.
Fixpoint segs_key_eqb (a b : list seg) : bool :=
  match a, b with
  | [], [] => true
  | x :: a', y :: b' => seg_key_eqb x y && segs_key_eqb a' b'
  | _, _ => false
  end.
(* A SECOND call resource_path(r, *els2) in a process that has answered resource_path(r, *els1): when
   _join_path_tuple is lru_cached on the raw tuple ([raw], the regenerated fact c07_join_raw_key) a tuple that
   is equal AS A KEY to the earlier one is answered from the cache (a call that raised left no entry). *)
Definition resource_path_second (raw : bool) (root : res) (r : pos) (els1 els2 : list seg) : out text :=
  xlet names := names_of root r in
  let t1 := resource_path_list_e names els1 in
  let t2 := resource_path_list_e names els2 in
  if raw && segs_key_eqb t2 t1 then
    match join_path_segs t1 with Val s => Val s | Err _ => join_path_segs t2 end
  else join_path_segs t2.

(* ------------------------------------------------------------ spec *)
(* names the property quantifies over: non-empty, no '/', not '.' or '..',
   not starting with '@@' (and text, i.e. Unicode scalar values) *)
Definition admissible (s : text) : bool :=
  normal_segb s && negb (spec_is_selector s) && forallb valid_scalar s.

Fixpoint pos_eqb (a b : pos) : bool :=
  match a, b with
  | [], [] => true
  | x :: a', y :: b' => Nat.eqb x y && pos_eqb a' b'
  | _, _ => false
  end.
Fixpoint pos_prefixb (a b : pos) : bool :=
  match a, b with
  | [], _ => true
  | x :: a', y :: b' => Nat.eqb x y && pos_prefixb a' b'
  | _ :: _, [] => false
  end.

(* the tree is location-consistent at [r]: item lookup along the names of
   [r]'s lineage leads to [r] itself *)
Definition reachable (root : res) (r : pos) (names : list text) : bool :=
  match descend ([], root) names with Some n => pos_eqb (fst n) r | None => false end.

(* a resource the property speaks about *)
Definition good_resource (root : res) (r : pos) : option (list text) :=
  match names_at root r with
  | Some names => if forallb admissible names && reachable root r names then Some names else None
  | None => None
  end.

(* the quoted form of one name: UTF-8, percent-encoded *)
Definition q (s : text) : text := Percent.quote path_segment_safe (Utf8.encode s).

(* "/" n1 "/" n2 "/" ... nk "/" *)
Definition slashed (names : list text) : text := slash :: flat_map (fun n => q n ++ [slash]) names.

(* [r] lies inside the resource found at the virtual-root segments *)
Definition inside (root : res) (vt : list text) (r : pos) : option pos :=
  match descend ([], root) vt with
  | Some v => if pos_prefixb (fst v) r then Some (fst v) else None
  | None => None
  end.

(* lookup of admissible segments from a resource: the resource reached by item
   lookup, a missing name (or a resource without items) = KeyError *)
Definition spec_lookup (root : res) (a : pos) (segs : list text) : option found :=
  match node_at root a with
  | Some n => Some (match descend (a, n) segs with Some x => FoundAt (fst x) | None => KeyErr end)
  | None => None
  end.

(* the virtual-root header as the traverser reads it *)
Definition header_segments (vroot : option text) : option (list text) :=
  match vroot with
  | None => Some []
  | Some raw => match decode_path_info raw with Ok d => Some (split_path_info d) | _ => None end
  end.

(* the virtual path the property demands: the prefix is omitted exactly when
   the resource lies inside the virtual root *)
Definition spec_virtual_path (root : res) (r : pos) (names : list text) (vt : list text) : text :=
  match inside root vt r with
  | Some _ => slashed (skipn (length vt) names)
  | None => slashed names
  end.

Definition spec_suffix (els : list text) : option text :=
  if forallb (forallb valid_scalar) els then Some (join [slash] (map q els)) else None.

(* ------------------------------------------------------------ wire glue *)
Definition err_val (e : err) : val :=
  match e with
  | EExn x => VL [VI 1; VI (exn_code x)]
  | ETypeError => VL [VI 1; VI 4]
  | EValueError => VL [VI 1; VI 5]
  | EUnsupported => VL [VI 2]
  end.
Definition put_out {A} (f : A -> val) (r : out A) : val :=
  match r with Val a => f a | Err e => err_val e end.
Definition put_text (t : text) : val := VL [VI 6; VT t].
Definition put_rurl (u : rurl) : val := VL [VI 7; VT (ru_vp u); VT (ru_pp u); vtexts (ru_vpt u); vtexts (ru_ppt u)].
Definition put_back (x : pos * text * option pos) : val :=
  let '(c, v, w) := x in VL [VI 8; put_pos c; VT v; vopt put_pos w].
Definition none_val : val := VL [].
Definition put_some {A} (f : A -> val) (o : option A) : val :=
  match o with Some a => f a | None => none_val end.

Record case := mkCase {
  c_tree : res; c_r : pos; c_a : pos; c_rel : list text; c_rel_str : text;
  c_els : list text; c_vroot : option text; c_script : text; c_app : option text;   (* c_app: request.host_url *)
  c_host_ok : bool;                       (* urlsplit(rel_str) does not raise ValueError *)
  c_more : list pos }.                    (* three more resources whose URLs are asked of the SAME request object *)

(* the absolute string that is equivalent to looking [rel_str] up from [a] *)
Definition abs_string (root : res) (a : pos) (rel_str : text) : out text :=
  xlet pa := resource_path root a [] in
  Val (match rel_str with [] => pa | _ => pa ++ slash :: rel_str end).

Definition model_obs (m : url_mode) (c : case) : list val :=
  let root := c_tree c in
  let r := c_r c in
  let a := c_a c in
  [ put_out put_tuple (resource_path_tuple root r (c_els c));
    put_out put_text (resource_path root r (c_els c));
    put_out put_found (xlet t := resource_path_tuple root r [] in find7 root a (PTuple t));
    put_out put_found (xlet s := resource_path root r [] in find7 root a (PStr s));
    put_out put_found (find7 root a (PTuple (c_rel c)));
    put_out put_found (xlet t := resource_path_tuple root a (c_rel c) in find7 root r (PTuple t));
    put_out put_found (find7_str_o (c_host_ok c) root a (c_rel_str c));
    put_out put_found (xlet s := abs_string root a (c_rel_str c) in find7 root r (PStr s));
    put_out put_rurl (resource_url_adapter m root r (c_vroot c));
    put_out put_text (resource_url m root r (c_els c) (c_vroot c) (c_script c) (c_app c));
    put_out put_text (request_resource_path m root r (c_els c) (c_vroot c) (c_script c));
    put_out put_found (virtual_root m root r (c_vroot c));
    put_out put_back (request_back m root r (c_vroot c)) ]
  ++ map (fun p => put_out put_text (resource_url m root p [] (c_vroot c) (c_script c) (c_app c))) (c_more c).

(* what the property demands of each observation ([] = nothing) *)
Definition spec_obs (c : case) : list val :=
  let root := c_tree c in
  let r := c_r c in
  let a := c_a c in
  let gr := good_resource root r in
  let ga := good_resource root a in
  let back := match gr with Some _ => put_found (FoundAt r) | None => none_val end in
  let rel_ok := forallb admissible (c_rel c) in
  let lookup := match ga with
                | Some _ => if rel_ok then put_some put_found (spec_lookup root a (c_rel c)) else none_val
                | None => none_val
                end in
  let rel_canonical := text_eqb (c_rel_str c) (join [slash] (map q (c_rel c))) in
  let lookup_str := if rel_canonical then lookup else none_val in
  let vt := header_segments (c_vroot c) in
  let vp := match gr, vt with
            | Some names, Some vt => Some (spec_virtual_path root r names vt)
            | _, _ => None
            end in
  let is_inside := match gr, vt with
                   | Some _, Some vt => inside root vt r
                   | _, _ => None
                   end in
  [ none_val; none_val; back; back; lookup; lookup; lookup_str; lookup_str;
    put_some (fun v => VL [VI 7; VT v]) vp;
    (* the application URL = host part + SCRIPT_NAME as UTF-8, percent-quoted with the path safe set *)
    match vp, spec_suffix (c_els c), c_app c, decode_path_info (c_script c) with
    | Some v, Some s, Some host, Ok d => put_text (host ++ Percent.quote c07_script_safe (Utf8.encode d) ++ v ++ s)
    | _, _, _, _ => none_val
    end;
    match vp, spec_suffix (c_els c), decode_path_info (c_script c) with
    | Some v, Some s, Ok d => put_text (Percent.quote c07_script_safe (Utf8.encode d) ++ v ++ s)
    | _, _, _ => none_val
    end;
    match is_inside with Some v => put_found (FoundAt v) | None => none_val end;
    match is_inside with Some _ => put_back (r, [], Some r) | None => none_val end ]
  ++ map (fun p =>
            match good_resource root p, vt, c_app c, decode_path_info (c_script c) with
            | Some names, Some vt, Some host, Ok d =>
                put_text (host ++ Percent.quote c07_script_safe (Utf8.encode d) ++ spec_virtual_path root p names vt)
            | _, _, _, _ => none_val
            end) (c_more c).

(* ---- the typed-element observations (16..22), appended to the sixteen above *)
Definition put_seg (s : seg) : val :=
  match s with SStr t => VT t | SBytes b => VL [VI 1; VT b] | SObj k p => VL [VI 2; VT p; vN k] end.
Definition put_segs (l : list seg) : val := VL [VI 3; VL (map put_seg l)].
Definition get_seg (v : val) : option seg :=
  match v with
  | VL [VI 0; VT t] => Some (SStr t)
  | VL [VI 1; VT b] => Some (SBytes b)
  | VL [VI 2; VT p; VI k] => Some (SObj (Z.to_N k) p)
  | _ => None
  end.

Definition model_ext (m : url_mode) (raw : bool) (c : case) (e1 e2 : list seg) : list val :=
  let root := c_tree c in
  let r := c_r c in
  [ put_out put_segs (resource_path_tuple_e root r e1);
    put_out put_text (resource_path_e root r e1);
    put_out put_text (resource_url_e m root r e1 (c_vroot c) (c_script c) (c_app c));
    put_out put_text (request_resource_path_e m root r e1 (c_vroot c) (c_script c));
    put_out put_text (resource_path_second raw root r e1 e2);
    put_out put_text (resource_url_e m root r e2 (c_vroot c) (c_script c) (c_app c));
    put_out put_text (request_resource_path_e m root r e2 (c_vroot c) (c_script c)) ].

(* the text an element stands for: a str itself, bytes decoded as UTF-8, anything else printed *)
Definition seg_text_of (s : seg) : option text :=
  match s with SStr t => Some t | SBytes b => Utf8.decode b | SObj _ p => Some p end.
Fixpoint seg_texts (l : list seg) : option (list text) :=
  match l with
  | [] => Some []
  | s :: r => match seg_text_of s, seg_texts r with Some t, Some ts => Some (t :: ts) | _, _ => None end
  end.
Definition elts_texts (l : list seg) : option (list text) :=
  match seg_texts l with
  | Some ts => if forallb (forallb valid_scalar) ts then Some ts else None
  | None => None
  end.
(* "/" q(n1) "/" ... "/" q(nk) "/" q(e1) ...  ("/" alone for the root without elements) *)
Definition spec_path_text (names ts : list text) : text := slash :: join [slash] (map q (names ++ ts)).

Definition spec_ext (c : case) (e1 e2 : list seg) : list val :=
  let root := c_tree c in
  let r := c_r c in
  let gr := good_resource root r in
  let vt := header_segments (c_vroot c) in
  let vp := match gr, vt with
            | Some names, Some vt => Some (spec_virtual_path root r names vt)
            | _, _ => None
            end in
  let path e := match gr, elts_texts e with
                | Some names, Some ts => put_text (spec_path_text names ts)
                | _, _ => none_val
                end in
  let url e := match vp, elts_texts e, c_app c, decode_path_info (c_script c) with
               | Some v, Some ts, Some host, Ok d =>
                   put_text (host ++ Percent.quote c07_script_safe (Utf8.encode d) ++ v ++ join [slash] (map q ts))
               | _, _, _, _ => none_val
               end in
  let rpath e := match vp, elts_texts e, decode_path_info (c_script c) with
                 | Some v, Some ts, Ok d =>
                     put_text (Percent.quote c07_script_safe (Utf8.encode d) ++ v ++ join [slash] (map q ts))
                 | _, _, _ => none_val
                 end in
  [ match gr with Some names => put_segs (map SStr ([] :: names) ++ e1) | None => none_val end;
    path e1; url e1; rpath e1; path e2; url e2; rpath e2 ].

Definition get_case (v : val) : option case :=
  match v with
  | VL [t; r; a; rel; VT rel_str; els; vr; VT sn; app; hok; more] =>
      olet t := get_res t in olet r := get_pos r in olet a := get_pos a in
      olet rel := get_texts rel in olet els := get_texts els in
      olet vr := get_opt get_text vr in olet app := get_opt get_text app in
      olet hok := get_bool hok in olet more := get_list_of get_pos more in
      Some (mkCase t r a rel rel_str els vr sn app hok more)
  | _ => None
  end.

Definition run_C07 (v : val) : val :=
  ret_or_bad (match v with
              | VL [t; r; a; rel; rel_str; els; vr; sn; app; hok; more; e1; e2] =>
                  olet c := get_case (VL [t; r; a; rel; rel_str; els; vr; sn; app; hok; more]) in
                  olet e1 := get_list_of get_seg e1 in olet e2 := get_list_of get_seg e2 in
                  Some (VL [VL (model_obs url_vroot_mode c ++ model_ext url_vroot_mode c07_join_raw_key c e1 e2);
                            VL (spec_obs c ++ spec_ext c e1 e2)])
              | _ => None
              end).
