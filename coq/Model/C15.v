(* C15 -- view lookup cache (pyramid.view._find_views, Registry._view_lookup_cache,
   Registry._clear_view_lookup_cache, the register action of add_view) as a
   small-step system over any number of threads.  Executable definitions only.

   The lookup and register programs are NOT written here: they are the
   instruction lists [lookup_prog] / [register_prog] that the facts extractor
   translates from the Python source on every run (Gen/Facts_C15.v).  This file
   gives the instruction semantics, the trace semantics, the declarative
   expectation (spec) and the wire glue. *)
From Coq Require Import List NArith ZArith Bool Arith.
Import ListNotations.
Require Import Verif.Lib.Wire Verif.Lib.C15Prog Verif.Lib.C15Init Verif.Gen.Facts_C15.

Definition view := N.
(* a lookup: view classifier (0 = IViewClassifier, 1 = IExceptionViewClassifier), request iface,
   context iface, view name *)
Definition key := (N * N * N * N)%type.
Definition cid := nat.                     (* identity of a cache dictionary *)
Definition tid := nat.

Definition slot_eqb (a b : slot) : bool :=
  let '(a0, a1, a2, a3, a4) := a in let '(b0, b1, b2, b3, b4) := b in
  N.eqb a0 b0 && N.eqb a1 b1 && N.eqb a2 b2 && N.eqb a3 b3 && N.eqb a4 b4.
Definition key_eqb (a b : key) : bool :=
  let '(a0, a1, a2, a3) := a in let '(b0, b1, b2, b3) := b in
  N.eqb a0 b0 && N.eqb a1 b1 && N.eqb a2 b2 && N.eqb a3 b3.

(* the key under which a lookup reads and writes the cache: with [KeyTriad] the classifier is not part
   of it, so an ordinary and an exception-view lookup of the same triad share one entry *)
Definition ckey (km : key_mode) (k : key) : key :=
  match km with
  | KeyFull => k
  | KeyTriad => let '(_, rq, cx, nm) := k in (0%N, rq, cx, nm)
  end.

(* adapter registry: association list, newest first; None = unregistered *)
Definition update := (slot * option view)%type.
Definition reg := list update.
Fixpoint rget (R : reg) (s : slot) : option view :=
  match R with
  | [] => None
  | (s', v) :: r => if slot_eqb s s' then v else rget r s
  end.
Definition rapply (ups : list update) (R : reg) : reg := rev ups ++ R.

(* a cache dictionary: newest binding first *)
Definition dict := list (key * list view).
Fixpoint dget (d : dict) (k : key) : option (list view) :=
  match d with
  | [] => None
  | (k', v) :: r => if key_eqb k k' then Some v else dget r k
  end.
Definition dset (k : key) (v : list view) (d : dict) : dict := (k, v) :: d.

Definition upd {A} (f : nat -> A) (i : nat) (a : A) : nat -> A :=
  fun j => if Nat.eqb j i then a else f j.

Definition hit (R : reg) (s : slot) : list view :=
  match rget R s with Some v => [v] | None => [] end.
Definition lookup_over (R : reg) (sl : list slot) : list view := flat_map (hit R) sl.

Inductive kind := KLookup | KRegister.

Record thread := mkThread {
  tkind : kind;
  tkey : key;                      (* lookup threads: the cache key *)
  tups : list update;              (* register threads: what RegisterAdapter does *)
  cont : list instr;               (* what is left to execute *)
  tc : option cid;                 (* the local [cache] *)
  tviews : option (list view);     (* the local [views]; None = Python None / unbound *)
  tres : option (list view);       (* returned value *)
  tsnap : option dict;             (* dictionary read by WriteLoad (finer atomicity only) *)
  tpc : nat;                       (* instructions executed so far *)
  tq : nat;                        (* adapter-registry queries made so far *)
  tcrash : bool                    (* an instruction found its operand missing *)
}.

Record state := mkState {
  R : reg;
  heap : cid -> dict;
  ncid : nat;                      (* next unused dictionary identity *)
  cur : cid;                       (* registry._view_lookup_cache *)
  lock : option tid;
  threads : tid -> option thread;
  ntid : nat
}.

Definition put (st : state) (i : tid) (t : thread) : state :=
  mkState (R st) (heap st) (ncid st) (cur st) (lock st) (upd (threads st) i (Some t)) (ntid st).
Definition set_R (st : state) (r : reg) : state :=
  mkState r (heap st) (ncid st) (cur st) (lock st) (threads st) (ntid st).
Definition set_heap (st : state) (h : cid -> dict) : state :=
  mkState (R st) h (ncid st) (cur st) (lock st) (threads st) (ntid st).
Definition set_lock (st : state) (l : option tid) : state :=
  mkState (R st) (heap st) (ncid st) (cur st) l (threads st) (ntid st).
Definition swap_cache (st : state) : state :=
  mkState (R st) (upd (heap st) (ncid st) []) (S (ncid st)) (ncid st) (lock st) (threads st) (ntid st).

Definition tick (t : thread) (rest : list instr) : thread :=
  mkThread (tkind t) (tkey t) (tups t) rest (tc t) (tviews t) (tres t) (tsnap t) (S (tpc t)) (tq t) (tcrash t).
Definition set_cont (t : thread) (c : list instr) : thread :=
  mkThread (tkind t) (tkey t) (tups t) c (tc t) (tviews t) (tres t) (tsnap t) (tpc t) (tq t) (tcrash t).
Definition set_tc (t : thread) (c : option cid) : thread :=
  mkThread (tkind t) (tkey t) (tups t) (cont t) c (tviews t) (tres t) (tsnap t) (tpc t) (tq t) (tcrash t).
Definition set_views (t : thread) (v : option (list view)) : thread :=
  mkThread (tkind t) (tkey t) (tups t) (cont t) (tc t) v (tres t) (tsnap t) (tpc t) (tq t) (tcrash t).
Definition set_res (t : thread) (v : option (list view)) : thread :=
  mkThread (tkind t) (tkey t) (tups t) (cont t) (tc t) (tviews t) v (tsnap t) (tpc t) (tq t) (tcrash t).
Definition count_query (t : thread) : thread :=
  mkThread (tkind t) (tkey t) (tups t) (cont t) (tc t) (tviews t) (tres t) (tsnap t) (tpc t) (S (tq t)) (tcrash t).
Definition set_snap (t : thread) (d : option dict) : thread :=
  mkThread (tkind t) (tkey t) (tups t) (cont t) (tc t) (tviews t) (tres t) d (tpc t) (tq t) (tcrash t).
Definition crash (t : thread) : thread :=
  mkThread (tkind t) (tkey t) (tups t) [] (tc t) (tviews t) None (tsnap t) (S (tpc t)) (tq t) true.

Definition is_nil {A} (l : list A) : bool := match l with [] => true | _ => false end.

(* a register thread between its first and its last instruction *)
Definition midway (t : thread) : bool :=
  match tkind t with
  | KRegister => negb (Nat.eqb (tpc t) 0) && negb (is_nil (cont t))
  | KLookup => false
  end.

(* between Lock and Unlock (the body of [with registry._lock:]) *)
Definition in_critical (t : thread) : bool :=
  match cont t with Write _ :: _ => true | Unlock :: _ => true | _ => false end.
Definition unfinished (st : state) (i : tid) : bool :=
  match threads st i with Some t => negb (is_nil (cont t)) | None => false end.
(* thread i can take a step that is not a blocked Lock *)
Definition enabled (st : state) (i : tid) : bool :=
  match threads st i with
  | Some t =>
      match cont t with
      | [] => false
      | Lock :: _ => match lock st with None => true | Some _ => false end
      | _ => true
      end
  | None => false
  end.

Definition init (R0 : reg) : state :=
  mkState R0 (fun _ => []) 1 0 None (fun _ => None) 0.

Inductive label :=
| SpawnLookup (k : key)
| SpawnRegister (ups : list update)
| Step (i : tid).

Section Sys.
  Variable sro : N -> list N.          (* zope.interface resolution orders: oracle input *)
  Variable km : key_mode.              (* contents of the cache key *)
  Variable LP RP : list instr.         (* lookup / register program *)

  (* itertools.product(request_iface.__sro__, context_iface.__sro__) x view_types *)
  Definition slots_of (k : key) : list slot :=
    let '(cl, rq, cx, nm) := k in
    flat_map (fun r => flat_map (fun c => map (fun t => (cl, r, c, t, nm)) view_types) (sro cx)) (sro rq).

  Definition lookup_all (Rg : reg) (k : key) : list view := lookup_over Rg (slots_of k).

  (* one instruction of thread [i]; every instruction is atomic *)
  Definition step_thread (st : state) (i : tid) (t : thread) : state :=
    match cont t with
    | [] => st
    | ins :: rest =>
        let t' := tick t rest in
        match ins with
        | ReadPtr => put st i (set_tc t' (Some (cur st)))
        | Get =>
            match tc t with
            | Some c => put st i (set_views t' (dget (heap st c) (ckey km (tkey t))))
            | None => put st i (crash t)
            end
        | IfMiss body =>
            put st i (match tviews t with None => set_cont t' (body ++ rest) | Some _ => t' end)
        | InitViews => put st i (set_views t' (Some []))
        | QueryAll => put st i (set_cont t' (map Query (slots_of (tkey t)) ++ rest))
        | Query s =>
            match tviews t with
            | Some vs => put st i (count_query (set_views t' (Some (vs ++ hit (R st) s))))
            | None => put st i (crash t)
            end
        | IfNonEmpty body =>
            put st i (match tviews t with Some (_ :: _) => set_cont t' (body ++ rest) | _ => t' end)
        | Lock =>
            match lock st with
            | None => set_lock (put st i t') (Some i)
            | Some _ => st                                   (* blocked *)
            end
        | Write tg =>
            match tviews t, (match tg with Local => tc t | Reread => Some (cur st) end) with
            | Some vs, Some c =>
                put (set_heap st (upd (heap st) c (dset (ckey km (tkey t)) vs (heap st c)))) i t'
            | _, _ => put st i (crash t)
            end
        | WriteLoad tg =>
            match (match tg with Local => tc t | Reread => Some (cur st) end) with
            | Some c => put st i (set_snap t' (Some (heap st c)))
            | None => put st i (crash t)
            end
        | WriteStore tg =>
            match tviews t, tsnap t, (match tg with Local => tc t | Reread => Some (cur st) end) with
            | Some vs, Some d, Some c =>
                put (set_heap st (upd (heap st) c (dset (ckey km (tkey t)) vs d))) i t'
            | _, _, _ => put st i (crash t)
            end
        | Unlock => set_lock (put st i t') None
        | Return => put st i (set_res t' (tviews t))
        | RegisterAdapter => put (set_R st (rapply (tups t) (R st))) i t'
        | Clear Swap => put (swap_cache st) i t'
        | Clear InPlace => put (set_heap st (upd (heap st) (cur st) [])) i t'
        end
    end.

  Definition new_lookup (k : key) : thread := mkThread KLookup k [] LP None None None None 0 0 false.
  Definition new_register (ups : list update) : thread :=
    mkThread KRegister (0, 0, 0, 0)%N ups RP None None None None 0 0 false.

  Definition spawn (st : state) (t : thread) : state :=
    mkState (R st) (heap st) (ncid st) (cur st) (lock st)
            (upd (threads st) (ntid st) (Some t)) (S (ntid st)).

  Definition do_label (st : state) (l : label) : state :=
    match l with
    | SpawnLookup k => spawn st (new_lookup k)
    | SpawnRegister ups => spawn st (new_register ups)
    | Step i => match threads st i with Some t => step_thread st i t | None => st end
    end.

  Definition exec (tr : list label) (st : state) : state := fold_left do_label tr st.

  (* ---- declarative expectation (the property's wording) ---- *)

  (* no registration is between its first and last instruction *)
  Fixpoint quiet_upto (n : nat) (st : state) : bool :=
    match n with
    | 0 => true
    | S m => match threads st m with Some t => negb (midway t) | None => true end && quiet_upto m st
    end.
  Definition quietb (st : state) : bool := quiet_upto (ntid st) st.

  (* the step about to be taken changes the adapter registry *)
  Definition reg_step (st : state) (l : label) : bool :=
    match l with
    | Step i =>
        match threads st i with
        | Some t => match cont t with RegisterAdapter :: _ => true | _ => false end
        | None => false
        end
    | _ => false
    end.

  Definition finished (st : state) (j : tid) : bool :=
    match threads st j with Some t => is_nil (cont t) | None => true end.

  (* expect st tr ex j = Some vs: the property demands answer vs of lookup j --
     it started when no registration was in progress and the registrations did
     not change before it returned.  None = the property says nothing. *)
  Fixpoint expect (st : state) (tr : list label) (ex : tid -> option (list view))
    : tid -> option (list view) :=
    match tr with
    | [] => ex
    | l :: tr' =>
        let ex1 :=
          match l with
          | SpawnLookup k => upd ex (ntid st) (if quietb st then Some (lookup_all (R st) k) else None)
          | SpawnRegister _ => upd ex (ntid st) None
          | Step _ => if reg_step st l then (fun j => if finished st j then ex j else None) else ex
          end in
        expect (do_label st l) tr' ex1
    end.

  (* the registrations do not change along tr *)
  Fixpoint reg_free (st : state) (tr : list label) : bool :=
    match tr with
    | [] => true
    | l :: tr' => negb (reg_step st l) && reg_free (do_label st l) tr'
    end.

  (* adapter queries a lookup thread has still to make in its current pass *)
  Fixpoint leading (c : list instr) : list slot :=
    match c with Query s :: r => s :: leading r | _ => [] end.
  Definition pending (k : key) (c : list instr) : list slot :=
    match c with QueryAll :: _ => slots_of k | _ => leading c end.

  (* ---- nested schedules: what deterministic pre-emption can realise ---- *)
  Inductive op :=
  | OLookup (id : N) (k : key) (inj : list (nat * list op))   (* injection point -> operations run there *)
  | ORegister (id : N) (ups : list update) (inj inj2 : list op).   (* operations run just before / just after Clear *)

  Definition sst := (state * list label * list N)%type.  (* state, reversed trace, reversed spawn ids *)
  Definition emit (s : sst) (l : label) : sst :=
    let '(st, tr, ids) := s in (do_label st l, l :: tr, ids).
  Definition note (s : sst) (id : N) : sst := let '(st, tr, ids) := s in (st, tr, id :: ids).
  Definition sstate (s : sst) : state := let '(st, _, _) := s in st.
  Definition strace (s : sst) : list label := let '(_, tr, _) := s in tr.

  Fixpoint find_inj (p : nat) (inj : list (nat * list op)) : list op :=
    match inj with
    | [] => []
    | (q, ops) :: r => if Nat.eqb p q then ops else find_inj p r
    end.

  Definition pt_lock := 100.      (* before registry._lock is acquired *)
  Definition pt_unlock := 101.    (* after it was released *)
  Definition pt_get := 102.       (* after the attribute was read, before cache.get *)
  Definition pt_held := 103.      (* after cache[key] = views, before the lock is released *)

  (* drive lookup thread [i] to completion, running the operations scheduled at its internal points *)
  Fixpoint drive_lookup (run : list op -> sst -> sst) (i : tid) (inj : list (nat * list op))
           (n q : nat) (after_unlock : bool) (s : sst) {struct n} : sst :=
    match n with
    | 0 => s
    | S n' =>
        match threads (sstate s) i with
        | None => s
        | Some t =>
            match cont t with
            | [] => s
            | ins :: _ =>
                let point :=
                  match ins with
                  | Query _ => Some q
                  | Lock => Some pt_lock
                  | Get => Some pt_get
                  | Unlock => Some pt_held
                  | Return => if after_unlock then Some pt_unlock else None
                  | _ => None
                  end in
                let s1 := match point with Some p => run (find_inj p inj) s | None => s end in
                drive_lookup run i inj n' (match ins with Query _ => S q | _ => q end)
                             (match ins with Unlock => true | _ => false end)
                             (emit s1 (Step i))
            end
        end
    end.

  (* drive register thread [i]: operations run just before and just after its Clear *)
  Fixpoint drive_register (run : list op -> sst -> sst) (i : tid) (inj inj2 : list op)
           (n : nat) (s : sst) {struct n} : sst :=
    match n with
    | 0 => s
    | S n' =>
        match threads (sstate s) i with
        | None => s
        | Some t =>
            match cont t with
            | [] => s
            | ins :: _ =>
                let s1 := match ins with Clear _ => run inj s | _ => s end in
                let s2 := emit s1 (Step i) in
                drive_register run i inj inj2 n' (match ins with Clear _ => run inj2 s2 | _ => s2 end)
            end
        end
    end.

  Definition lookup_fuel := 400.
  Definition register_fuel := 50.

  Fixpoint run_op (fuel : nat) (o : op) (s : sst) : sst :=
    match fuel with
    | 0 => s
    | S f =>
        let run := fun (ops : list op) (s : sst) => fold_left (fun s o => run_op f o s) ops s in
        match o with
        | OLookup id k inj =>
            drive_lookup run (ntid (sstate s)) inj lookup_fuel 0 false (emit (note s id) (SpawnLookup k))
        | ORegister id ups inj inj2 =>
            drive_register run (ntid (sstate s)) inj inj2 register_fuel (emit (note s id) (SpawnRegister ups))
        end
    end.

  Definition run_ops (fuel : nat) (ops : list op) (s : sst) : sst :=
    fold_left (fun s o => run_op fuel o s) ops s.
End Sys.

(* ---- re-initialisation of a live registry (Registry.__init__ run again, as pyramid.testing.tearDown
   does with the registry it pops) ----
   The program [init_prog] is translated from Registry.__init__.  A re-initialisation is ONE step of a
   history and is only modelled in idle states (no lookup or registration in flight): the property's
   quantifier interleaves lookups and registrations, not re-initialisations. *)
Definition reinit_step (st : state) (i : init_instr) : state :=
  match i with
  | INewLock => set_lock st None
  | IClear Swap => swap_cache st
  | IClear InPlace => set_heap st (upd (heap st) (cur st) [])
  | IResetAdapters => set_R st []
  end.
Definition reinit (IP : list init_instr) (st : state) : state := fold_left reinit_step IP st.

Definition is_clear (i : init_instr) : bool := match i with IClear _ => true | _ => false end.
Definition is_reset (i : init_instr) : bool := match i with IResetAdapters => true | _ => false end.
(* what the theorems need of the translated program: it clears the lookup cache and it drops the
   registrations, in whichever order *)
Definition init_prog_ok (IP : list init_instr) : bool := existsb is_clear IP && existsb is_reset IP.

Fixpoint idle_upto (n : nat) (st : state) : bool :=
  match n with
  | 0 => true
  | S m => match threads st m with Some t => is_nil (cont t) | None => true end && idle_upto m st
  end.
Definition idleb (st : state) : bool := idle_upto (ntid st) st.

(* a history: label traces (any interleaving of lookups and registrations) separated by re-initialisations *)
Inductive hstep := HTrace (tr : list label) | HReinit.

Section Hist.
  Variable sro : N -> list N.
  Variable km : key_mode.
  Variable LP RP : list instr.
  Variable IP : list init_instr.

  Definition do_hstep (st : state) (h : hstep) : state :=
    match h with HTrace tr => exec sro km LP RP tr st | HReinit => reinit IP st end.
  Definition hexec (hs : list hstep) (st : state) : state := fold_left do_hstep hs st.

  (* every re-initialisation of the history happens in an idle state *)
  Fixpoint reinit_idle (hs : list hstep) (st : state) : bool :=
    match hs with
    | [] => true
    | h :: r => (match h with HReinit => idleb st | HTrace _ => true end) && reinit_idle r (do_hstep st h)
    end.

  (* the declarative expectation along a history: a re-initialisation constrains nothing new and leaves
     the expectations of the (finished) lookups alone *)
  Fixpoint hexpect (st : state) (hs : list hstep) (ex : tid -> option (list view)) : tid -> option (list view) :=
    match hs with
    | [] => ex
    | h :: r => hexpect (do_hstep st h) r (match h with HTrace tr => expect sro km LP RP st tr ex | HReinit => ex end)
    end.

  (* what the wire glue runs: nested schedules and re-initialisations at top level *)
  Inductive top := TOp (o : op) | TReinit.
  (* state, reversed history, reversed spawn ids *)
  Definition tst := (state * list hstep * list N)%type.
  Definition run_top (fuel : nat) (a : tst) (t : top) : tst :=
    let '(st, hs, ids) := a in
    match t with
    | TOp o => let '(st', rtr, ids') := run_op sro km LP RP fuel o (st, [], ids) in (st', HTrace (rev rtr) :: hs, ids')
    | TReinit => (reinit IP st, HReinit :: hs, ids)
    end.
  Definition run_tops (fuel : nat) (ts : list top) (a : tst) : tst := fold_left (run_top fuel) ts a.
End Hist.

(* the claim for histories with re-initialisations: a lookup that starts when no registration is in
   progress ... returns lookup_all of the registrations in force -- none, right after a re-initialisation *)
Definition hist_fresh_claim (km : key_mode) (LP RP : list instr) (IP : list init_instr) : Prop :=
  forall sro R0 hs k tr2,
    reinit_idle sro km LP RP IP hs (init R0) = true ->
    let st1 := hexec sro km LP RP IP hs (init R0) in
    let st2 := exec sro km LP RP (SpawnLookup k :: tr2) st1 in
    quietb st1 = true ->
    reg_free sro km LP RP st1 (SpawnLookup k :: tr2) = true ->
    exists t, threads st2 (ntid st1) = Some t /\ tkind t = KLookup /\ tkey t = k /\
              (cont t = [] -> tres t = Some (lookup_all sro (R st1) k)).

(* ---- which request type a dispatch looks views up with (Router.handle_request) ----
   The only state of a REQUEST OBJECT the lookup key depends on is its attribute request_iface: the class
   attribute of pyramid.request.Request (IRequest) until handle_request stores into the instance.  The two
   stores of handle_request are regenerated facts: the unconditional reset to IRequest at the top
   ([router_resets_iface]) and the assignment of the matched route's request interface
   ([router_sets_route_iface]).  [prev]: the instance attribute left by an earlier dispatch of the same
   request object (None = never dispatched); [m]: the request interface of the route that matches now. *)
Definition i_request : N := 1.
Definition dispatch_iface (reset setroute : bool) (prev : option N) (m : option N) : N :=
  let a := if reset then Some i_request else prev in
  let b := match m with Some r => if setroute then Some r else a | None => a end in
  match b with Some i => i | None => i_request end.
(* the attribute after the dispatches [ms] of one request object, oldest first *)
Definition dispatch_chain (reset setroute : bool) (ms : list (option N)) : option N :=
  fold_left (fun prev m => Some (dispatch_iface reset setroute prev m)) ms None.
(* the request type of the lookup made by the LAST dispatch of the chain *)
Definition dispatch_last (reset setroute : bool) (ms : list (option N)) : N :=
  match dispatch_chain reset setroute ms with Some i => i | None => i_request end.
(* what a brand-new request object dispatched to the same URL is looked up with *)
Definition fresh_iface (m : option N) : N := match m with Some r => r | None => i_request end.
(* request.invoke_exception_view looks exception views up with request_iface.combined: the combined interface
   of the route (id 3 for the route interface 2 of the harness's world); IRequest.combined is IRequest *)
Definition combined_iface (i : N) : N := if N.eqb i 2 then 3%N else i.
Definition lookup_iface (cl rq : N) : N :=
  if N.eqb cl 1 then (if excview_uses_combined then combined_iface rq else rq) else rq.

(* ---- a commit on the live registry: the view actions run one after the other, each one is the whole register
   program (registration AND clear inside the same action); when an action of the commit raises, the actions
   executed before it stay in force and the ones behind it never run.  [acts]: the update lists of the view
   actions that were executed; [first]: the thread id of the first one. *)
Fixpoint commit_trace (first : tid) (acts : list (list update)) : list label :=
  match acts with
  | [] => []
  | ups :: r => SpawnRegister ups :: Step first :: Step first :: commit_trace (S first) r
  end.
Definition commit_R (acts : list (list update)) (R0 : reg) : reg := fold_left (fun Rg ups => rapply ups Rg) acts R0.

(* the programs of the current tree, as translated by the facts extractor *)
Definition std_wb (tg : target) : list instr := [Lock; Write tg; Unlock].
Definition std_lookup (tg : target) (guard : bool) : list instr :=
  [ReadPtr; Get;
   IfMiss ([InitViews; QueryAll] ++ (if guard then [IfNonEmpty (std_wb tg)] else std_wb tg));
   Return].
Definition std_register (m : clear_mode) : list instr := [RegisterAdapter; Clear m].
(* the lookup program with another body of [if views:] -- used to state what the lock is (not) needed for *)
Definition lookup_with (wb : list instr) : list instr :=
  [ReadPtr; Get; IfMiss [InitViews; QueryAll; IfNonEmpty wb]; Return].
Definition wb_nolock : list instr := [Write Local].                          (* cache[key] = views, no lock *)
Definition wb_nolock_split : list instr := [WriteLoad Local; WriteStore Local]. (* the same as read-modify-write *)

(* ---- the property's claims, as statements about a pair of programs ---- *)

(* a lookup that starts when no registration is in progress and during which the registrations do
   not change returns lookup_all of the registrations in force, whatever happened before *)
Definition fresh_claim (km : key_mode) (LP RP : list instr) : Prop :=
  forall sro R0 tr1 k tr2,
    let st1 := exec sro km LP RP tr1 (init R0) in
    let st2 := exec sro km LP RP (SpawnLookup k :: tr2) st1 in
    quietb st1 = true ->
    reg_free sro km LP RP st1 (SpawnLookup k :: tr2) = true ->
    exists t, threads st2 (ntid st1) = Some t /\ tkind t = KLookup /\ tkey t = k /\
              (cont t = [] -> tres t = Some (lookup_all sro (R st1) k)).

(* failed lookups never grow the cache *)
Definition misses_claim (km : key_mode) (LP RP : list instr) : Prop :=
  forall sro R0 tr,
    let st := exec sro km LP RP tr (init R0) in
    (forall c k vs, dget (heap st c) k = Some vs -> vs <> []) /\
    (quietb st = true -> forall k, lookup_all sro (R st) k = [] -> dget (heap st (cur st)) (ckey km k) = None).

(* every lookup of the trace is an ordinary one (IViewClassifier) *)
Definition ordinary_only (tr : list label) : bool :=
  forallb (fun l => match l with SpawnLookup (cl, _, _, _) => N.eqb cl 0 | _ => true end) tr.

(* ---- requests: pyramid.view._call_view on top of the lookup ----
   _call_view tries the candidates returned by _find_views in order and returns the answer of the
   first one that does not raise PredicateMismatch.  What one candidate (a view, or a MultiView object
   with its current members) answers to the request at hand is an oracle table.  The fact
   [call_view_reads_only] says that _call_view only iterates over the (cached) candidate list; if the
   source mutates it, the model declines to predict (None).  Likewise [multiview_stateless]: a MultiView
   candidate keeps nothing derived from earlier requests, so its answer is a function of its members. *)
Definition answers := list (view * option view).
Fixpoint answer_of (tbl : answers) (v : view) : option view :=
  match tbl with
  | [] => None
  | (w, a) :: r => if N.eqb v w then a else answer_of r v
  end.
Fixpoint first_answer (tbl : answers) (vs : list view) : option view :=
  match vs with
  | [] => None
  | v :: r => match answer_of tbl v with Some a => Some a | None => first_answer tbl r end
  end.
(* the reference model of _call_view's control flow: the first candidate that does not raise PredicateMismatch
   answers; when every candidate raised it, the last PredicateMismatch is re-raised; no candidate: None *)
Fixpoint model_call_view (call : N -> cand_result) (vs : list N) (seen : bool) : cv_outcome :=
  match vs with
  | [] => if seen then CVRaiseMismatch else CVNone
  | v :: r => match call v with CAnswer a => CVResponse a | CMismatch => model_call_view call r true end
  end.
Definition call_of (tbl : answers) (v : view) : cand_result :=
  match answer_of tbl v with Some a => CAnswer a | None => CMismatch end.
(* who answered: nobody when _call_view returned None or raised PredicateMismatch *)
Definition outcome_view (o : cv_outcome) : option view :=
  match o with CVResponse a => Some a | _ => None end.
(* the model answers requests with the program GENERATED from _call_view on this run *)
Definition request_answer (tbl : answers) (res : option (list view)) : option (option view) :=
  if call_view_reads_only && multiview_stateless
  then option_map (fun vs => outcome_view (gen_call_view (call_of tbl) vs)) res else None.

(* ---- wire glue ---- *)
Definition get_slot (v : val) : option slot :=
  match v with
  | VL [z; a; b; c; d] =>
      olet z := get_N z in olet a := get_N a in olet b := get_N b in olet c := get_N c in olet d := get_N d in
      Some (z, a, b, c, d)
  | _ => None
  end.
Definition get_key (v : val) : option key :=
  match v with
  | VL [z; a; b; c] =>
      olet z := get_N z in olet a := get_N a in olet b := get_N b in olet c := get_N c in Some (z, a, b, c)
  | _ => None
  end.
Definition get_update (v : val) : option update :=
  match v with
  | VL [s; w] => olet s := get_slot s in olet w := get_opt get_N w in Some (s, w)
  | _ => None
  end.

Fixpoint get_op (fuel : nat) (v : val) : option op :=
  match fuel with
  | 0 => None
  | S f =>
      match v with
      | VL [VI 0%Z; id; k; VL inj] =>
          olet id := get_N id in olet k := get_key k in
          olet inj := map_opt (fun e => match e with
                                        | VL [p; VL ops] =>
                                            olet p := get_nat p in olet ops := map_opt (get_op f) ops in Some (p, ops)
                                        | _ => None
                                        end) inj in
          Some (OLookup id k inj)
      | VL [VI 1%Z; id; ups; VL inj; VL inj2] =>
          olet id := get_N id in olet ups := get_list_of get_update ups in
          olet inj := map_opt (get_op f) inj in
          olet inj2 := map_opt (get_op f) inj2 in
          Some (ORegister id ups inj inj2)
      | _ => None
      end
  end.

Fixpoint assoc_sro (tbl : list (N * list N)) (i : N) : list N :=
  match tbl with
  | [] => []
  | (j, l) :: r => if N.eqb i j then l else assoc_sro r i
  end.
Definition get_sro_entry (v : val) : option (N * list N) :=
  match v with
  | VL [i; l] => olet i := get_N i in olet l := get_list_of get_N l in Some (i, l)
  | _ => None
  end.

Definition vviews (l : list view) : val := VL (map vN l).
Definition vkey (k : key) : val := let '(z, a, b, c) := k in VL [vN z; vN a; vN b; vN c].

Fixpoint range (n : nat) : list nat := match n with 0 => [] | S m => range m ++ [m] end.

Definition put_thread (o : option thread) : val :=
  match o with
  | None => VL []
  | Some t =>
      VL [VI (match tkind t with KLookup => 0 | KRegister => 1 end)%Z;
          vopt vviews (tres t); vbool (tcrash t); vbool (is_nil (cont t)); vnat (tq t)]
  end.

(* distinct keys of a dictionary, with the binding in force *)
Fixpoint dkeys (d : dict) (seen : list key) : list key :=
  match d with
  | [] => []
  | (k, _) :: r => if existsb (key_eqb k) seen then dkeys r seen else k :: dkeys r (k :: seen)
  end.
Definition put_dict (d : dict) : val :=
  VL (map (fun k => VL [vkey k; vopt vviews (dget d k)]) (dkeys d [])).

Fixpoint op_keys (fuel : nat) (o : op) : list key :=
  match fuel with
  | 0 => []
  | S f =>
      match o with
      | OLookup _ k inj => k :: flat_map (fun e => flat_map (op_keys f) (snd e)) inj
      | ORegister _ _ inj inj2 => flat_map (op_keys f) inj ++ flat_map (op_keys f) inj2
      end
  end.

Definition get_answer_entry (v : val) : option (view * option view) :=
  match v with
  | VL [t; a] => olet t := get_N t in olet a := get_opt get_N a in Some (t, a)
  | _ => None
  end.
Definition get_answers (v : val) : option (N * answers) :=
  match v with
  | VL [id; tbl] => olet id := get_N id in olet tbl := get_list_of get_answer_entry tbl in Some (id, tbl)
  | _ => None
  end.
Fixpoint assoc_answers (l : list (N * answers)) (id : N) : option answers :=
  match l with
  | [] => None
  | (j, t) :: r => if N.eqb id j then Some t else assoc_answers r id
  end.
(* 0 = not a request; -1 = the model declines; [] = nothing answered; [v] = view v answered *)
Definition put_answer (o : option (option (option view))) : val :=
  match o with
  | None => VI 0
  | Some None => VI (-1)
  | Some (Some a) => vopt vN a
  end.

(* top-level operations of a case: a nested schedule operation (get_op), a re-initialisation of the
   registry [2; id], or a request dispatched by the Router [3; id; [classifier; context iface; name]; ms]
   where ms lists, oldest first, which route (request interface id, or nothing) matched in each dispatch
   of the SAME request object up to and including this one: the request type of the lookup is computed
   here, from the regenerated facts about Router.handle_request (classifier 1 = request.invoke_exception_view on
   that request object after its last dispatch: the combined interface) *)
Definition get_top (v : val) : option top :=
  match v with
  | VL [VI 2%Z; _] => Some TReinit
  | VL [VI 3%Z; id; VL [cl; cx; nm]; ms] =>
      olet id := get_N id in olet cl := get_N cl in olet cx := get_N cx in olet nm := get_N nm in
      olet ms := get_list_of (get_opt get_N) ms in
      Some (TOp (OLookup id (cl, lookup_iface cl (dispatch_last router_resets_iface router_sets_route_iface ms), cx, nm) []))
  | _ => olet o := get_op 12 v in Some (TOp o)
  end.
Definition top_keys (t : top) : list key := match t with TOp o => op_keys 12 o | TReinit => [] end.
Definition hlen (hs : list hstep) : nat :=
  fold_left (fun n h => match h with HTrace tr => n + length tr | HReinit => n end) hs 0.

(* case = [sro table; initial registrations; operations; answer tables of the request operations; foreign registry?]
   answer = [threads; spawn ids; final cache; expectations; final quiet; final table; trace length;
             model answers; expected answers] *)
Definition run_C15 (v : val) : val :=
  ret_or_bad (
    match v with
    | VL [tbl; r0; VL ops; ans; foreign] =>
        olet tbl := get_list_of get_sro_entry tbl in
        olet ans := get_list_of get_answers ans in
        olet foreign := get_bool foreign in
        (* a registry that is not a pyramid Registry clears its cache with the function _fix_registry installed *)
        let rprog := if foreign then register_prog_fallback else register_prog in
        olet r0 := get_list_of get_update r0 in
        olet ops := map_opt get_top ops in
        let sro := assoc_sro tbl in
        let st0 := init (rapply r0 []) in
        let '(st, rhs, rids) := run_tops sro cache_key_mode lookup_prog rprog init_prog 12 ops (st0, [], []) in
        let hs := rev rhs in
        let ex := hexpect sro cache_key_mode lookup_prog rprog init_prog st0 hs (fun _ => None) in
        let keys := dkeys (map (fun k => (k, [])) (flat_map top_keys ops)) [] in
        Some (VL [VL (map (fun i => put_thread (threads st i)) (range (ntid st)));
                  VL (map vN (rev rids));
                  put_dict (heap st (cur st));
                  VL (map (fun i => vopt vviews (ex i)) (range (ntid st)));
                  vbool (quietb st);
                  VL (map (fun k => VL [vkey k; vviews (lookup_all sro (R st) k)]) keys);
                  vnat (hlen hs);
                  VL (map (fun i => put_answer
                             (match assoc_answers ans (nth i (rev rids) 0%N), threads st i with
                              | Some tb, Some t => Some (request_answer tb (tres t))
                              | _, _ => None
                              end)) (range (ntid st)));
                  VL (map (fun i => put_answer
                             (match assoc_answers ans (nth i (rev rids) 0%N), ex i with
                              | Some tb, Some vs => Some (request_answer tb (Some vs))
                              | _, _ => None
                              end)) (range (ntid st)))])
    | _ => None
    end).

(* ---- further claims as statements about a pair of programs (used for the lock-free bodies) ---- *)
Definition no_stale_claim (km : key_mode) (LP RP : list instr) : Prop :=
  forall sro R0 tr0 i ti trm k tr2,
    let st0 := exec sro km LP RP tr0 (init R0) in
    let st1 := exec sro km LP RP (Step i :: trm) st0 in
    let st2 := exec sro km LP RP (SpawnLookup k :: tr2) st1 in
    threads st0 i = Some ti -> tkind ti = KRegister -> cont ti = RP ->
    reg_free sro km LP RP (do_label sro km LP RP st0 (Step i)) trm = true ->
    quietb st1 = true ->
    reg_free sro km LP RP st1 (SpawnLookup k :: tr2) = true ->
    exists t, threads st2 (ntid st1) = Some t /\ tkind t = KLookup /\ tkey t = k /\
              (cont t = [] -> tres t = Some (lookup_all sro (rapply (tups ti) (R st0)) k)).

Definition concurrent_claim (km : key_mode) (LP RP : list instr) : Prop :=
  forall sro R0 tr j t,
    reg_free sro km LP RP (init R0) tr = true ->
    threads (exec sro km LP RP tr (init R0)) j = Some t -> tkind t = KLookup -> cont t = [] ->
    tres t = Some (lookup_all sro R0 (tkey t)) /\
    forall n t0,
      threads (exec sro km LP RP (SpawnLookup (tkey t) :: repeat (Step 0) n) (init R0)) 0 = Some t0 ->
      cont t0 = [] -> tres t = tres t0.

Definition expect_claim (km : key_mode) (LP RP : list instr) : Prop :=
  forall sro R0 tr j vs t,
    expect sro km LP RP (init R0) tr (fun _ => None) j = Some vs ->
    threads (exec sro km LP RP tr (init R0)) j = Some t -> cont t = [] ->
    tkind t = KLookup /\ tres t = Some vs.

(* the resolution orders are a FIXED oracle of every theorem.  If the resolution order of an interface could be
   rewritten between two lookups (sro before, sro' after) without the cache being cleared, the claim would be: *)
Definition sro_change_claim (LP RP : list instr) : Prop :=
  forall sro sro' R0 tr1 k tr2,
    let st1 := exec sro KeyFull LP RP tr1 (init R0) in
    let st2 := exec sro' KeyFull LP RP (SpawnLookup k :: tr2) st1 in
    quietb st1 = true ->
    reg_free sro' KeyFull LP RP st1 (SpawnLookup k :: tr2) = true ->
    exists t, threads st2 (ntid st1) = Some t /\ tkind t = KLookup /\ tkey t = k /\
              (cont t = [] -> tres t = Some (lookup_all sro' (R st1) k)).

(* a re-initialisation INTERLEAVED with lookups (outside the property's quantifier, which interleaves lookups and
   registrations only): the init program is split into the part already executed ([pre]) and the rest ([post]);
   lookups run in between.  The claim "afterwards every lookup is fresh" would be: *)
Definition reinit_interleaved_claim (LP RP : list instr) (IP : list init_instr) : Prop :=
  forall sro R0 pre post trm k tr2,
    pre ++ post = IP ->
    let st0 := reinit pre (init R0) in
    let st1 := reinit post (exec sro KeyFull LP RP trm st0) in
    reg_free sro KeyFull LP RP st0 trm = true ->
    idleb st1 = true ->
    let st2 := exec sro KeyFull LP RP (SpawnLookup k :: tr2) st1 in
    reg_free sro KeyFull LP RP st1 (SpawnLookup k :: tr2) = true ->
    exists t, threads st2 (ntid st1) = Some t /\ tkind t = KLookup /\ tkey t = k /\
              (cont t = [] -> tres t = Some (lookup_all sro (R st1) k)).
