(* C05 -- a protected view body runs only after the security policy granted its permission.
   Executable definitions only.  Sources followed (pinned in harness/c05/pins.json):
     pyramid/viewderivers.py   secured_view, _secured_view, _authdebug_view (disabled: debug_authorization off),
                               owrapped_view, decorated_view, csrf_view (disabled: require_csrf unset),
                               http_cached_view / rendered_view / mapped_view / DefaultViewMapper (transparent for the trace),
                               wraps_view, preserve_view_attrs
     pyramid/config/views.py   add_view (register / derive_view closures), _derive_view, _apply_view_derivers,
                               add_default_view_derivers (through Model/C18), add_forbidden_view, add_notfound_view,
                               add_exception_view, add_static_view / StaticURLInfo.add, MultiView.__call__
     pyramid/config/security.py  set_security_policy, set_default_permission (phases)
     pyramid/config/__init__.py  Configurator.setup_registry (constructor arguments, default exception-response view)
     pyramid/view.py           _call_view, render_view_to_response, invoke_exception_view, AppendSlashNotFoundViewFactory
     pyramid/router.py         Router.handle_request (from the view lookup on), pyramid/tweens.py excview_tween
   Reused, never edited: Model/C03.v (registrations, register_view, MultiView, find_views, predicates) and
   Model/C18.v (the sorter, the default deriver declarations, _apply_view_derivers). *)
From Coq Require Import List NArith ZArith Bool.
Import ListNotations.
Require Import Verif.Lib.Wire Verif.Gen.Facts_C03 Verif.Model.C03.
Require Export Verif.Model.C05_base.
Require Import Verif.Gen.Facts_C05.
Require Verif.Gen.Facts_C18 Verif.Model.C18_base Verif.Model.C18.
Local Close Scope N_scope.
Local Open Scope nat_scope.

(* ------------------------------------------------------------------ *)
(* _secured_view: which permission the wrapper closes over (lines 296-313, statement by statement) *)

Record regstate := mkRS { rs_policy : bool;               (* queryUtility(ISecurityPolicy) is not None *)
                          rs_defperm : option text }.     (* queryUtility(IDefaultPermission) *)

Definition is_npr (p : text) : bool := text_eqb p no_permission_required.
Definition is_none {A} (o : option A) : bool := match o with None => true | Some _ => false end.
Definition is_some {A} (o : option A) : bool := negb (is_none o).

Definition secured_permission (st : regstate) (exception_only : bool) (perm : option text) : option text :=
  let permission := perm in
  let permission := if negb exception_only && is_none permission then rs_defperm st else permission in
  let permission := match permission with
                    | Some p => if is_npr p then None else Some p
                    | None => None
                    end in
  if negb (rs_policy st) || is_none permission then None else permission.

(* ------------------------------------------------------------------ *)
(* derived views *)

Inductive body :=
| Plain (b : behave)
| Slash (ip : option text) (b : behave).
  (* AppendSlashNotFoundViewFactory around the view derived by _derive_view WHEN THE DIRECTIVE WAS WRITTEN;
     ip = the permission its _secured_view closed over (None: not secured) *)

Record dview := mkD {
  d_reg : reg;                (* what the lookup sees: slot, tag, predicates, order, phash, secured *)
  d_perm : option text;       (* permission closed over by _secured_view; None = the deriver returned the view unchanged *)
  d_wrapper : text;           (* wrapper= ; '' = none *)
  d_deco : bool;              (* decorator= given *)
  d_body : body;
  d_csrf : bool               (* csrf_view is enabled for this view: require_csrf=True *)
}.

Inductive wrapper := WPred | WSecured (p : text) | WOWrapped (n : text) | WDeco | WCsrf.

Definition nm_predicated_view : text := [112; 114; 101; 100; 105; 99; 97; 116; 101; 100; 95; 118; 105; 101; 119]%N.
Definition nm_secured_view : text := [115; 101; 99; 117; 114; 101; 100; 95; 118; 105; 101; 119]%N.
Definition nm_owrapped_view : text := [111; 119; 114; 97; 112; 112; 101; 100; 95; 118; 105; 101; 119]%N.
Definition nm_decorated_view : text := [100; 101; 99; 111; 114; 97; 116; 101; 100; 95; 118; 105; 101; 119]%N.
Definition nm_attr_wrapped_view : text := [97; 116; 116; 114; 95; 119; 114; 97; 112; 112; 101; 100; 95; 118; 105; 101; 119]%N.
Definition nm_csrf_view : text := [99; 115; 114; 102; 95; 118; 105; 101; 119]%N.
Definition nm_http_cached_view : text := [104; 116; 116; 112; 95; 99; 97; 99; 104; 101; 100; 95; 118; 105; 101; 119]%N.
Definition nm_rendered_view : text := [114; 101; 110; 100; 101; 114; 101; 100; 95; 118; 105; 101; 119]%N.
Definition nm_mapped_view : text := [109; 97; 112; 112; 101; 100; 95; 118; 105; 101; 119]%N.
Definition nm_call_permissive : text := [95; 95; 99; 97; 108; 108; 95; 112; 101; 114; 109; 105; 115; 115; 105; 118; 101; 95; 95]%N.
Definition nm_secured_inner : text := [95; 115; 101; 99; 117; 114; 101; 100; 95; 118; 105; 101; 119]%N.   (* "_secured_view" *)

(* _apply_view_derivers over the default declarations, computed by C18's sorter: names outermost first *)
Fixpoint handler_names (h : C18_base.handler) : list text :=
  match h with C18_base.Base => [] | C18_base.Wrap n _ i => n :: handler_names i end.
Definition deriver_names : list text :=
  match C18.apply_view_derivers C18.default_derivers C18_base.Base with
  | inr h => handler_names h
  | inl _ => []
  end.

(* what each deriver contributes for this view (a deriver that returns the view unchanged contributes nothing) *)
Definition wrap_of (d : dview) (name : text) : list wrapper :=
  if text_eqb name nm_predicated_view then match r_preds (d_reg d) with [] => [] | _ => [WPred] end
  else if text_eqb name nm_secured_view then
         (if mem_text nm_secured_inner secured_wrappers
          then match d_perm d with Some p => [WSecured p] | None => [] end else [])
  else if text_eqb name nm_owrapped_view then match d_wrapper d with [] => [] | n => [WOWrapped n] end
  else if text_eqb name nm_decorated_view then (if d_deco d then [WDeco] else [])
  else if text_eqb name nm_csrf_view then (if d_csrf d then [WCsrf] else [])
  else [].
Definition wrappers (d : dview) : list wrapper := flat_map (wrap_of d) deriver_names.

(* ------------------------------------------------------------------ *)
(* one request *)

Record rq5 := mkRq5 {
  q_base : request;             (* C03's request: method, xhr, truth table of the custom predicates, view name *)
  q_ctx : ctx;                  (* the context found by traversal *)
  q_main_sro : list N;          (* (oracle) request.request_iface.__sro__ *)
  q_comb_sro : list N;          (* (oracle) request_iface.combined.__sro__ : exception-view lookups *)
  q_wrap_sro : list N;          (* (oracle) providedBy(request).__sro__ : render_view_to_response *)
  q_res_sro : list N;           (* (oracle) providedBy(context).__sro__ *)
  q_exc_sro : list (list N);    (* (oracle) providedBy(exception).__sro__ by exception kind *)
  q_csrf_ok : bool              (* the method is safe, or the request carries the token the storage policy expects *)
}.

Definition exc_index (e : exc) : nat :=
  match e with EForbidden => 0 | ENotFound => 1 | EPredMismatch => 2 | EValueError => 3 | EBoom => 4 | ECsrf => 5 end.
Definition sro_of (q : rq5) (c : ctx) : list N :=
  match c with CRes _ => q_res_sro q | CExc e => nth (exc_index e) (q_exc_sro q) [] end.

Fixpoint assocN {B} (k : N) (l : list (N * B)) : option B :=
  match l with [] => None | (k', v) :: r => if N.eqb k k' then Some v else assocN k r end.

Definition exc_classifier : N := 1%N.

Inductive final := Resp (t : N) | Propagated (e : exc) | FStuck.

Section Call.
  Variable R : registry.
  Variable D : list (N * dview).
  Variable tb : grants.
  Variable q : rq5.

  Definition behave_res (t : N) (b : behave) : res := match b with BReturn => Ret t | BRaise e => Raise e end.

  Definition run_body (b : body) (t : N) (c : ctx) : trace * res :=
    match b with
    | Plain bh => ([Body t c], behave_res t bh)
    | Slash ip bh =>
        match ip with
        | Some p => if granted tb p c then ([Permits p c true; Body t c], behave_res t bh)
                    else ([Permits p c false], Raise EForbidden)
        | None => ([Body t c], behave_res t bh)
        end
    end.

  (* the derived view, wrappers outermost first; t = the tag the view is registered under *)
  Fixpoint run_ws (lookup : text -> ctx -> trace * res) (ws : list wrapper) (d : dview) (t : N) (c : ctx)
      : trace * res :=
    match ws with
    | [] => run_body (d_body d) t c
    | WPred :: r =>
        if qualifies (q_base q) (d_reg d) then run_ws lookup r d t c else ([], Raise EPredMismatch)
    | WSecured p :: r =>
        if granted tb p c
        then let '(tr, o) := run_ws lookup r d t c in (Permits p c true :: tr, o)
        else ([Permits p c false], Raise EForbidden)
    | WDeco :: r => let '(tr, o) := run_ws lookup r d t c in (Deco t c :: tr, o)
    | WCsrf :: r =>        (* check_csrf_token(request, ..., raises=True) for unsafe methods, then the view *)
        if q_csrf_ok q then run_ws lookup r d t c else ([], Raise ECsrf)
    | WOWrapped n :: r =>
        let '(tr, o) := run_ws lookup r d t c in
        match o with
        | Ret _ => let '(tr2, o2) := lookup n c in
                   (tr ++ tr2, match o2 with NoView => Raise EValueError | _ => o2 end)
        | _ => (tr, o)
        end
    end.

  Definition call_reg (lookup : text -> ctx -> trace * res) (v : reg) (c : ctx) : trace * res :=
    match assocN (r_tag v) D with
    | Some d => run_ws lookup (wrappers d) d (r_tag v) c
    | None => ([], Stuck)
    end.

  (* MultiView.__call__ *)
  Fixpoint mv_call5 (lookup : text -> ctx -> trace * res) (l : list entry) (c : ctx) : trace * res :=
    match l with
    | [] => ([], Raise EPredMismatch)
    | e :: r =>
        let '(tr, o) := call_reg lookup (e_view e) c in
        match o with
        | Raise EPredMismatch => let '(tr2, o2) := mv_call5 lookup r c in (tr ++ tr2, o2)
        | _ => (tr, o)
        end
    end.

  Definition call_component5 (lookup : text -> ctx -> trace * res) (cmp : component) (c : ctx) : trace * res :=
    match cmp with
    | CView v => call_reg lookup v c
    | CMulti m => mv_call5 lookup (get_views m (q_base q)) c
    end.

  (* the loop of _call_view (secure=True) *)
  Fixpoint call_loop5 (lookup : text -> ctx -> trace * res) (l : list component) (c : ctx) (pme : bool)
      : trace * res :=
    match l with
    | [] => ([], if pme then Raise EPredMismatch else NoView)
    | cmp :: r =>
        let '(tr, o) := call_component5 lookup cmp c in
        match o with
        | Raise EPredMismatch => let '(tr2, o2) := call_loop5 lookup r c true in (tr ++ tr2, o2)
        | _ => (tr, o)
        end
    end.

  (* _call_view; the wrapper lookups of owrapped_view go through render_view_to_response:
     view classifier, request_iface = providedBy(request), context_iface = providedBy(context) *)
  Fixpoint call_view5 (fuel : nat) (cls : N) (req_sro : list N) (name : text) (c : ctx) : trace * res :=
    match fuel with
    | O => ([], Stuck)
    | S f => call_loop5 (fun n c' => call_view5 f view_classifier (q_wrap_sro q) n c')
                        (find_views R cls req_sro (sro_of q c) name) c false
    end.

  Definition fuel0 : nat := 6.

  (* ---- secure=False: what _call_view does with __call_permissive__ (never used by the router, see
     Proofs: router_uses_secure).  The attribute exists only on a view _secured_view wrapped and names the view
     BELOW that wrapper: everything above it -- the predicates too -- is skipped by the callable itself; the repaired
     _call_view therefore evaluates __predicated__ first (regenerated fact permissive_checks_predicates). *)
  Fixpoint below_secured (ws : list wrapper) : option (list wrapper) :=
    match ws with
    | [] => None
    | WSecured _ :: r => Some r
    | _ :: r => below_secured r
    end.

  Definition call_reg_permissive (lookup : text -> ctx -> trace * res) (v : reg) (c : ctx) : trace * res :=
    match assocN (r_tag v) D with
    | Some d => match below_secured (wrappers d) with
                | Some ws => run_ws lookup ws d (r_tag v) c
                | None => run_ws lookup (wrappers d) d (r_tag v) c
                end
    | None => ([], Stuck)
    end.

  (* MultiView.match: the first view without __predicated__ or whose predicates hold *)
  Fixpoint mv_match (l : list entry) : option reg :=
    match l with
    | [] => None
    | e :: r => if qualifies (q_base q) (e_view e) then Some (e_view e) else mv_match r
    end.

  (* MultiView.__call_permissive__ *)
  Definition mv_call_permissive (lookup : text -> ctx -> trace * res) (l : list entry) (c : ctx) : trace * res :=
    match mv_match l with
    | Some v => call_reg_permissive lookup v c
    | None => ([], Raise EPredMismatch)
    end.

  Definition call_component_s (secure : bool) (lookup : text -> ctx -> trace * res) (cmp : component) (c : ctx)
      : trace * res :=
    if secure then call_component5 lookup cmp c
    else match cmp with
         | CView v =>
             (* permissive = getattr(view, '__call_permissive__', None); if present, __predicated__ is evaluated first *)
             match assocN (r_tag v) D with
             | Some d =>
                 if permissive_checks_predicates && is_some (d_perm d) && negb (qualifies (q_base q) (d_reg d))
                 then ([], Raise EPredMismatch)
                 else call_reg_permissive lookup v c
             | None => call_reg_permissive lookup v c
             end
         | CMulti m => mv_call_permissive lookup (get_views m (q_base q)) c      (* a MultiView has no __predicated__ *)
         end.

  Fixpoint call_loop_s (secure : bool) (lookup : text -> ctx -> trace * res) (l : list component) (c : ctx)
      (pme : bool) : trace * res :=
    match l with
    | [] => ([], if pme then Raise EPredMismatch else NoView)
    | cmp :: r =>
        let '(tr, o) := call_component_s secure lookup cmp c in
        match o with
        | Raise EPredMismatch => let '(tr2, o2) := call_loop_s secure lookup r c true in (tr ++ tr2, o2)
        | _ => (tr, o)
        end
    end.

  (* _call_view(..., secure=secure); the wrapper lookups inside a view stay secure (render_view_to_response default) *)
  Definition call_view_s (secure : bool) (fuel : nat) (cls : N) (req_sro : list N) (name : text) (c : ctx)
      : trace * res :=
    match fuel with
    | O => ([], Stuck)
    | S f => call_loop_s secure (fun n c' => call_view5 f view_classifier (q_wrap_sro q) n c')
                         (find_views R cls req_sro (sro_of q c) name) c false
    end.

  (* pyramid.view.render_view_to_response(context, request, name, secure) *)
  Definition render_view (secure : bool) : trace * res :=
    call_view_s secure fuel0 view_classifier (q_wrap_sro q) (q_view_name (q_base q)) (q_ctx q).

  (* __permitted__ of a derived view (present only when secured) and MultiView.__permitted__ *)
  Definition permitted_reg (v : reg) (c : ctx) : trace * bool :=
    match assocN (r_tag v) D with
    | Some d => match d_perm d with
                | Some p => ([Permits p c (granted tb p c)], granted tb p c)
                | None => ([], true)
                end
    | None => ([], true)
    end.
  Definition mv_permitted (l : list entry) (c : ctx) : option (trace * bool) :=
    match mv_match l with Some v => Some (permitted_reg v c) | None => None end.

  (* Router.handle_request, from the view lookup on *)
  Definition handle_request : trace * res :=
    let '(tr, o) := call_view5 fuel0 view_classifier (q_main_sro q) (q_view_name (q_base q)) (q_ctx q) in
    (tr, match o with NoView => Raise ENotFound | _ => o end).

  (* excview_tween / _error_handler / invoke_exception_view(secure=True) *)
  Definition router_call : trace * final :=
    let '(tr, o) := handle_request in
    match o with
    | Ret t => (tr, Resp t)
    | Raise e =>
        let '(tr2, o2) := call_view5 fuel0 exc_classifier (q_comb_sro q) [] (CExc e) in
        (tr ++ Raised e :: tr2,
         match o2 with
         | Ret t => Resp t
         | NoView => Propagated e                    (* HTTPNotFound from invoke_exception_view: the original is re-raised *)
         | Raise ENotFound => Propagated e           (* except HTTPNotFound: the original is re-raised *)
         | Raise EPredMismatch => Propagated e
         | Raise e2 => Propagated e2
         | Stuck => FStuck
         end)
    | NoView => (tr, FStuck)
    | Stuck => (tr, FStuck)
    end.
End Call.

(* ------------------------------------------------------------------ *)
(* interpretation of the parameters of the REGENERATED definitions (Gen/Facts_C05.v, harness/c05/translate.py):
   what the table's leaves stand for in this model *)
(* getattr(view_callable, '__call_permissive__', None): present on a secured single view and on every MultiView *)
Definition pc_of (D : list (N * dview)) (cmp : component) : option component :=
  match cmp with
  | CView v => match assocN (r_tag v) D with
               | Some d => if is_some (d_perm d) then Some cmp else None
               | None => None
               end
  | CMulti _ => Some cmp
  end.
(* getattr(view_callable, '__predicated__', None): present on a single view that has predicates *)
Definition pr_of (D : list (N * dview)) (cmp : component) : option dview :=
  match cmp with
  | CView v => match assocN (r_tag v) D with
               | Some d => match r_preds (d_reg d) with [] => None | _ => Some d end
               | None => None
               end
  | CMulti _ => None
  end.
Definition run_pr (q : rq5) (d : dview) : bool := qualifies (q_base q) (d_reg d).
(* calling the permissive callable *)
Definition call_pc (D : list (N * dview)) (tb : grants) (q : rq5) (lookup : text -> ctx -> trace * res) (c : ctx)
    (cmp : component) : comp :=
  match cmp with
  | CView v => call_reg_permissive D tb q lookup v c
  | CMulti m => mv_call_permissive D tb q lookup (get_views m (q_base q)) c
  end.
(* the harness's tween under the exception-view tween: logs what the main handler raised *)
Definition with_raise_logger (c : comp) : comp := m_try c (fun e => ([Raised e], Raise e)).
(* what the WSGI caller sees *)
Definition finalize (x : comp) : trace * final :=
  (fst x, match snd x with Ret t => Resp t | Raise e => Propagated e | _ => FStuck end).

(* the whole request path, assembled from the REGENERATED pieces exactly as the code assembles them:
   Router.invoke_request( excview_tween( <harness logger>( handle_request: _call_view ) ),
                          _error_handler -> invoke_exception_view(exc_info) -> _call_view(exception view) );
   keyword defaults (secure, reraise) are read from the signatures.  Proofs/C05_gen.v: gen_router = router_call. *)
Section GenRouter.
  Variable R : registry.
  Variable D : list (N * dview).
  Variable tb : grants.
  Variable q : rq5.

  Definition lookup5 : text -> ctx -> trace * res :=
    fun n c' => call_view5 R D tb q (Nat.pred fuel0) view_classifier (q_wrap_sro q) n c'.

  Definition gen_call_view_at (secure : bool) (cls : N) (req_sro : list N) (name : text) (c : ctx) : comp :=
    gen_call_view (fun cmp => call_component5 D tb q lookup5 cmp c) (pc_of D) (pr_of D) (run_pr q)
                  (call_pc D tb q lookup5 c)
                  (fun _ => gen_find_views R req_sro (sro_of q c) name None (Some cls))
                  secure (Some 0%N) 0%N.

  Definition gen_router : trace * final :=
    finalize
      (gen_invoke_request
         (gen_excview_tween
            (with_raise_logger
               (gen_handle_request_view
                  (gen_call_view_at gen_default_secure_call_view view_classifier (q_main_sro q)
                                    (q_view_name (q_base q)) (q_ctx q))))
            (fun e =>
               gen_error_handler
                 (fun ei =>
                    gen_invoke_exception_view
                      (fun ex sec => gen_call_view_at sec exc_classifier (q_comb_sro q) [] (CExc ex))
                      ei gen_default_secure_invoke_exception_view gen_default_reraise_invoke_exception_view)
                 e))).
End GenRouter.

(* executable comparison of the regenerated program with the reference model on one input (they are PROVED equal in
   Proofs/C05_gen.v; when that proof no longer goes through the run still says on which inputs they differ) *)
Fixpoint trace_eqb (a b : trace) : bool :=
  match a, b with
  | [], [] => true
  | x :: a', y :: b' => event_eqb x y && trace_eqb a' b'
  | _, _ => false
  end.
Definition final_eqb (a b : final) : bool :=
  match a, b with
  | Resp x, Resp y => N.eqb x y
  | Propagated x, Propagated y => exc_eqb x y
  | FStuck, FStuck => true
  | _, _ => false
  end.
Definition res_eqb (a b : res) : bool :=
  match a, b with
  | Ret x, Ret y => N.eqb x y
  | Raise x, Raise y => exc_eqb x y
  | NoView, NoView | Stuck, Stuck => true
  | _, _ => false
  end.

(* ------------------------------------------------------------------ *)
(* configuration *)

Record vopts := mkVO {
  o_tag : N;
  o_req : N;                 (* IRequest or the route's request interface *)
  o_ctx : N;                 (* context= / Interface *)
  o_name : text;
  o_kw : kwargs;             (* predicate arguments *)
  o_perm : option text;      (* permission= *)
  o_isexc : bool;            (* (oracle) isexception(context) *)
  o_exc_only : bool;
  o_wrapper : text;
  o_deco : bool;
  o_behave : behave;
  o_csrf : bool;             (* require_csrf=True *)
  o_vd_perm : option text    (* getattr(view, '__view_defaults__', {}).get('permission') when the view is a class: the
                                @view_defaults of the class itself or of a base class (oracle: computed with getattr) *)
}.

Inductive stmt :=
| SPolicy (truthy via_ctor : bool)               (* set_security_policy(p) / Configurator(security_policy=p); bool(p) *)
| SDefPerm (p : text) (truthy via_ctor : bool)   (* set_default_permission(p) / Configurator(default_permission=p) *)
| SRoute                                         (* add_route: no effect on this model (interfaces are oracle ids) *)
| SView (o : vopts)
| SForbidden (o : vopts)
| SNotFound (o : vopts) (append_slash : bool)
| SExcView (o : vopts)
| SStatic (o : vopts).

Inductive action := APolicy | ADefPerm (p : text) | AView (o : vopts) (b : body).

Definition force (f : bool * option text) (o : vopts) : vopts :=
  mkVO (o_tag o) (o_req o) (o_ctx o) (o_name o) (o_kw o) (snd f) (o_isexc o) (fst f) (o_wrapper o) (o_deco o)
       (o_behave o) (forced_require_csrf && o_csrf o) (o_vd_perm o).
Definition with_perm (p : option text) (o : vopts) : vopts :=
  mkVO (o_tag o) (o_req o) (o_ctx o) (o_name o) (o_kw o) p (o_isexc o) (o_exc_only o) (o_wrapper o) (o_deco o)
       (o_behave o) (o_csrf o) (o_vd_perm o).

(* the @viewdefaults decorator around add_view: defaults = getattr(view, '__view_defaults__', {}).copy();
   defaults.update(kw) -- a permission= argument wins, otherwise the class's (possibly inherited) default applies *)
Definition viewdefaults (o : vopts) : vopts :=
  with_perm (match o_perm o with Some p => Some p | None => o_vd_perm o end) o.

(* what the directive does when it is written; st = the registry state at that moment *)
Definition directive (st : regstate) (s : stmt) : option action :=
  match s with
  | SPolicy truthy via_ctor =>
      if via_ctor && negb (ctor_policy_is_none_test || truthy) then None else Some APolicy
  | SDefPerm p truthy via_ctor =>
      if via_ctor && negb (ctor_defperm_is_none_test || truthy) then None else Some (ADefPerm p)
  | SRoute => None
  | SView o => Some (AView (viewdefaults o) (Plain (o_behave o)))
  | SForbidden o => Some (AView (force forced_forbidden o) (Plain (o_behave o)))
  | SNotFound o false => Some (AView (force forced_notfound o) (Plain (o_behave o)))
  | SNotFound o true =>
      Some (AView (force forced_notfound o) (Slash (secured_permission st false slash_inner_permission) (o_behave o)))
  | SExcView o => Some (AView (force forced_excview o) (Plain (o_behave o)))
  | SStatic o =>
      Some (AView (with_perm (Some (match o_perm o with None => static_none_default | Some p => p end)) o)
                  (Plain (o_behave o)))
  end.

Definition action_order (a : action) : Z :=
  match a with APolicy => order_policy | ADefPerm _ => order_defperm | AView _ _ => order_view end.
Definition action_leb (a b : action) : bool := Z.leb (action_order a) (action_order b).

Record cstate := mkCS { cs_rs : regstate; cs_R : registry; cs_D : list (N * dview) }.

Definition rtag (t : N) (exc_only : bool) : N := (2 * t + (if exc_only then 1 else 0))%N.

(* accept= of add_view: next to being a predicate argument (AcceptPredicate, part of the phash) the normalised offer is handed
   to register_view / MultiView.add, which files the view under media_views[offer]; offers here carry no parameters *)
Definition accept_of (o : vopts) : option offer :=
  match assoc nm_accept (o_kw o) with
  | Some [(false, VText t)] => Some (mkOffer t t false)
  | _ => None
  end.

(* add_view.derive_view -> _derive_view -> _apply_view_derivers *)
Definition derive1 (st : regstate) (cls : N) (exc_only : bool) (o : vopts) (b : body) : option dview :=
  match make pred_names (o_kw o) with
  | None => None
  | Some m =>
      let perm := secured_permission st exc_only (o_perm o) in
      Some (mkD (mkReg (mkSlot cls (o_req o) (o_ctx o) (o_name o)) (rtag (o_tag o) exc_only)
                       (m_preds m) (m_order m) (m_phash m) (accept_of o)
                       (is_some perm && mem_text nm_call_permissive preserved_attrs))
                perm (o_wrapper o) (o_deco o) b (o_csrf o))
  end.

Definition reg1 (s : cstate) (d : dview) : cstate :=
  mkCS (cs_rs s) (register_view accept_order_default (cs_R s) (d_reg d)) ((r_tag (d_reg d), d) :: cs_D s).

(* the register closure of add_view *)
Definition exec_view (s : cstate) (o : vopts) (b : body) : cstate :=
  let s1 := if negb (o_exc_only o)
            then match derive1 (cs_rs s) view_classifier false o b with Some d => reg1 s d | None => s end
            else s in
  if o_isexc o
  then match derive1 (cs_rs s) exc_classifier true o b with Some d => reg1 s1 d | None => s1 end
  else s1.

Definition exec_action (s : cstate) (a : action) : cstate :=
  match a with
  | APolicy => mkCS (mkRS true (rs_defperm (cs_rs s))) (cs_R s) (cs_D s)
  | ADefPerm p => mkCS (mkRS (rs_policy (cs_rs s)) (Some p)) (cs_R s) (cs_D s)
  | AView o b => exec_view s o b
  end.

Fixpoint somes5 {A} (l : list (option A)) : list A :=
  match l with [] => [] | Some x :: r => x :: somes5 r | None :: r => somes5 r end.

(* Configurator.commit: the pending actions run in (order, position) order *)
Definition batch_actions (s : cstate) (batch : list stmt) : list action :=
  isort action_leb (somes5 (map (directive (cs_rs s)) batch)).
Definition commit (s : cstate) (batch : list stmt) : cstate :=
  fold_left exec_action (batch_actions s batch) s.

(* Configurator.__init__: the default exception-response view for IExceptionResponse and
   WebobWSGIHTTPException, committed before any user statement (no policy, no default permission) *)
Definition builtin_tag : N := 4500%N.
Definition builtin_opts (t irequest ictx : N) : vopts :=
  mkVO t irequest ictx [] [] None true false [] false BReturn false None.
Definition init_state (irequest ier iwsgi : N) : cstate :=
  fold_left exec_action
            [AView (builtin_opts builtin_tag irequest ier) (Plain BReturn);
             AView (builtin_opts (builtin_tag + 1)%N irequest iwsgi) (Plain BReturn)]
            (mkCS (mkRS false None) reg_empty []).

Definition configure (irequest ier iwsgi : N) (batches : list (list stmt)) : cstate :=
  fold_left commit batches (init_state irequest ier iwsgi).

Definition run_request (s : cstate) (tb : grants) (q : rq5) : trace * final :=
  router_call (cs_R s) (cs_D s) tb q.
Definition run_render (s : cstate) (tb : grants) (secure : bool) (q : rq5) : trace * res :=
  render_view (cs_R s) (cs_D s) tb q secure.

(* ------------------------------------------------------------------ *)
(* declarative specification: the property's wording, over the program as written *)

Definition is_policy_stmt (s : stmt) : bool := match s with SPolicy _ _ => true | _ => false end.
Definition policy_declared (prog : list stmt) : bool := existsb is_policy_stmt prog.
Fixpoint declared_defperm (prog : list stmt) : option text :=
  match prog with
  | [] => None
  | SDefPerm p _ _ :: _ => Some p
  | _ :: r => declared_defperm r
  end.

Definition stmt_opts (s : stmt) : option vopts :=
  match s with
  | SView o | SForbidden o | SNotFound o _ | SExcView o | SStatic o => Some o
  | _ => None
  end.
Fixpoint find_stmt (prog : list stmt) (t : N) : option stmt :=
  match prog with
  | [] => None
  | s :: r => match stmt_opts s with
              | Some o => if N.eqb (o_tag o) t then Some s else find_stmt r t
              | None => find_stmt r t
              end
  end.

Definition strip_npr (o : option text) : option text :=
  match o with Some p => if is_npr p then None else Some p | None => None end.

(* "its explicit permission, otherwise the default permission unless it is an exception view; the
   no-permission-required marker meaning none".  as_exc: the view is being used as an exception view *)
Definition spec_eff (prog : list stmt) (s : stmt) (as_exc : bool) : option text :=
  match s with
  | SView o => match o_perm (viewdefaults o) with            (* explicit: the argument, else the class's @view_defaults *)
               | Some p => strip_npr (Some p)
               | None => if o_exc_only o || as_exc then None else strip_npr (declared_defperm prog)
               end
  | SStatic o => strip_npr (o_perm o)              (* documented default of add_static_view: no permission required *)
  | SForbidden _ | SNotFound _ _ | SExcView _ => None
  | _ => None
  end.

(* at observation level the variant is recognised from the context: a view registered for an exception
   context and called with an exception is the exception-view variant *)
Definition as_exc_of (s : stmt) (c : ctx) : bool :=
  match stmt_opts s with Some o => o_isexc o && is_exc_ctx c | None => false end.

Definition protected (prog : list stmt) (t : N) (c : ctx) : option text :=
  if policy_declared prog
  then match find_stmt prog t with Some s => spec_eff prog s (as_exc_of s c) | None => None end
  else None.

Definition stmt_behave (prog : list stmt) (t : N) : behave :=
  match find_stmt prog t with
  | Some s => match stmt_opts s with Some o => o_behave o | None => BReturn end
  | None => BReturn
  end.

(* some statement is protected by p when called with c *)
Definition some_protected (prog : list stmt) (p : text) (c : ctx) : bool :=
  existsb (fun s => match stmt_opts s with
                    | Some o => match protected prog (o_tag o) c with Some p' => text_eqb p p' | None => false end
                    | None => false end) prog.

(* J1 mediation: a protected view's decorator / body only after Permits p c true, in this request *)
Fixpoint j1 (prog : list stmt) (seen tr : trace) : bool :=
  match tr with
  | [] => true
  | e :: r =>
      (match e with
       | Body t c | Deco t c =>
           match protected prog t c with
           | Some p => existsb (event_eqb (Permits p c true)) seen
           | None => true
           end
       | _ => true
       end) && j1 prog (e :: seen) r
  end.

(* J2 refusal: Permits p c false is followed at once by the 403 handling (the exception-view tween sees
   HTTPForbidden).  0 = ok, 4 = the refusal happened while an exception view was being rendered and
   HTTPForbidden left the application instead (specification boundary / finding), 2 = anything else.
   pending: the previous event was a refusal; inexc: a Raised event was seen (exception rendering) *)
Fixpoint j2 (fin : final) (pending inexc : bool) (tr : trace) : N :=
  match tr with
  | [] => if pending
          then match fin with
               | Propagated EForbidden => if inexc then 4%N else 2%N
               | _ => 2%N
               end
          else 0%N
  | e :: r =>
      if pending
      then match e with Raised EForbidden => j2 fin false true r | _ => 2%N end
      else match e with
           | Permits _ _ false => j2 fin true inexc r
           | Raised _ => j2 fin false true r
           | _ => j2 fin false inexc r
           end
  end.

(* J3 a granted check is made on behalf of the view that runs next, and that view is protected by exactly
   this permission for this context; the only thing that may come between the check and the view is the view's own
   CSRF check failing (BadCSRFToken) *)
Fixpoint j3 (prog : list stmt) (fin : final) (tr : trace) : bool :=
  match tr with
  | [] => true
  | Permits p c true :: r =>
      (match r with
       | Body t c' :: _ | Deco t c' :: _ =>
           ctx_eqb c c' && match protected prog t c with Some p' => text_eqb p p' | None => false end
       | Raised ECsrf :: _ => true          (* the CSRF check of that view (csrf_view sits under secured_view) refused *)
       | [] => match fin with Propagated ECsrf => true | _ => false end
       | _ => false
       end) && j3 prog fin r
  | _ :: r => j3 prog fin r
  end.

(* J4 never blocked otherwise: HTTPForbidden reaches the tween only after a refusal or from application code *)
Definition forbid_source (prog : list stmt) (prev : option event) : bool :=
  match prev with
  | Some (Permits _ _ false) => true
  | Some (Body t _) => match stmt_behave prog t with BRaise EForbidden => true | _ => false end
  | _ => false
  end.
Fixpoint j4 (prog : list stmt) (fin : final) (prev : option event) (orig : bool) (tr : trace) : bool :=
  match tr with
  | [] => match fin with
          | Propagated EForbidden => forbid_source prog prev || orig   (* orig: the HTTPForbidden of the main handler re-raised *)
          | _ => true
          end
  | Raised EForbidden :: r => forbid_source prog prev && j4 prog fin (Some (Raised EForbidden)) true r
  | e :: r => j4 prog fin (Some e) orig r
  end.

(* J5 the policy is only ever asked about a permission that protects some view for that context *)
Fixpoint j5 (prog : list stmt) (tr : trace) : bool :=
  match tr with
  | [] => true
  | Permits p c _ :: r => some_protected prog p c && j5 prog r
  | _ :: r => j5 prog r
  end.

(* J6 the configuration in force: a view statement that a LATER commit overrides (same request interface, context, name,
   predicates and variants -- the same discriminator) is no longer part of the configuration, so its callable never runs;
   whatever permission the overriding statement declares protects the slot from then on *)
Definition slot_key_eqb (a b : vopts) : bool :=
  N.eqb (o_req a) (o_req b) && N.eqb (o_ctx a) (o_ctx b) && text_eqb (o_name a) (o_name b)
  && Bool.eqb (o_exc_only a) (o_exc_only b) && Bool.eqb (o_isexc a) (o_isexc b)
  && match make pred_names (o_kw a), make pred_names (o_kw b) with
     | Some x, Some y => text_eqb (m_phash x) (m_phash y)
     | _, _ => false
     end.
Definition norm_opts (s : stmt) : option vopts :=
  match directive (mkRS false None) s with Some (AView o _) => Some o | _ => None end.
Definition overrides (s' s : stmt) : bool :=
  match norm_opts s', norm_opts s with Some a, Some b => slot_key_eqb a b | _, _ => false end.
Fixpoint overridden_tags (bs : list (list stmt)) : list N :=
  match bs with
  | [] => []
  | b :: later =>
      flat_map (fun s => match stmt_opts s with
                         | Some o => if existsb (fun s' => overrides s' s) (concat later) then [o_tag o] else []
                         | None => [] end) b
      ++ overridden_tags later
  end.
Fixpoint j6 (ov : list N) (tr : trace) : bool :=
  match tr with
  | [] => true
  | Body t _ :: r | Deco t _ :: r => negb (memN t ov) && j6 ov r
  | _ :: r => j6 ov r
  end.

(* observation level: events name the statement (tag of the registration div 2) *)
Definition stag (rt : N) : N := if N.leb (2 * builtin_tag) rt then builtin_tag else N.div rt 2.

(* J7 the view that serves the request is a most specific qualifying one: C03's declarative specification [spec_winners]
   (earlier request interface, earlier context interface, same slot with more predicates; a later registration of the same
   slot and predicates replaces the earlier one) evaluated on the registrations of the configuration.  A stale lookup that
   keeps serving a less specific OPEN view where the configuration now holds a more specific PROTECTED one fails here. *)
Definition main_request (q : rq5) : request :=
  let b := q_base q in
  mkReq (q_method b) (q_params b) (q_headers b) (q_xhr b) (q_matchdict b) (q_auth b) (q_upath b) (q_lineage b)
        (q_has_name b) (q_regex b) (q_accept_q b) (q_truth b) (q_main_sro q) (q_res_sro q) (q_view_name b).
Definition all_regs (D : list (N * dview)) : list reg := rev (map (fun kd => d_reg (snd kd)) D).   (* registration order *)
Definition has_accept (v : reg) : bool := match r_accept v with Some _ => true | None => false end.
(* with accept= registrations in the configuration the code tries an acceptable media view before the views without accept=
   (C03's open finding C03-accept-first): the most-specific clause is then not applied (every registration is a winner) *)
Definition winner_tags (D : list (N * dview)) (q : rq5) : list N :=
  if existsb has_accept (all_regs D) then map (fun v => stag (r_tag v)) (all_regs D)
  else map (fun v => stag (r_tag v)) (spec_winners view_classifier (all_regs D) (main_request q)).
Fixpoint first_body (tr : trace) : option N :=          (* the callable (or its decorator) that ran first in the main phase *)
  match tr with
  | [] => None
  | Body t _ :: _ | Deco t _ :: _ => Some t
  | Raised _ :: _ => None
  | _ :: r => first_body r
  end.
Definition j7 (winners : list N) (tr : trace) : bool :=
  match first_body tr with Some t => memN t winners | None => true end.

(* bit mask of the failed clauses: 1 mediation, 2 refusal, 4 refusal inside exception rendering,
   8 granted check not on behalf of the next view, 16 blocked without refusal, 32 stray check,
   128 the callable of an overridden statement ran, 256 the view that ran first is not a most specific qualifying one.
   ov = overridden_tags of the commits, winners = winner_tags of the configuration for this request *)
Definition judge (prog : list stmt) (ov winners : list N) (tr : trace) (fin : final) : N :=
  ((if j1 prog [] tr then 0 else 1) + j2 fin false false tr + (if j3 prog fin tr then 0 else 8)
   + (if j4 prog fin None false tr then 0 else 16) + (if j5 prog tr then 0 else 32)
   + (if j6 ov tr then 0 else 128) + (if j7 winners tr then 0 else 256))%N.

(* observation level: events name the statement (tag of the registration div 2) *)
Definition proj_event (e : event) : list event :=
  match e with
  | Body rt c => if N.leb (2 * builtin_tag) rt then [] else [Body (stag rt) c]
  | Deco rt c => [Deco (stag rt) c]
  | e => [e]
  end.
Definition proj_trace (tr : trace) : trace := flat_map proj_event tr.
Definition proj_final (f : final) : final := match f with Resp rt => Resp (stag rt) | f => f end.

(* the assumption under which the observation-level judge recognises the variant that ran from the context
   (exception-context views are unnamed, so their normal variant is never reached): checked on every model trace *)
Definition variant_ev (prog : list stmt) (e : event) : bool :=
  match e with
  | Body rt c | Deco rt c =>
      if N.leb (2 * builtin_tag) rt then true
      else match find_stmt prog (N.div rt 2) with
           | Some s => Bool.eqb (as_exc_of s c) (N.odd rt)
           | None => true
           end
  | _ => true
  end.
Definition variant_okb (prog : list stmt) (tr : trace) : bool := forallb (variant_ev prog) tr.

(* ------------------------------------------------------------------ *)
(* wire glue *)

Definition get_exc (v : val) : option exc :=
  match v with
  | VI 0%Z => Some EForbidden | VI 1%Z => Some ENotFound | VI 2%Z => Some EPredMismatch
  | VI 3%Z => Some EValueError | VI 4%Z => Some EBoom | VI 5%Z => Some ECsrf | _ => None
  end.
Definition put_exc (e : exc) : val := vnat (exc_index e).
Definition get_ctx (v : val) : option ctx :=
  match v with
  | VL [VI 0%Z; VI n] => Some (CRes (Z.to_N n))
  | VL [VI 1%Z; k] => olet e := get_exc k in Some (CExc e)
  | _ => None
  end.
Definition put_ctx (c : ctx) : val :=
  match c with CRes n => VL [VI 0; vN n] | CExc e => VL [VI 1; put_exc e] end.
Definition get_behave (v : val) : option behave :=
  match v with
  | VI 0%Z => Some BReturn | VI 1%Z => Some (BRaise EForbidden) | VI 2%Z => Some (BRaise ENotFound)
  | VI 3%Z => Some (BRaise EBoom) | _ => None
  end.
Definition get_vopts (v : val) : option vopts :=
  match v with
  | VL [tg; rq; cx; VT nm; kw; pm; ie; eo; VT wr; dc; bh; cs; vd] =>
      olet tg := get_N tg in olet rq := get_N rq in olet cx := get_N cx in olet kw := get_kw kw in
      olet pm := get_opt get_text pm in olet ie := get_bool ie in olet eo := get_bool eo in
      olet dc := get_bool dc in olet bh := get_behave bh in olet cs := get_bool cs in
      olet vd := get_opt get_text vd in
      Some (mkVO tg rq cx nm kw pm ie eo wr dc bh cs vd)
  | _ => None
  end.
Definition get_stmt (v : val) : option stmt :=
  match v with
  | VL [VI 0%Z; t; c] => olet t := get_bool t in olet c := get_bool c in Some (SPolicy t c)
  | VL [VI 1%Z; VT p; t; c] => olet t := get_bool t in olet c := get_bool c in Some (SDefPerm p t c)
  | VL [VI 2%Z] => Some SRoute
  | VL [VI 3%Z; o] => olet o := get_vopts o in Some (SView o)
  | VL [VI 4%Z; o] => olet o := get_vopts o in Some (SForbidden o)
  | VL [VI 5%Z; o; a] => olet o := get_vopts o in olet a := get_bool a in Some (SNotFound o a)
  | VL [VI 6%Z; o] => olet o := get_vopts o in Some (SExcView o)
  | VL [VI 7%Z; o] => olet o := get_vopts o in Some (SStatic o)
  | _ => None
  end.
Definition get_grant (v : val) : option (text * ctx) :=
  match v with VL [VT p; c] => olet c := get_ctx c in Some (p, c) | _ => None end.
Definition get_rq5 (v : val) : option rq5 :=
  match v with
  | VL [VT meth; xhr; truth; VT vn; c; msro; csro; wsro; rsro; esro; cok; aq] =>
      olet xhr := get_bool xhr in olet truth := get_Ns truth in olet c := get_ctx c in
      olet msro := get_Ns msro in olet csro := get_Ns csro in olet wsro := get_Ns wsro in
      olet rsro := get_Ns rsro in olet esro := get_list_of get_Ns esro in olet cok := get_bool cok in
      olet aq := get_list_of (fun e => match e with VL [VT o; qv] => olet qv := get_N qv in Some (o, qv) | _ => None end) aq in
      (* aq: (oracle, WebOb) quality*1000 of each offer of the configuration under the request's Accept header *)
      Some (mkRq5 (mkReq meth [] [] xhr None false [] [] false [] aq truth [] [] vn) c msro csro wsro rsro esro cok)
  | _ => None
  end.

Definition put_event (e : event) : val :=
  match e with
  | Permits p c b => VL [VI 0; VT p; put_ctx c; vbool b]
  | Deco t c => VL [VI 1; vN t; put_ctx c]
  | Body t c => VL [VI 2; vN t; put_ctx c]
  | Raised e => VL [VI 3; put_exc e]
  end.
Definition get_event (v : val) : option event :=
  match v with
  | VL [VI 0%Z; VT p; c; b] => olet c := get_ctx c in olet b := get_bool b in Some (Permits p c b)
  | VL [VI 1%Z; t; c] => olet t := get_N t in olet c := get_ctx c in Some (Deco t c)
  | VL [VI 2%Z; t; c] => olet t := get_N t in olet c := get_ctx c in Some (Body t c)
  | VL [VI 3%Z; e] => olet e := get_exc e in Some (Raised e)
  | _ => None
  end.
Definition put_final (f : final) : val :=
  match f with Resp t => VL [VI 0; vN t] | Propagated e => VL [VI 1; put_exc e] | FStuck => VL [VI 2] end.
Definition get_final (v : val) : option final :=
  match v with
  | VL [VI 0%Z; t] => olet t := get_N t in Some (Resp t)
  | VL [VI 1%Z; e] => olet e := get_exc e in Some (Propagated e)
  | VL [VI 2%Z] => Some FStuck
  | _ => None
  end.

Definition put_res (r : res) : val :=
  match r with Ret t => VL [VI 0; vN (stag t)] | Raise e => VL [VI 1; put_exc e] | NoView => VL [VI 3] | Stuck => VL [VI 2] end.
(* a request is [rq5 fields...] (through the router) or [VI 9; secure; rq5] (render_view_to_response called directly) *)
Inductive op5 := OpRouter (q : rq5) | OpRender (secure : bool) (q : rq5).
Definition get_op5 (v : val) : option op5 :=
  match v with
  | VL [VI 9%Z; sec; r] => olet sec := get_bool sec in olet r := get_rq5 r in Some (OpRender sec r)
  | _ => olet r := get_rq5 v in Some (OpRouter r)
  end.

Definition put_operm (o : option text) : val := vopt VT o.

(* what the model says each registered variant is protected by, next to the property's answer:
   [tag; variant; model d_perm; spec protected for a resource context; for an exception context] *)
Definition put_dtab (prog : list stmt) (D : list (N * dview)) : val :=
  VL (map (fun kd => let rt := fst kd in
                     VL [vN (stag rt); vN (N.modulo rt 2); put_operm (d_perm (snd kd));
                         put_operm (protected prog (stag rt) (CRes 0%N));
                         put_operm (protected prog (stag rt) (CExc EBoom))]) D).

(* case   = [0; irequest; ier; iwsgi; batches; grants; requests]
   answer = [dtab; [[projected trace; projected final; judge mask of that observation; variant_okb;
             regenerated program = reference model on this input] per request]]
   judge  = [1; irequest; ier; iwsgi; batches; [[request; trace; final] per request]]  ->  [mask per request]  (run on the implementation's log) *)
Definition run_C05 (v : val) : val :=
  ret_or_bad (
    match v with
    | VL [VI 0%Z; irq; ier; iwsgi; bs; gs; rqs] =>
        olet irq := get_N irq in olet ier := get_N ier in olet iwsgi := get_N iwsgi in
        olet bs := get_list_of (get_list_of get_stmt) bs in
        olet gs := get_list_of get_grant gs in
        olet rqs := get_list_of get_op5 rqs in
        let prog := concat bs in
        let s := configure irq ier iwsgi bs in
        Some (VL [put_dtab prog (cs_D s);
                  VL (map (fun op =>
                             match op with
                             | OpRouter q =>
                                 let '(tr, fin) := run_request s gs q in                    (* the reference model *)
                                 let '(gtr, gfin) := gen_router (cs_R s) (cs_D s) gs q in   (* the regenerated request path *)
                                 let tr' := proj_trace tr in
                                 let fin' := proj_final fin in
                                 VL [VL (map put_event tr'); put_final fin'; vN (judge prog (overridden_tags bs) (winner_tags (cs_D s) q) tr' fin');
                                     vbool (variant_okb prog tr); vbool (trace_eqb gtr tr && final_eqb gfin fin)]
                             | OpRender sec q =>            (* outside the property: correspondence only *)
                                 let '(tr, o) := run_render s gs sec q in
                                 let '(gtr, go) := gen_call_view_at (cs_R s) (cs_D s) gs q sec view_classifier (q_wrap_sro q)
                                                                    (q_view_name (q_base q)) (q_ctx q) in
                                 VL [VL (map put_event (proj_trace tr)); put_res o; vN 0%N; vbool true;
                                     vbool (trace_eqb gtr tr && res_eqb go o)]
                             end) rqs)])
    | VL [VI 1%Z; irq; ier; iwsgi; bs; obs] =>
        olet irq := get_N irq in olet ier := get_N ier in olet iwsgi := get_N iwsgi in
        olet bs := get_list_of (get_list_of get_stmt) bs in
        olet obs := get_list_of (fun o => match o with
                                          | VL [rq; tr; fin] => olet rq := get_rq5 rq in
                                                                olet tr := get_list_of get_event tr in
                                                                olet fin := get_final fin in Some (rq, tr, fin)
                                          | _ => None end) obs in
        let s := configure irq ier iwsgi bs in
        let prog := concat bs in
        Some (VL (map (fun x => let '(rq, tr, fin) := x in
                                vN (judge prog (overridden_tags bs) (winner_tags (cs_D s) rq) tr fin)) obs))
    | _ => None
    end).
