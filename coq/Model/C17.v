(* C17 -- URL generation: src/pyramid/url.py (URLMethodsMixin, parse_url_overrides,
   _join_elements), encode.py (url_quote, quote_plus, urlencode),
   traversal.py (quote_path_segment, _join_path_tuple, ResourceURL without a
   virtual root), urldispatch._compile_route (the [gen] half: [generate]),
   config/views.py StaticURLInfo.generate (route based registrations), and
   webob's Request.host_url/application_url.  Also the reference decoder
   (urllib.parse.urlsplit / parse_qsl / unquote) and the declarative spec.
   Executable definitions only. *)
From Coq Require Import List NArith ZArith Bool.
Import ListNotations.
Require Import Verif.Lib.Wire Verif.Lib.Text Verif.Lib.Utf8 Verif.Lib.Percent Verif.Lib.PathNorm Verif.Gen.Facts_C17.
Open Scope N_scope.

(* ------------------------------------------------------------------ results *)
Inductive res (A : Type) := Ok (a : A) | Err (e : N).
Arguments Ok {A} a.
Arguments Err {A} e.
Definition EKey : N := 1.    (* KeyError: no such route / placeholder without a value *)
Definition EEnc : N := 2.    (* UnicodeEncodeError: lone surrogate in a str *)
Definition EDec : N := 3.    (* UnicodeDecodeError: bytes that are not UTF-8 *)
Definition EVal : N := 4.    (* ValueError *)

Definition rbind {A B} (r : res A) (f : A -> res B) : res B :=
  match r with Ok a => f a | Err e => Err e end.
Notation "'rlet' x ':=' e 'in' k" := (rbind e (fun x => k))
  (at level 200, x pattern, e at level 100, k at level 200, right associativity).

Fixpoint mapM {A B} (f : A -> res B) (l : list A) : res (list B) :=
  match l with
  | [] => Ok []
  | x :: r => rlet y := f x in rlet ys := mapM f r in Ok (y :: ys)
  end.

(* ------------------------------------------------------------------ values *)
(* a Python value in a position where str / bytes / "anything else" behave
   differently; the only "anything else" modelled is int *)
Inductive pval :=
| PStr (t : text) | PBytes (b : text) | PInt (z : Z)
| PNum (key : Z) (shown : text).   (* True / 1.0 ...: equal to the int [key] as a dict key, str() is [shown] *)

Fixpoint digits (fuel : nat) (n : N) (acc : text) : text :=
  match fuel with
  | O => acc
  | S f => let acc' := (48 + n mod 10) :: acc in
           if n <? 10 then acc' else digits f (n / 10) acc'
  end.
Definition show_N (n : N) : text := digits (S (N.to_nat (N.log2 n))) n [].
Definition show_Z (z : Z) : text :=
  match z with Z0 => [48] | Zpos p => show_N (Npos p) | Zneg p => 45 :: show_N (Npos p) end.

(* bool(v) *)
Definition truthy (v : pval) : bool :=
  match v with PStr [] | PBytes [] | PInt Z0 | PNum Z0 _ => false | _ => true end.

(* str.encode('utf-8') *)
Definition utf8_enc (t : text) : res text :=
  if forallb valid_scalar t then Ok (encode t) else Err EEnc.
(* bytes.decode('utf-8') *)
Definition utf8_dec (b : text) : res text :=
  match decode b with Some t => Ok t | None => Err EDec end.

(* encode.url_quote / quote_plus: str -> utf-8, bytes as is, other -> str().encode *)
Definition to_bytes (v : pval) : res text :=
  match v with PStr t => utf8_enc t | PBytes b => Ok b | PInt z => Ok (show_Z z) | PNum _ s => utf8_enc s end.
Definition url_quote (safe : text) (v : pval) : res text :=
  rlet b := to_bytes v in Ok (quote safe b).
Definition plus_for_space (c : N) : N := if c =? 32 then 43 else c.
Definition quote_plus_bytes (safe : text) (b : text) : text :=
  map plus_for_space (quote (safe ++ [32]) b).
Definition quote_plus (v : pval) : res text :=
  rlet b := to_bytes v in Ok (quote_plus_bytes quote_plus_default_safe b).
Definition quote_via (v : pval) : res text :=
  if urlencode_quote_via_is_quote_plus then quote_plus v else url_quote [] v.

(* traversal.quote_path_segment (the cache is transparent: keys are (str|bytes, safe)) *)
Definition text_of (v : pval) : res text :=
  match v with PStr t => Ok t | PBytes b => utf8_dec b | PInt z => Ok (show_Z z) | PNum _ s => Ok s end.
Definition quote_path_segment (safe : text) (v : pval) : res text :=
  rlet t := text_of v in rlet b := utf8_enc t in Ok (quote safe b).

(* url._join_elements *)
Definition join_elements (els : list pval) : res text :=
  rlet qs := mapM (quote_path_segment join_elements_safe) els in Ok (join elements_sep qs).

(* functools.lru_cache on _join_elements: the key is the tuple of elements, compared with == *)
Definition py_eq (a b : pval) : bool :=
  match a, b with
  | PStr x, PStr y => text_eqb x y
  | PBytes x, PBytes y => text_eqb x y
  | PInt x, PInt y | PInt x, PNum y _ | PNum x _, PInt y | PNum x _, PNum y _ => Z.eqb x y
  | _, _ => false
  end.
Fixpoint py_eq_list (a b : list pval) : bool :=
  match a, b with
  | [], [] => true
  | x :: a', y :: b' => py_eq x y && py_eq_list a' b'
  | _, _ => false
  end.
Definition jcache := list (list pval * text).
Fixpoint cache_find (c : jcache) (els : list pval) : option text :=
  match c with
  | [] => None
  | (k, r) :: c' => if py_eq_list els k then Some r else cache_find c' els
  end.
(* _join_elements as called: through the cache unless the key is the stringified tuple *)
Definition join_elements_c (c : jcache) (els : list pval) : res text :=
  if join_elements_key_stringified then join_elements els
  else match cache_find c els with Some r => Ok r | None => join_elements els end.
(* the cache after earlier calls (an exception stores nothing) *)
Definition warm_step (c : jcache) (els : list pval) : jcache :=
  match cache_find c els with
  | Some _ => c
  | None => match join_elements els with Ok r => c ++ [(els, r)] | Err _ => c end
  end.
Definition warm_cache (w : list (list pval)) : jcache := fold_left warm_step w [].

(* traversal._join_path_tuple *)
Definition join_path_tuple (names : list pval) : res text :=
  rlet qs := mapM (quote_path_segment path_tuple_safe) names in
  let s := join [47] qs in
  Ok (match names, s with [], _ => [47] | _, [] => [47] | _, _ => s end).

(* ------------------------------------------------------------------ urldispatch._compile_route: gen *)
Record pattern := mkPat {
  p_prefix : text;                       (* literal before the first placeholder *)
  p_holes : list (text * text);          (* placeholder name, literal that follows it *)
  p_star : option text                   (* name after a trailing '*' *)
}.
Inductive tpart := TLit (s : text) | TSlot (n : text).

Definition double_pct (s : text) : text := flat_map (fun c => if c =? 37 then [37; 37] else [c]) s.
(* what '%' formatting does to a literal stretch: '%%' -> '%'; a lone '%' is a format error *)
Fixpoint undouble_pct (s : text) : option text :=
  match s with
  | [] => Some []
  | c :: r =>
      if c =? 37 then
        match r with
        | d :: r2 => if d =? 37 then option_map (cons 37) (undouble_pct r2) else None
        | [] => None
        end
      else option_map (cons c) (undouble_pct r)
  end.

Definition lit_part (safe : text) (s : text) : res tpart :=
  rlet q := quote_path_segment safe (PStr s) in Ok (TLit (double_pct q)).

Definition star_slot (p : pattern) : option text :=
  match p_star p with Some (c :: r) => Some (c :: r) | _ => None end.   (* [if remainder:] *)

Definition gen_template (p : pattern) : res (list tpart) :=
  rlet pre := lit_part compile_prefix_safe (p_prefix p) in
  rlet hs := mapM (fun h : text * text =>
                     match snd h with
                     | [] => Ok [TSlot (fst h)]
                     | s => rlet l := lit_part compile_literal_safe s in Ok [TSlot (fst h); l]
                     end) (p_holes p) in
  Ok (pre :: concat hs ++ match star_slot p with Some r => [TSlot r] | None => [] end).

(* a keyword value: a scalar, or a list/tuple (with its str() for the non-star case) *)
Inductive kwval := KScalar (v : pval) | KSeq (l : list pval) (shown : text).

Definition q_value : pval -> res text := quote_path_segment compile_value_safe.

Definition gen_value (is_star : bool) (v : kwval) : res text :=
  match v with
  | KScalar (PBytes b) => rlet t := utf8_dec b in q_value (PStr t)
  | KScalar v => q_value v
  | KSeq l shown =>
      if is_star then rlet qs := mapM q_value l in Ok (join [47] qs)
      else q_value (PStr shown)
  end.

Definition is_star_key (p : pattern) (k : text) : bool :=
  match p_star p with Some r => text_eqb k r | None => false end.

Fixpoint assoc {A} (k : text) (d : list (text * A)) : option A :=
  match d with [] => None | (k', v) :: r => if text_eqb k k' then Some v else assoc k r end.
(* dict[k] = v : replace in place or append *)
Fixpoint dset {A} (k : text) (v : A) (d : list (text * A)) : list (text * A) :=
  match d with
  | [] => [(k, v)]
  | (k', v') :: r => if text_eqb k k' then (k', v) :: r else (k', v') :: dset k v r
  end.
Definition dupdate {A} (d e : list (text * A)) : list (text * A) :=
  fold_left (fun acc kv => dset (fst kv) (snd kv) acc) e d.

Definition build_newdict (p : pattern) (kw : list (text * kwval)) : res (list (text * text)) :=
  mapM (fun kv : text * kwval =>
          rlet q := gen_value (is_star_key p (fst kv)) (snd kv) in Ok (fst kv, q)) kw.

Definition format_part (d : list (text * text)) (t : tpart) : res text :=
  match t with
  | TLit s => match undouble_pct s with Some r => Ok r | None => Err EVal end
  | TSlot n => match assoc n d with Some v => Ok v | None => Err EKey end
  end.

(* route.generate(kw) *)
Definition generate (p : pattern) (kw : list (text * kwval)) : res text :=
  rlet tpl := gen_template p in
  rlet d := build_newdict p kw in
  rlet parts := mapM (format_part d) tpl in
  Ok (concat parts).

(* ------------------------------------------------------------------ environment, overrides *)
Record env := mkEnv {
  e_scheme : text;              (* wsgi.url_scheme *)
  e_http_host : option text;    (* HTTP_HOST *)
  e_server_name : text;
  e_server_port : text;
  e_script : text               (* request.script_name (decoded, Unicode) *)
}.

Inductive qval := QVNone | QVScalar (v : pval) | QVSeq (l : list pval).
Inductive query := QStr (t : text) | QPairs (l : list (pval * qval)).

Record overrides := mkOv {
  o_app_url : option text;
  o_scheme : option text;
  o_host : option text;
  o_port : option text;         (* str(port) *)
  o_query : option query;       (* None: keyword absent *)
  o_anchor : option pval
}.

Definition has_colon (s : text) : bool := memN 58 s.
(* split at the first occurrence of c *)
Fixpoint cut (c : N) (s : text) : text * option text :=
  match s with
  | [] => ([], None)
  | x :: r => if x =? c then ([], Some r)
              else let '(a, b) := cut c r in (x :: a, b)
  end.
Definition before (c : N) (s : text) : text := fst (cut c s).
Definition after (c : N) (s : text) : text := match snd (cut c s) with Some r => r | None => [] end.

Fixpoint lookup (tbl : list (text * text)) (k : text) : option text :=
  match tbl with [] => None | (k', v) :: r => if text_eqb k k' then Some v else lookup r k end.

Definition quoted_script_name (e : env) : res text :=
  rlet b := utf8_enc (e_script e) in url_quote script_name_safe (PBytes b).

Definition elide (tbl : list (text * text)) (scheme : text) (port : option text) : option text :=
  match lookup tbl scheme, port with
  | Some d, Some p => if text_eqb p d then None else Some p
  | _, _ => port
  end.

Definition with_port (url : text) (port : option text) : text :=
  match port with Some (c :: r) => url ++ port_sep ++ (c :: r) | _ => url end.

(* URLMethodsMixin._partial_application_url without the script name *)
Definition partial_host_url (e : env) (scheme host port : option text) : text :=
  let '(scheme, port) :=
    match scheme with
    | None => (e_scheme e, port)
    | Some s => (s, match port with None => lookup implied_ports s | Some p => Some p end)
    end in
  let host := match host with
              | Some h => h
              | None => match e_http_host e with Some h => h | None => e_server_name e end
              end in
  let '(host, port) :=
    match port with
    | None => if has_colon host then (before 58 host, Some (after 58 host))
              else (host, Some (e_server_port e))
    | Some p => (if has_colon host then before 58 host else host, Some p)
    end in
  let port := elide elided_ports scheme port in
  with_port (scheme ++ scheme_sep ++ host) port.

(* host.rsplit(':', 1) *)
Definition rcut (c : N) (s : text) : text * text :=
  let '(a, b) := cut c (rev s) in
  match b with Some r => (rev r, rev a) | None => (s, []) end.

(* webob Request.host_url (third party; modelled, validated by the run) *)
Definition webob_host_url (e : env) : text :=
  let scheme := e_scheme e in
  let '(host, port) :=
    match e_http_host e with
    | Some h => if has_colon h && negb (N.eqb (last h 0) 93)
                then let '(a, b) := rcut 58 h in (a, Some b) else (h, None)
    | None => (e_server_name e, Some (e_server_port e))
    end in
  let port := elide [([104; 116; 116; 112; 115], [52; 52; 51]); ([104; 116; 116; 112], [56; 48])] scheme port in
  with_port (scheme ++ [58; 47; 47] ++ host) port.

Definition host_part (e : env) (o : overrides) : text :=
  match o_scheme o, o_host o, o_port o with
  | None, None, None => webob_host_url e
  | s, h, p => partial_host_url e s h p
  end.

(* encode.urlencode: the (result, prefix) loop *)
Definition emit (st : text * text) (k x : text) : text * text :=
  (fst st ++ snd st ++ k ++ kv_sep ++ x, pair_sep).

Fixpoint emit_seq (st : text * text) (k : text) (l : list pval) : res (text * text) :=
  match l with
  | [] => Ok st
  | x :: r => rlet qx := quote_via x in emit_seq (emit st k qx) k r
  end.

Definition urlencode_step (st : text * text) (kv : pval * qval) : res (text * text) :=
  rlet k := quote_via (fst kv) in
  rlet st' :=
    match snd kv with
    | QVSeq l => emit_seq st k l
    | QVScalar (PBytes b) => emit_seq st k (map (fun c => PInt (Z.of_N c)) b)   (* bytes has __iter__ *)
    | QVNone => Ok (emit st k [])
    | QVScalar v => rlet qv := quote_via v in Ok (emit st k qv)
    end in
  Ok (fst st', pair_sep).

Fixpoint urlencode_loop (st : text * text) (l : list (pval * qval)) : res (text * text) :=
  match l with
  | [] => Ok st
  | kv :: r => rlet st' := urlencode_step st kv in urlencode_loop st' r
  end.

Definition urlencode (l : list (pval * qval)) : res text :=
  rlet st := urlencode_loop ([], []) l in Ok (fst st).

Definition query_truthy (q : query) : bool :=
  match q with QStr [] => false | QPairs [] => false | _ => true end.

Definition query_string (q : option query) : res text :=
  match q with
  | None => Ok []
  | Some q =>
      if query_truthy q then
        match q with
        | QStr t => rlet s := url_quote query_str_safe (PStr t) in Ok (qs_prefix ++ s)
        | QPairs l => rlet s := urlencode l in Ok (qs_prefix ++ s)
        end
      else Ok []
  end.

Definition fragment (a : option pval) : res text :=
  match a with
  | None => Ok []
  | Some v => if truthy v then rlet s := url_quote anchor_quote_safe v in Ok (frag_prefix ++ s) else Ok []
  end.

(* url.parse_url_overrides *)
Definition parse_url_overrides (e : env) (o : overrides) : res (text * text * text) :=
  rlet app := match o_app_url o with
              | Some a => Ok a
              | None => rlet s := quoted_script_name e in Ok (host_part e o ++ s)
              end in
  rlet qs := query_string (o_query o) in
  rlet fr := fragment (o_anchor o) in
  Ok (app, qs, fr).

Fixpoint endswith_char (c : N) (s : text) : bool :=
  match s with [] => false | [x] => x =? c | _ :: r => endswith_char c r end.

(* URLMethodsMixin.route_url (no pregenerator) *)
Definition route_url (c : jcache) (e : env) (routes : list (text * pattern)) (name : text)
           (els : list pval) (o : overrides) (kw : list (text * kwval)) : res text :=
  match assoc name routes with
  | None => Err EKey
  | Some p =>
      rlet aqf := parse_url_overrides e o in
      let '(app, qs, fr) := aqf in
      rlet path := generate p kw in
      rlet suffix := match els with
                     | [] => Ok []
                     | _ => rlet s := join_elements_c c els in
                            Ok (if endswith_char 47 path then s else 47 :: s)
                     end in
      Ok (app ++ path ++ suffix ++ qs ++ fr)
  end.

Definition set_app_url (o : overrides) (a : text) : overrides :=
  mkOv (Some a) (o_scheme o) (o_host o) (o_port o) (o_query o) (o_anchor o).

(* what the *_path helpers put into _app_url: the quoted script name, or (before
   the repair) the raw one; which one is a regenerated fact per helper *)
Definition path_app_url (quoted : bool) (e : env) : res text :=
  if quoted then quoted_script_name e else Ok (e_script e).

Definition route_path c e routes name els o kw : res text :=
  rlet a := path_app_url route_path_script_quoted e in
  route_url c e routes name els (set_app_url o a) kw.

(* URLMethodsMixin.resource_url: default ResourceURL adapter, no virtual root,
   no __resource_url__, no route_name *)
Definition virtual_path (names : list pval) : res text :=
  (* _resource_path_list: [loc.__name__ or ''] *)
  let names := map (fun n => if truthy n then n else PStr []) names in
  rlet p := join_path_tuple (PStr [] :: names) in
  Ok (match names with [] => p | _ => p ++ [47] end).

Definition resource_url (c : jcache) (e : env) (names els : list pval) (o : overrides) : res text :=
  rlet vp := virtual_path names in
  rlet aqf := parse_url_overrides e o in
  let '(app, qs, fr) := aqf in
  rlet suffix := match els with [] => Ok [] | _ => join_elements_c c els end in
  Ok (app ++ vp ++ suffix ++ qs ++ fr).

Definition resource_path c e names els o : res text :=
  rlet a := path_app_url resource_path_script_quoted e in
  resource_url c e names els (set_app_url o a).

(* traversal.ResourceURL with a virtual root (X-Vhm-Root header, WSGI latin-1 text) and
   resource_url(..., route_name=, route_remainder_name=, route_kw=) *)
Fixpoint tuple_eq (a : list pval) (b : list text) : bool :=
  match a, b with
  | [], [] => true
  | PStr x :: a', y :: b' => text_eqb x y && tuple_eq a' b'
  | _, _ => false
  end.

(* -> (virtual_path, virtual_path_tuple) *)
Definition resource_adapter (names : list pval) (vroot : option text) : res (text * list pval) :=
  let names := map (fun n => if truthy n then n else PStr []) names in
  let ppt := match names with [] => [PStr []] | _ => PStr [] :: names ++ [PStr []] end in
  rlet p := join_path_tuple (PStr [] :: names) in
  let pp := match names with [] => p | _ => p ++ [47] end in
  match vroot with
  | None => Ok (pp, ppt)
  | Some v =>
      rlet t := utf8_dec v in                      (* decode_path_info *)
      let vt := split_path_info t in
      let n := length vt in
      if negb (Nat.eqb n 0) && tuple_eq (firstn n (tl ppt)) vt then
        let vpt := PStr [] :: skipn (S n) ppt in
        rlet vp := join_path_tuple vpt in Ok (vp, vpt)
      else Ok (pp, ppt)
  end.

Definition resource_url_x (c : jcache) (e : env) (routes : list (text * pattern)) (names els : list pval)
           (o : overrides) (vroot : option text)
           (rn : option (text * text * option (list (text * kwval)))) : res text :=
  rlet a := resource_adapter names vroot in
  let '(vp, vpt) := a in
  match rn with
  | Some (route_name, rem_name, route_kw) =>
      let kw := dupdate [(rem_name, KSeq vpt [])] (match route_kw with Some k => k | None => [] end) in
      route_url c e routes route_name els o kw
  | None =>
      rlet aqf := parse_url_overrides e o in
      let '(app, qs, fr) := aqf in
      rlet suffix := match els with [] => Ok [] | _ => join_elements_c c els end in
      Ok (app ++ vp ++ suffix ++ qs ++ fr)
  end.

Definition resource_path_x c e routes names els o vroot rn : res text :=
  rlet a := path_app_url resource_path_script_quoted e in
  resource_url_x c e routes names els (set_app_url o a) vroot rn.

(* StaticURLInfo.generate, registrations that are routes (url is None) *)
Fixpoint find_reg (regs : list (text * text)) (path : text) : option (text * text) :=
  match regs with
  | [] => None
  | (spec, rname) :: r =>
      match strip_prefix spec path with
      | Some sub => Some (sub, rname)
      | None => find_reg r path
      end
  end.

Definition static_url e routes (regs : list (text * text)) (path : text) o kw : res text :=
  match find_reg regs path with
  | None => Err EVal
  | Some (sub, rname) => route_url [] e routes rname [] o (dset static_subpath_key (KScalar (PStr sub)) kw)
  end.

Definition static_path e routes regs path o kw : res text :=
  rlet a := path_app_url static_path_script_quoted e in
  static_url e routes regs path (set_app_url o a) kw.

(* URLMethodsMixin.current_route_url *)
Definition set_query (o : overrides) (q : query) : overrides :=
  mkOv (o_app_url o) (o_scheme o) (o_host o) (o_port o) (Some q) (o_anchor o).

Definition current_route_url c e routes (rname matched : option text) (matchdict : list (text * kwval))
           (get : list (pval * qval)) els o kw : res text :=
  match (match rname with Some n => Some n | None => matched end) with
  | None => Err EVal
  | Some name =>
      let o' := match o_query o with Some _ => o | None => set_query o (QPairs get) end in
      route_url c e routes name els o' (dupdate matchdict kw)
  end.

Definition current_route_path c e routes rname matched matchdict get els o kw : res text :=
  rlet a := path_app_url current_route_path_script_quoted e in
  current_route_url c e routes rname matched matchdict get els (set_app_url o a) kw.

(* ------------------------------------------------------------------ routes registered with a full URL as pattern
   (config/routes.py add_route, `if parsed.hostname:`): the route's pattern is the URL's path, and a pregenerator
   puts  <_scheme | the pattern's scheme | the request's scheme>://<netloc of the pattern>  into _app_url; an
   _app_url supplied by the caller -- hence every *_path form -- is refused with ValueError *)
Definition extinfo := list (text * (option text * text)).       (* route name -> (scheme of the pattern, netloc) *)
Definition ext_app_url (e : env) (o : overrides) (x : option text * text) : text :=
  (match o_scheme o with
   | Some s => s
   | None => match fst x with Some s => s | None => e_scheme e end
   end) ++ [58; 47; 47] ++ snd x.
Definition route_url_x (c : jcache) (e : env) (xs : extinfo) (routes : list (text * pattern)) (name : text)
           (els : list pval) (o : overrides) (kw : list (text * kwval)) : res text :=
  match assoc name routes, assoc name xs with
  | Some _, Some x =>
      match o_app_url o with
      | Some _ => Err EVal
      | None => route_url c e routes name els (set_app_url o (ext_app_url e o x)) kw
      end
  | _, _ => route_url c e routes name els o kw
  end.
Definition route_path_x c e xs routes name els o kw : res text :=
  rlet a := path_app_url route_path_script_quoted e in
  route_url_x c e xs routes name els (set_app_url o a) kw.
Definition current_route_url_x c e xs routes (rname matched : option text) (matchdict : list (text * kwval))
           (get : list (pval * qval)) els o kw : res text :=
  match (match rname with Some n => Some n | None => matched end) with
  | None => Err EVal
  | Some name =>
      let o' := match o_query o with Some _ => o | None => set_query o (QPairs get) end in
      route_url_x c e xs routes name els o' (dupdate matchdict kw)
  end.
Definition current_route_path_x c e xs routes rname matched matchdict get els o kw : res text :=
  rlet a := path_app_url current_route_path_script_quoted e in
  current_route_url_x c e xs routes rname matched matchdict get els (set_app_url o a) kw.

(* ------------------------------------------------------------------ vocabulary of the translator
   (harness/c17/translate.py, PRIMITIVE TABLE): the definitions regenerated from the source into
   Gen/Code_C17.v consist of control flow over the functions above and these projections *)
Definition onone {A} (o : option A) : bool := match o with None => true | Some _ => false end.
Definition oget (o : option text) : text := match o with Some t => t | None => [] end.
Definition otruthy (o : option text) : bool := match o with Some (_ :: _) => true | _ => false end.
Definition ttruthy (t : text) : bool := match t with [] => false | _ => true end.
Definition is_str (v : pval) : bool := match v with PStr _ => true | _ => false end.
Definition is_bytes (v : pval) : bool := match v with PBytes _ => true | _ => false end.
Definition str_text (v : pval) : text := match v with PStr t => t | _ => [] end.
Definition bytes_of (v : pval) : text := match v with PBytes b => b | _ => [] end.
(* str(v) of a value that is neither str nor bytes *)
Definition pstr (v : pval) : text := match v with PInt z => show_Z z | PNum _ s => s | _ => [] end.
Definition qv_iter (v : qval) : bool := match v with QVSeq _ | QVScalar (PBytes _) => true | _ => false end.
Definition qv_items (v : qval) : list pval :=
  match v with QVSeq l => l | QVScalar (PBytes b) => map (fun c => PInt (Z.of_N c)) b | _ => [] end.
Definition qv_none (v : qval) : bool := match v with QVNone => true | _ => false end.
Definition qv_scalar (v : qval) : pval := match v with QVScalar x => x | _ => PStr [] end.
Definition ov_query (o : overrides) : query := match o_query o with Some q => q | None => QStr [] end.
Definition ov_anchor (o : overrides) : pval := match o_anchor o with Some v => v | None => PStr [] end.
Definition q_is_str (q : query) : bool := match q with QStr _ => true | QPairs _ => false end.
Definition q_text (q : query) : text := match q with QStr t => t | QPairs _ => [] end.
Definition q_pairs (q : query) : list (pval * qval) := match q with QPairs l => l | QStr _ => [] end.
Definition partial_application_url (e : env) (s h p : option text) : res text :=
  rlet sn := quoted_script_name e in Ok (partial_host_url e s h p ++ sn).
Definition application_url (e : env) : res text :=
  rlet sn := quoted_script_name e in Ok (webob_host_url e ++ sn).

(* ------------------------------------------------------------------ one request object over its life
   The environment of a request changes while it is handled (path_info_pop into a mounted application, an
   assignment to script_name, a rewritten Host) and URLs are generated in between.  Whether URL generation keeps
   anything on the request is a regenerated fact; [memo] is what a memoising request would have kept from its
   first use. *)
Definition memo_after (hist : list env) : option (res text) :=
  match hist with [] => None | e0 :: _ => Some (quoted_script_name e0) end.
Definition quoted_script_name_h (hist : list env) (e : env) : res text :=
  if url_helpers_keep_no_request_state then quoted_script_name e
  else match memo_after hist with Some r => r | None => quoted_script_name e end.
(* what a request that froze its first answer would say *)
Definition quoted_script_name_frozen (hist : list env) (e : env) : res text :=
  match memo_after hist with Some r => r | None => quoted_script_name e end.

(* ------------------------------------------------------------------ reference decoder (urllib.parse) *)
Fixpoint lstrip_c0 (s : text) : text :=
  match s with x :: r => if x <=? 32 then lstrip_c0 r else s | [] => [] end.
Definition drop_unsafe (s : text) : text :=
  filter (fun c => negb ((c =? 9) || (c =? 10) || (c =? 13))) s.
Definition is_alpha (c : N) : bool := ((65 <=? c) && (c <=? 90)) || ((97 <=? c) && (c <=? 122)).
Definition is_digit (c : N) : bool := (48 <=? c) && (c <=? 57).
Definition scheme_char (c : N) : bool := is_alpha c || is_digit c || (c =? 43) || (c =? 45) || (c =? 46).
Definition lower (c : N) : N := if (65 <=? c) && (c <=? 90) then c + 32 else c.

(* url[:delim], url[delim:] for the first of '/', '?', '#' *)
Fixpoint split_netloc (s : text) : text * text :=
  match s with
  | [] => ([], [])
  | x :: r => if (x =? 47) || (x =? 63) || (x =? 35) then ([], s)
              else let '(a, b) := split_netloc r in (x :: a, b)
  end.

Definition nonempty (s : text) : bool := match s with [] => false | _ => true end.
Record split := mkSplit { u_scheme : text; u_netloc : text; u_path : text; u_query : text; u_fragment : text }.

(* the part of urlsplit after scheme and netloc: fragment first, then query *)
Definition cut_ref (s : text) : text * text * text :=
  let '(s1, fr) := cut 35 s in
  let '(s2, q) := cut 63 s1 in
  (s2, match q with Some x => x | None => [] end, match fr with Some x => x | None => [] end).

Definition url_split_with (dflt : text) (u : text) : res split :=
  let u := drop_unsafe (lstrip_c0 u) in
  let '(sch, rest) :=
    match cut 58 u with
    | (a :: pre, Some r) =>
        if is_alpha a && forallb scheme_char (a :: pre) then (map lower (a :: pre), r) else (dflt, u)
    | _ => (dflt, u)
    end in
  let '(netloc, rest) :=
    match rest with
    | 47 :: 47 :: r => split_netloc r
    | _ => ([], rest)
    end in
  if xorb (memN 91 netloc) (memN 93 netloc) then Err EVal
  else let '(p, q, f) := cut_ref rest in Ok (mkSplit sch netloc p q f).
Definition url_split (u : text) : res split := url_split_with [] u.

(* ---- urllib.parse.urlparse / urlunparse / urljoin (str arguments) *)
(* uses_relative / uses_netloc / uses_params: stdlib tables, emitted into Gen/Facts_C17.v from the running
   interpreter's urllib.parse *)
Record parsed := mkParsed { r_scheme : text; r_netloc : text; r_path : text; r_params : text;
                            r_query : text; r_fragment : text }.

(* _splitparams: the first ';' of the last path segment *)
Definition split_params (p : text) : text * text :=
  if memN 47 p then
    let '(dir, last) := rcut 47 p in
    match cut 59 last with
    | (a, Some b) => (dir ++ [47] ++ a, b)
    | (_, None) => (p, [])
    end
  else match cut 59 p with (a, Some b) => (a, b) | (_, None) => (p, []) end.

Definition urlparse (dflt : text) (u : text) : res parsed :=
  rlet s := url_split_with dflt u in
  let '(p, pr) := if mem_text (u_scheme s) uses_params && memN 59 (u_path s)
                  then split_params (u_path s) else (u_path s, []) in
  Ok (mkParsed (u_scheme s) (u_netloc s) p pr (u_query s) (u_fragment s)).

Definition urlunsplit (scheme netloc url query fragment : text) : text :=
  let url :=
    if nonempty netloc || (nonempty scheme && mem_text scheme uses_netloc && negb (startswith [47; 47] url))
    then [47; 47] ++ netloc ++ match url with [] => [] | c :: _ => if c =? 47 then url else 47 :: url end
    else url in
  let url := match scheme with [] => url | _ => scheme ++ [58] ++ url end in
  let url := match query with [] => url | _ => url ++ [63] ++ query end in
  match fragment with [] => url | _ => url ++ [35] ++ fragment end.

Definition urlunparse (r : parsed) : text :=
  urlunsplit (r_scheme r) (r_netloc r)
             (match r_params r with [] => r_path r | pr => r_path r ++ [59] ++ pr end)
             (r_query r) (r_fragment r).

Definition is_dots (s : text) : bool := text_eqb s [46] || text_eqb s [46; 46].
(* the loop over segments; [acc] is resolved_path reversed *)
Fixpoint resolve_dots (segs : list text) (acc : list text) : list text :=
  match segs with
  | [] => rev acc
  | s :: r => if text_eqb s [46; 46] then resolve_dots r (tl acc)
              else if text_eqb s [46] then resolve_dots r acc
              else resolve_dots r (s :: acc)
  end.
(* segments[1:-1] = filter(None, segments[1:-1]) *)
Definition filter_middle (segs : list text) : list text :=
  match segs with
  | first :: (_ :: _) as rest => first :: filter nonempty (removelast rest) ++ [last rest []]
  | _ => segs
  end.

Definition urljoin (base url : text) : res text :=
  match base, url with
  | [], _ => Ok url
  | _, [] => Ok base
  | _, _ =>
      rlet b := urlparse [] base in
      rlet r := urlparse (r_scheme b) url in
      if negb (text_eqb (r_scheme r) (r_scheme b)) || negb (mem_text (r_scheme r) uses_relative) then Ok url
      else if mem_text (r_scheme r) uses_netloc && nonempty (r_netloc r) then Ok (urlunparse r)
      else
        let netloc := if mem_text (r_scheme r) uses_netloc then r_netloc b else r_netloc r in
        if negb (nonempty (r_path r)) && negb (nonempty (r_params r)) then
          Ok (urlunparse (mkParsed (r_scheme r) netloc (r_path b) (r_params b)
                                   (match r_query r with [] => r_query b | q => q end) (r_fragment r)))
        else
          let base_parts := split_on 47 (r_path b) in
          let base_parts := match last base_parts [] with [] => base_parts | _ => removelast base_parts end in
          let segments := if startswith [47] (r_path r) then split_on 47 (r_path r)
                          else filter_middle (base_parts ++ split_on 47 (r_path r)) in
          let resolved := resolve_dots segments [] in
          let resolved := if is_dots (last segments []) then resolved ++ [[]] else resolved in
          let path := match join [47] resolved with [] => [47] | p => p end in
          Ok (urlunparse (mkParsed (r_scheme r) netloc path (r_params r) (r_query r) (r_fragment r)))
  end.

(* StaticURLInfo.generate, a registration that is a URL *)
Definition static_external (e : env) (url sub : text) (o : overrides) : res text :=
  rlet aqf := parse_url_overrides e o in
  let '(_, qs, fr) := aqf in
  rlet p := urlparse [] url in
  let url := match r_scheme p with
             | [] => urlunparse (mkParsed (e_scheme e) (r_netloc p) (r_path p) (r_params p) (r_query p) (r_fragment p))
             | _ => url
             end in
  rlet b := utf8_enc sub in
  rlet r := (if static_external_uses_urljoin then urljoin url (quote static_external_safe b)
             else Ok (url ++ quote static_external_safe b)) in
  Ok (r ++ qs ++ fr).

Inductive reg := RRoute (spec rname : text) | RExt (spec url : text).
Fixpoint find_reg_x (regs : list reg) (path : text) : option (text * reg) :=
  match regs with
  | [] => None
  | g :: r =>
      match strip_prefix (match g with RRoute s _ | RExt s _ => s end) path with
      | Some sub => Some (sub, g)
      | None => find_reg_x r path
      end
  end.

Definition static_url_x e routes (regs : list reg) (path : text) o kw : res text :=
  match find_reg_x regs path with
  | None => Err EVal
  | Some (sub, RRoute _ rname) => route_url [] e routes rname [] o (dset static_subpath_key (KScalar (PStr sub)) kw)
  | Some (sub, RExt _ url) => static_external e url sub o
  end.

Definition static_path_x e routes regs path o kw : res text :=
  rlet a := path_app_url static_path_script_quoted e in
  static_url_x e routes regs path (set_app_url o a) kw.

(* urllib.parse.unquote (str): the UTF-8 bytes of the text, percent-decoded, decoded as UTF-8
   (strict here; the real one substitutes U+FFFD, which shows as None) *)
Definition text_bytes (s : text) : text := flat_map (fun c => if c <? 128 then [c] else encode1 c) s.
Definition unquote_text (s : text) : option text := decode (unquote (text_bytes s)).

Definition space_for_plus (c : N) : N := if c =? 43 then 32 else c.
Definition unquote_plus_text (s : text) : option text := unquote_text (map space_for_plus s).

(* urllib.parse.parse_qsl(qs, keep_blank_values=True) *)
Definition parse_item (it : text) : option (text * text) :=
  let '(n, v) := cut 61 it in
  match unquote_plus_text n, unquote_plus_text (match v with Some x => x | None => [] end) with
  | Some a, Some b => Some (a, b)
  | _, _ => None
  end.
Definition parse_qsl (qs : text) : option (list (text * text)) :=
  map_opt parse_item (filter nonempty (split_on 38 qs)).

(* path -> decoded segments *)
Definition decode_segments (p : text) : option (list text) := map_opt unquote_text (split_on 47 p).

(* ------------------------------------------------------------------ declarative spec *)
(* the text a supplied value stands for *)
Definition spec_text (v : pval) : option text :=
  match v with
  | PStr t => if forallb valid_scalar t then Some t else None
  | PBytes b => decode b
  | PInt z => Some (show_Z z)
  | PNum _ s => if forallb valid_scalar s then Some s else None
  end.

Definition spec_elements (els : list pval) : option (list text) := map_opt spec_text els.

(* the query pairs the caller supplied: sequence values expanded, None -> '' ;
   a bytes *value* is left unspecified (the code iterates it as integers) *)
Definition spec_pair (kv : pval * qval) : option (list (text * text)) :=
  olet k := spec_text (fst kv) in
  match snd kv with
  | QVNone => Some [(k, [])]
  | QVScalar (PBytes _) => None
  | QVScalar v => olet x := spec_text v in Some [(k, x)]
  | QVSeq l => olet xs := map_opt spec_text l in Some (map (fun x => (k, x)) xs)
  end.
Definition spec_pairs (l : list (pval * qval)) : option (list (text * text)) :=
  olet ps := map_opt spec_pair l in Some (concat ps).

Definition spec_anchor (a : option pval) : option text :=
  match a with
  | None => Some []
  | Some v => if truthy v then spec_text v else Some []
  end.

(* scheme://host[:port] the overrides ask for (declarative form of
   _partial_application_url; proved equal to [partial_host_url]) *)
(* what the property means by "default port" (RFC 7230 / 2818); the code's own tables are
   regenerated facts and are proved equal to this one *)
Definition rfc_default_ports : list (text * text) :=
  [([104; 116; 116; 112; 115], [52; 52; 51]); ([104; 116; 116; 112], [56; 48])].
Definition default_port (scheme : text) : option text := lookup rfc_default_ports scheme.
Definition spec_authority (e : env) (scheme host port : option text) : text :=
  let eff_scheme := match scheme with Some s => s | None => e_scheme e end in
  let hostport := match host with
                  | Some h => h
                  | None => match e_http_host e with Some h => h | None => e_server_name e end
                  end in
  let eff_host := before 58 hostport in
  let eff_port :=
    match port with
    | Some p => p
    | None =>
        match (match scheme with Some s => default_port s | None => None end) with
        | Some p => p
        | None => if has_colon hostport then after 58 hostport else e_server_port e
        end
    end in
  let shown := match default_port eff_scheme with
               | Some d => if text_eqb eff_port d then [] else eff_port
               | None => eff_port
               end in
  eff_scheme ++ scheme_sep ++ eff_host ++ match shown with [] => [] | _ => port_sep ++ shown end.

(* static assets: the sub-path below the registration is what has to come back.  A URL registration
   goes through urljoin, which removes '.', '..' and empty segments by design: the round trip is
   specified for sub-paths without such segments (the last one may be empty) *)
Definition normal_sub (sub : text) : bool :=
  let segs := split_on 47 sub in
  forallb (fun s => nonempty s && negb (is_dots s)) (removelast segs) && negb (is_dots (last segs [])).
Definition spec_ext_base (e : env) (url : text) : text :=
  if startswith [47; 47] url then e_scheme e ++ [58] ++ url else url.
Definition has_dot_segment (sub : text) : bool := existsb is_dots (split_on 47 sub).
(* -> (segments that must come back | None, URL the result must start with | Some "": unspecified) *)
Definition spec_static (e : env) (regs : list reg) (path : text) : option (list pval) * option text :=
  match find_reg_x regs path with
  | Some (sub, RRoute _ _) => (Some (map PStr (split_on 47 sub)), None)
  | Some (sub, RExt _ url) =>
      if has_dot_segment sub then (None, Some [])
      else if normal_sub sub then (Some (map PStr (split_on 47 sub)), Some (spec_ext_base e url))
      else (None, Some (spec_ext_base e url))
  | None => (None, None)
  end.

(* when a helper has to produce a URL at all: the route exists, every placeholder has a value, and every
   supplied text can be encoded (no lone surrogates, bytes that are UTF-8) *)
Definition enc_ok (v : pval) : bool :=
  match v with PStr t | PNum _ t => forallb valid_scalar t | _ => true end.
Definition text_ok (v : pval) : bool := match spec_text v with Some _ => true | None => false end.
Definition kwval_ok (v : kwval) : bool :=
  match v with KScalar x => text_ok x | KSeq l shown => forallb text_ok l && forallb valid_scalar shown end.
Definition qval_ok (v : qval) : bool :=
  match v with QVNone => true | QVScalar x => enc_ok x | QVSeq l => forallb enc_ok l end.
Definition query_ok (q : option query) : bool :=
  match q with
  | None => true
  | Some (QStr t) => forallb valid_scalar t
  | Some (QPairs l) => forallb (fun kv : pval * qval => enc_ok (fst kv) && qval_ok (snd kv)) l
  end.
Definition anchor_ok (a : option pval) : bool := match a with None => true | Some v => enc_ok v end.
Definition slots (p : pattern) : list text :=
  map fst (p_holes p) ++ match star_slot p with Some r => [r] | None => [] end.
Definition pattern_ok (p : pattern) : bool :=
  forallb valid_scalar (p_prefix p) && forallb (fun h : text * text => forallb valid_scalar (snd h)) (p_holes p).
Definition has_key {A} (d : list (text * A)) (k : text) : bool := match assoc k d with Some _ => true | None => false end.
Definition must_route (e : env) (routes : list (text * pattern)) (name : text) (els : list pval) (o : overrides)
           (kw : list (text * kwval)) : bool :=
  match assoc name routes with
  | None => false
  | Some p =>
      forallb valid_scalar (e_script e) && pattern_ok p && forallb (has_key kw) (slots p)
      && forallb (fun kv : text * kwval => kwval_ok (snd kv)) kw && forallb text_ok els
      && query_ok (o_query o) && anchor_ok (o_anchor o)
  end.
Definition must_resource e routes (names els : list pval) o (vroot : option text)
           (rn : option (text * text * option (list (text * kwval)))) : bool :=
  forallb text_ok names
  && match vroot with Some v => match decode v with Some _ => true | None => false end | None => true end
  && match rn with
     | None => forallb valid_scalar (e_script e) && forallb text_ok els && query_ok (o_query o) && anchor_ok (o_anchor o)
     | Some (rname, rem, rkw) =>
         must_route e routes rname els o (dupdate [(rem, KSeq names [])] (match rkw with Some k => k | None => [] end))
     end.
Definition must_static e routes (regs : list reg) (path : text) o kw : bool :=
  match find_reg_x regs path with
  | None => false
  | Some (sub, RRoute _ rname) => must_route e routes rname [] o (dset static_subpath_key (KScalar (PStr sub)) kw)
  | Some (sub, RExt _ _) => forallb valid_scalar sub && forallb valid_scalar (e_script e)
                            && query_ok (o_query o) && anchor_ok (o_anchor o)
  end.

(* RFC 3986 character classes *)
Definition unreserved (c : N) : bool := is_alpha c || is_digit c || (c =? 45) || (c =? 46) || (c =? 95) || (c =? 126).
Definition sub_delim (c : N) : bool := memN c [33; 36; 38; 39; 40; 41; 42; 43; 44; 59; 61].
Definition pchar (c : N) : bool := unreserved c || sub_delim c || (c =? 58) || (c =? 64) || (c =? 37).
Definition path_char (c : N) : bool := pchar c || (c =? 47).
Definition query_char (c : N) : bool := pchar c || (c =? 47) || (c =? 63).

(* ------------------------------------------------------------------ wire glue *)
Definition get_pval (v : val) : option pval :=
  match v with
  | VL [VI 0%Z; VT t] => Some (PStr t)
  | VL [VI 1%Z; VT b] => Some (PBytes b)
  | VL [VI 2%Z; VI z] => Some (PInt z)
  | VL [VI 3%Z; VI k; VT s] => Some (PNum k s)
  | _ => None
  end.
Definition get_pvals := get_list_of get_pval.
Definition get_qval (v : val) : option qval :=
  match v with
  | VL [VI 0%Z] => Some QVNone
  | VL [VI 1%Z; x] => olet p := get_pval x in Some (QVScalar p)
  | VL [VI 2%Z; l] => olet ps := get_pvals l in Some (QVSeq ps)
  | _ => None
  end.
Definition get_pair (v : val) : option (pval * qval) :=
  match v with VL [k; x] => olet k := get_pval k in olet x := get_qval x in Some (k, x) | _ => None end.
Definition get_pairs := get_list_of get_pair.
Definition get_query (v : val) : option query :=
  match v with
  | VL [VI 0%Z; VT t] => Some (QStr t)
  | VL [VI 1%Z; l] => olet ps := get_pairs l in Some (QPairs ps)
  | _ => None
  end.
Definition get_kwval (v : val) : option kwval :=
  match v with
  | VL [VI 0%Z; x] => olet p := get_pval x in Some (KScalar p)
  | VL [VI 1%Z; l; VT shown] => olet ps := get_pvals l in Some (KSeq ps shown)
  | _ => None
  end.
Definition get_kw := get_list_of (fun v => match v with
                                            | VL [VT k; x] => olet x := get_kwval x in Some (k, x)
                                            | _ => None end).
Definition get_env (v : val) : option env :=
  match v with
  | VL [VT s; h; VT n; VT p; VT sc] => olet h := get_opt get_text h in Some (mkEnv s h n p sc)
  | _ => None
  end.
Definition get_ov (v : val) : option overrides :=
  match v with
  | VL [a; s; h; p; q; f] =>
      olet a := get_opt get_text a in olet s := get_opt get_text s in olet h := get_opt get_text h in
      olet p := get_opt get_text p in olet q := get_opt get_query q in olet f := get_opt get_pval f in
      Some (mkOv a s h p q f)
  | _ => None
  end.
Definition get_pattern (v : val) : option pattern :=
  match v with
  | VL [VT pre; hs; st] =>
      olet hs := get_list_of (fun h => match h with VL [VT n; VT l] => Some (n, l) | _ => None end) hs in
      olet st := get_opt get_text st in Some (mkPat pre hs st)
  | _ => None
  end.
Definition get_routes := get_list_of (fun v => match v with
                                                | VL [VT n; p] => olet p := get_pattern p in Some (n, p)
                                                | _ => None end).
Definition get_regs := get_list_of (fun v => match v with
                                              | VL [VT s; VT n; VL []] => Some (RRoute s n)
                                              | VL [VT s; VT n; VL [VT u]] => Some (RExt s u)
                                              | _ => None end).

Definition put_res (r : res text) : val :=
  match r with Ok t => VL [VI 0; VT t] | Err e => VL [VI 1; vN e] end.
Definition put_otext (o : option text) : val := vopt VT o.
Definition put_pairs (o : option (list (text * text))) : val :=
  vopt (vlist (fun kv : text * text => VL [VT (fst kv); VT (snd kv)])) o.
Definition put_split (r : res split) : val :=
  match r with
  | Ok s => VL [VI 0; VT (u_scheme s); VT (u_netloc s); VT (u_path s); VT (u_query s); VT (u_fragment s)]
  | Err e => VL [VI 1; vN e]
  end.

(* reference decoding of a produced URL: split, path segments, query (both readings), fragment *)
Definition put_decoded (r : res text) : val :=
  match r with
  | Err _ => VL []
  | Ok u =>
      match url_split u with
      | Err e => VL [VI 1]
      | Ok s => VL [VI 0; VT (u_scheme s); VT (u_netloc s);
                    vopt (vlist VT) (decode_segments (u_path s));
                    put_pairs (parse_qsl (u_query s));
                    put_otext (unquote_text (u_query s));
                    put_otext (unquote_text (u_fragment s))]
      end
  end.

(* the spec's expectations for one generation case *)
Definition put_spec (must : bool) (e : env) (o : overrides) (els : option (list pval)) (ext xauth : option text) : val :=
  VL [ (* 0: scheme://authority the overrides ask for (when at least one is given and no _app_url) *)
       match o_app_url o, o_scheme o, o_host o, o_port o with
       | Some _, _, _, _ => VL []
       | None, None, None, None => VL []
       | None, s, h, p => VL [VT (spec_authority e s h p)]
       end;
       (* 1: supplied elements *)
       match els with Some l => vopt (vlist VT) (spec_elements l) | None => VL [] end;
       (* 2: supplied query: [0, text] | [1, pairs] | [] unspecified *)
       match o_query o with
       | None => VL [VI 1; VL []]
       | Some (QStr t) => if forallb valid_scalar t then VL [VI 0; VT t] else VL []
       | Some (QPairs l) => match spec_pairs l with
                            | Some ps => VL [VI 1; vlist (fun kv : text * text => VL [VT (fst kv); VT (snd kv)]) ps]
                            | None => VL []
                            end
       end;
       (* 3: supplied anchor *)
       put_otext (spec_anchor (o_anchor o));
       (* 4: script name *)
       VT (e_script e);
       (* 5: static asset registered under a URL: that URL (scheme filled in); [""]: registered under a URL but
          the sub-path is outside the specified class *)
       put_otext ext;
       (* 6: every input is well-formed: a URL has to be produced *)
       vbool must;
       (* 7: the route's pattern is a full URL: scheme://netloc the result has to start with (no script name follows) *)
       put_otext xauth ].

Definition answer_xx (must : bool) (e : env) (o : overrides) (els : option (list pval)) (ext xauth : option text)
           (u p : res text) : val :=
  VL [put_res u; put_res p; put_decoded u; put_spec must e o els ext xauth].
Definition answer_x must e o els ext u p := answer_xx must e o els ext None u p.
Definition answer must e o els u p := answer_x must e o els None u p.
Definition get_exts : val -> option extinfo :=
  get_list_of (fun v => match v with
                        | VL [VT n; s; VT netloc] => olet s := get_opt get_text s in Some (n, (s, netloc))
                        | _ => None end).
(* must-produce and expected authority for a possibly external route *)
Definition ext_must (xs : extinfo) (name : text) (o : overrides) : bool :=
  match assoc name xs with Some _ => onone (o_app_url o) | None => true end.
Definition ext_auth (e : env) (xs : extinfo) (name : text) (o : overrides) : option text :=
  match assoc name xs with Some x => Some (ext_app_url e o x) | None => None end.

Definition all_path_chars (s : text) : bool := forallb path_char s.

Definition run_C17 (v : val) : val :=
  ret_or_bad (
    match v with
    | VL [VI 0%Z; VI 0%Z; e; rs; VT name; els; o; kw; w; xs] =>
        olet e := get_env e in olet rs := get_routes rs in olet els := get_pvals els in olet xs := get_exts xs in
        olet o := get_ov o in olet kw := get_kw kw in olet w := get_list_of get_pvals w in
        let c := warm_cache w in
        (* the url form is computed first and fills the cache for the path form *)
        let c' := match els with [] => c | _ => warm_step c els end in
        Some (answer_xx (must_route e rs name els o kw && ext_must xs name o) e o (Some els) None (ext_auth e xs name o)
                        (route_url_x c e xs rs name els o kw) (route_path_x c' e xs rs name els o kw))
    | VL [VI 0%Z; VI 1%Z; e; names; els; o; w] =>
        olet e := get_env e in olet names := get_pvals names in olet els := get_pvals els in
        olet o := get_ov o in olet w := get_list_of get_pvals w in
        let c := warm_cache w in
        let c' := match els with [] => c | _ => warm_step c els end in
        Some (answer (must_resource e [] names els o None None) e o (Some els)
                     (resource_url c e names els o) (resource_path c' e names els o))
    | VL [VI 0%Z; VI 4%Z; e; rs; names; els; o; w; vroot; rn] =>
        olet e := get_env e in olet rs := get_routes rs in olet names := get_pvals names in olet els := get_pvals els in
        olet o := get_ov o in olet w := get_list_of get_pvals w in olet vroot := get_opt get_text vroot in
        olet rn := get_opt (fun v => match v with
                                     | VL [VT a; VT b; k] => olet k := get_opt get_kw k in Some (a, b, k)
                                     | _ => None end) rn in
        let c := warm_cache w in
        let c' := match els with [] => c | _ => warm_step c els end in
        Some (answer (must_resource e rs names els o vroot rn) e o (Some els) (resource_url_x c e rs names els o vroot rn)
                     (resource_path_x c' e rs names els o vroot rn))
    | VL [VI 0%Z; VI 2%Z; e; rs; regs; VT path; o; kw] =>
        olet e := get_env e in olet rs := get_routes rs in olet regs := get_regs regs in
        olet o := get_ov o in olet kw := get_kw kw in
        let '(els, ext) := spec_static e regs path in
        Some (answer_x (must_static e rs regs path o kw) e o els ext
                       (static_url_x e rs regs path o kw) (static_path_x e rs regs path o kw))
    | VL [VI 0%Z; VI 3%Z; e; rs; rname; matched; md; gt; els; o; kw; w; xs] =>
        olet e := get_env e in olet rs := get_routes rs in olet xs := get_exts xs in
        olet rname := get_opt get_text rname in olet matched := get_opt get_text matched in
        olet md := get_kw md in olet gt := get_pairs gt in olet els := get_pvals els in
        olet o := get_ov o in olet kw := get_kw kw in olet w := get_list_of get_pvals w in
        let o' := match o_query o with Some _ => o | None => set_query o (QPairs gt) end in
        let c := warm_cache w in
        let c' := match els with [] => c | _ => warm_step c els end in
        let nm := match rname with Some n => Some n | None => matched end in
        let must := match nm with
                    | Some n => must_route e rs n els o' (dupdate md kw) && ext_must xs n o
                    | None => false
                    end in
        Some (answer_xx must e o' (Some els) None (match nm with Some n => ext_auth e xs n o | None => None end)
                        (current_route_url_x c e xs rs rname matched md gt els o kw)
                        (current_route_path_x c' e xs rs rname matched md gt els o kw))
    | VL [VI 1%Z; VT u] =>
        (* reference decoder alone *)
        let s := url_split u in
        Some (VL [put_split s;
                  match s with
                  | Ok s => VL [put_pairs (parse_qsl (u_query s)); put_otext (unquote_text (u_path s));
                                put_otext (unquote_text (u_fragment s))]
                  | Err _ => VL []
                  end])
    | VL [VI 3%Z; VT base; VT ref] =>
        (* urllib.parse.urljoin alone *)
        Some (put_res (urljoin base ref))
    | VL [VI 2%Z; VT safe; VT bs] =>
        (* urllib.parse.quote / quote_plus / unquote_to_bytes on bytes *)
        Some (VL [VT (quote safe bs); VT (quote_plus_bytes safe bs); VT (unquote bs)])
    | _ => None
    end).
