(* C02 -- data types and PRIMITIVES shared by the hand-written model
   (Model/C02.v, which re-exports this file) and by the program the translator
   regenerates from src/pyramid/traversal.py on every run (Gen/Facts_C02.v).
   This file is the target vocabulary of the translator's primitive table
   (harness/c02/translate.py).  Executable definitions only. *)
From Coq Require Import List NArith ZArith Bool.
Import ListNotations.
Require Import Verif.Lib.Wire Verif.Lib.Text Verif.Lib.Utf8 Verif.Lib.Percent.

(* ------------------------------------------------------------------ trees *)
(* A location-aware resource tree.  [None] = a resource without
   __getitem__; [Some l] = item lookup is "first entry of l with that key",
   absent key = KeyError.  The __name__ of a child is its key. *)
Inductive res := Node (children : option (list (text * res))).

(* identity of a resource = the child indexes leading to it from the root *)
Definition pos := list nat.
Definition rnode : Type := (pos * res)%type.

Fixpoint assoc_idx (k : text) (l : list (text * res)) (i : nat) : option (nat * res) :=
  match l with
  | [] => None
  | (n, c) :: r => if text_eqb k n then Some (i, c) else assoc_idx k r (S i)
  end.

Inductive lookup := NoGetitem | NoKey | Found (i : nat) (c : res).

(* ob.__getitem__ (AttributeError) / getitem(segment) (KeyError) *)
Definition getitem (ob : res) (seg : text) : lookup :=
  match ob with
  | Node None => NoGetitem
  | Node (Some l) => match assoc_idx seg l 0 with Some (i, c) => Found i c | None => NoKey end
  end.

Definition child (ob : rnode) (seg : text) : option rnode :=
  match getitem (snd ob) seg with Found i c => Some (fst ob ++ [i], c) | _ => None end.

(* item lookup along a list of segments *)
Fixpoint descend (ob : rnode) (segs : list text) : option rnode :=
  match segs with
  | [] => Some ob
  | s :: r => match child ob s with Some n => descend n r | None => None end
  end.

(* the resource at a position *)
Fixpoint node_at (r : res) (p : pos) : option res :=
  match p with
  | [] => Some r
  | i :: p' => match r with
               | Node (Some l) => match nth_error l i with Some (_, c) => node_at c p' | None => None end
               | Node None => None
               end
  end.

(* ------------------------------------------------------------ exceptions *)
Inductive exn := URLDecodeError | UnicodeDecodeError | UnicodeEncodeError.
Inductive result (A : Type) := Ok (a : A) | Exc (e : exn) | Unsupported.
Arguments Ok {A}. Arguments Exc {A}. Arguments Unsupported {A}.

Definition rbind {A B} (r : result A) (f : A -> result B) : result B :=
  match r with Ok a => f a | Exc e => Exc e | Unsupported => Unsupported end.
Notation "'rlet' x ':=' e 'in' k" := (rbind e (fun x => k))
  (at level 200, x pattern, e at level 100, k at level 200, right associativity).

(* ------------------------------------------------------------ the traverser's dictionary *)
Record tdict := mkT {
  t_context : pos; t_view_name : text; t_subpath : list text; t_traversed : list text;
  t_virtual_root : pos; t_virtual_root_path : list text; t_root : pos }.

(* ------------------------------------------------------------ primitives of the table *)
(* [try: g = ob.__getitem__ except AttributeError] succeeds *)
Definition has_getitem (ob : rnode) : bool :=
  match snd ob with Node None => false | Node (Some _) => true end.

(* truth value of a list / tuple; list.append; del l[-1] (on a non-empty list) *)
Definition is_nil {A} (l : list A) : bool := match l with [] => true | _ => false end.
Definition snoc {A} (l : list A) (x : A) : list A := l ++ [x].
Definition drop_last {A} (l : list A) : list A := removelast l.

(* str.encode('latin-1') (UnicodeEncodeError above U+00FF); bytes.decode('utf-8') (strict) *)
Definition latin1_encode_r (t : text) : result (list N) :=
  if forallb (fun c => N.ltb c 256) t then Ok t else Exc UnicodeEncodeError.
Definition utf8_decode_r (b : list N) : result text :=
  match Utf8.decode b with Some cs => Ok cs | None => Exc UnicodeDecodeError end.

(* ------------------------------------------------------------ the request as the traverser sees it *)
(* a match-dictionary value: the str of a {name} placeholder or the tuple of a *stararg *)
Inductive mval := MStr (t : text) | MTuple (l : list text).
Record matchdict := mkMd { md_traverse : option mval; md_subpath : option mval }.
Record request := mkReq {
  q_path_info : option text;        (* environ['PATH_INFO'] (WSGI latin-1 text); None = key absent *)
  q_matchdict : option matchdict;   (* request.matchdict *)
  q_vroot : option text }.          (* environ['HTTP_X_VHM_ROOT'] *)

(* truth value of a match-dictionary value ('' and () are falsy) *)
Definition mval_falsy (v : mval) : bool :=
  match v with MStr [] => true | MTuple [] => true | _ => false end.

(* matchdict.get(key, default) for the keys 'traverse' / 'subpath' *)
Definition md_get (field : matchdict -> option mval) (md : matchdict) (dflt : mval) : mval :=
  match field md with Some v => v | None => dflt end.

(* `matchdict.get(key) or default`: the default when the key is absent (None) or its value is falsy *)
Definition omval_or (o : option mval) (dflt : mval) : mval :=
  match o with Some v => if mval_falsy v then dflt else v | None => dflt end.

(* webob BaseRequest.path_info on a present PATH_INFO: the WSGI (latin-1) text read as UTF-8
   (absent key = KeyError is the [None] of q_path_info) *)
Definition webob_path_info (raw : text) : result text := rbind (latin1_encode_r raw) utf8_decode_r.

(* ------------------------------------------------------------ parents (location.lineage, find_root) *)
(* a resource is identified by its position; its __parent__ is the resource at the position without the
   last index, and None for the root *)
Definition parent_is_none (x : rnode) : bool := is_nil (fst x).

(* lineage(x): x, its parent, ..., the root of [tree] *)
Definition lineage_of (tree : res) (x : rnode) : list rnode :=
  x :: flat_map (fun k => match node_at tree (firstn k (fst x)) with
                          | Some n => [(firstn k (fst x), n)]
                          | None => []
                          end) (rev (seq 0 (length (fst x)))).

(* ------------------------------------------------------------ traversal_path *)
(* str.encode('ascii') (UnicodeEncodeError above U+007F) *)
Definition ascii_encode_r (t : text) : result (list N) :=
  if forallb (fun c => N.ltb c 128) t then Ok t else Exc UnicodeEncodeError.
(* unquote_bytes_to_wsgi(b) = urllib.parse.unquote_to_bytes(b).decode('latin-1'): code point = byte *)
Definition unquote_to_wsgi (b : list N) : text := Percent.unquote b.

(* ------------------------------------------------------------ _join_path_tuple *)
(* [f(x) for x in t] with an f that may raise: the first exception propagates *)
Fixpoint rmap_r {A B} (f : A -> result B) (l : list A) : result (list B) :=
  match l with
  | [] => Ok []
  | x :: r => rbind (f x) (fun y => rbind (rmap_r f r) (fun ys => Ok (y :: ys)))
  end.
(* quote_path_segment(segment, safe) for a str segment: UTF-8 (lone surrogates: UnicodeEncodeError), then
   urllib.parse.quote with that safe set; the (segment, safe) dictionary is transparent (Proofs/C02_memo.v) *)
Definition quote_segment_r (safe seg : text) : result text :=
  if forallb valid_scalar seg then Ok (Percent.quote safe (Utf8.encode seg)) else Exc UnicodeEncodeError.
