(* C18 -- primitives of the model: nodes, hints, insertion-ordered dictionaries, the
   TopologicalSorter state record and the hand-written reference model of
   remove / add / sorted.  No regenerated facts are used here, so the program
   regenerated from the source (Gen/Facts_C18.v) can be stated over these primitives. *)
From Coq Require Import List NArith ZArith Bool.
Import ListNotations.
Require Import Verif.Lib.Wire.

Definition node := text.                 (* names and sentinels, compared with == *)
Definition arc := (node * node)%type.

(* a constraint argument as the caller wrote it: None | one name/sentinel | an iterable *)
Inductive hint := HNone | HOne (u : node) | HMany (l : list node).

(* if not is_nonstr_iter(x): x = (x,) *)
Definition norm_hint (h : hint) : option (list node) :=
  match h with HNone => None | HOne u => Some [u] | HMany l => Some l end.

(* ---- insertion-ordered dict *)
Section Assoc.
Context {V : Type}.
Fixpoint aget (k : node) (l : list (node * V)) : option V :=
  match l with
  | [] => None
  | (k', v) :: r => if text_eqb k k' then Some v else aget k r
  end.
Fixpoint aset (k : node) (v : V) (l : list (node * V)) : list (node * V) :=
  match l with
  | [] => [(k, v)]
  | (k', v') :: r => if text_eqb k k' then (k', v) :: r else (k', v') :: aset k v r
  end.
Fixpoint adel (k : node) (l : list (node * V)) : list (node * V) :=
  match l with
  | [] => []
  | (k', v') :: r => if text_eqb k k' then r else (k', v') :: adel k r
  end.
End Assoc.

(* list.remove(x): first occurrence (no-op when absent; Python would raise) *)
Fixpoint remove_first (x : node) (l : list node) : list node :=
  match l with [] => [] | y :: r => if text_eqb x y then r else y :: remove_first x r end.
Definition arc_eqb (x y : arc) : bool := text_eqb (fst x) (fst y) && text_eqb (snd x) (snd y).
Fixpoint remove_arc (x : arc) (l : list arc) : list arc :=
  match l with [] => [] | y :: r => if arc_eqb x y then r else y :: remove_arc x r end.
Definition set_add (x : node) (l : list node) : list node := if mem_text x l then l else l ++ [x].

(* ---- TopologicalSorter state *)
Record sorter := mkSorter {
  names : list node;
  req_before : list node;                 (* set *)
  req_after : list node;                  (* set *)
  name2before : list (node * list node);  (* dict *)
  name2after : list (node * list node);   (* dict *)
  name2val : list (node * N);             (* dict; values are opaque, here an id *)
  order : list arc;
  default_before : hint;
  default_after : hint;
  first : node;
  last : node
}.

Definition cfg := (hint * hint * node * node)%type.   (* default_before, default_after, first, last *)
Definition hint_of_fact (o : option text) : hint := match o with Some u => HOne u | None => HNone end.
Definition cfg_of_raw (r : option text * option text * text * text) : cfg :=
  let '(db, da, f, l) := r in (hint_of_fact db, hint_of_fact da, f, l).
Definition new_sorter (c : cfg) : sorter :=
  let '(db, da, f, l) := c in mkSorter [] [] [] [] [] [] [] db da f l.

Definition upd (s : sorter) nm rb ra n2b n2a n2v ord : sorter :=
  mkSorter nm rb ra n2b n2a n2v ord (default_before s) (default_after s) (first s) (last s).

Definition nonempty {A} (l : list A) : bool := match l with [] => false | _ => true end.

(* def remove(self, name); None = ValueError from names.remove(name) *)
Definition remove (name : node) (s : sorter) : option sorter :=
  if mem_text name (names s) then
    (* after = self.name2after.pop(name, None); if after is not None: ... *)
    let '(ra, ord1) :=
      match aget name (name2after s) with
      | Some after => (remove_first name (req_after s),
                       fold_left (fun o u => remove_arc (u, name) o) after (order s))
      | None => (req_after s, order s)
      end in
    let '(rb, ord2) :=
      match aget name (name2before s) with
      | Some before => (remove_first name (req_before s),
                        fold_left (fun o u => remove_arc (name, u) o) before ord1)
      | None => (req_before s, ord1)
      end in
    Some (upd s (remove_first name (names s)) rb ra
              (adel name (name2before s)) (adel name (name2after s)) (adel name (name2val s)) ord2)
  else None.

Definition opt_list (o : option (list node)) : list node := match o with Some l => l | None => [] end.

(* the tail of add(): after/before already defaulted and wrapped ([None] = not given) *)
Definition add_core (name : node) (val : N) (after before : option (list node)) (s : sorter) : sorter :=
  upd s (names s ++ [name])
      (match before with Some _ => set_add name (req_before s) | None => req_before s end)
      (match after with Some _ => set_add name (req_after s) | None => req_after s end)
      (match before with Some b => aset name b (name2before s) | None => name2before s end)
      (match after with Some a => aset name a (name2after s) | None => name2after s end)
      (aset name val (name2val s))
      ((order s ++ map (fun u => (u, name)) (opt_list after)) ++ map (fun o => (name, o)) (opt_list before)).

(* def add(self, name, val, after=None, before=None) *)
Definition add (name : node) (val : N) (after before : hint) (s : sorter) : sorter :=
  let s := if mem_text name (names s)
           then match remove name s with Some s' => s' | None => s end else s in
  let '(after, before) :=
    match after, before with
    | HNone, HNone => (default_after s, default_before s)
    | _, _ => (after, before)
    end in
  add_core name val (norm_hint after) (norm_hint before) s.

(* ---- sorted() *)
Definition gentry := (Z * list node)%type.          (* graph[node] = [in-degree, child, child, ...] *)
Definition graph := list (node * gentry).

Definition add_node (st : graph * list node) (n : node) : graph * list node :=
  let '(g, roots) := st in
  match aget n g with
  | Some _ => st
  | None => (g ++ [(n, (0%Z, []))], roots ++ [n])
  end.

Definition add_arc (st : graph * list node) (e : arc) : graph * list node :=
  let '(g, roots) := st in
  let '(a, b) := e in
  let g1 := match aget a g with Some (c, ch) => aset a (c, ch ++ [b]) g | None => g end in
  let g2 := match aget b g1 with Some (c, ch) => aset b ((c + 1)%Z, ch) g1 | None => g1 end in
  (g2, remove_first b roots).

Definition all_names (s : sorter) : list node := first s :: last s :: names s.
Definition all_order (s : sorter) : list arc := (first s, last s) :: order s.
Definition arc_present (nm : list node) (e : arc) : bool := mem_text (fst e) nm && mem_text (snd e) nm.

Definition build (s : sorter) : graph * list node :=
  let nm := all_names s in
  let st := fold_left add_node nm ([], []) in
  fold_left (fun st e => if arc_present nm e then add_arc st e else st) (all_order s) st.

(* {name for name, alts in d.items() if any(a in names for a in alts)} *)
Definition has_dep (nm : list node) (d : list (node * list node)) : list node :=
  map fst (filter (fun kv => existsb (fun a => mem_text a nm) (snd kv)) d).
Definition missing (req has : list node) : list node := filter (fun n => negb (mem_text n has)) req.

Definition visit (st : option (list node * graph)) (child : node) : option (list node * graph) :=
  match st with
  | None => None
  | Some (roots, g) =>
      match aget child g with
      | None => None                                    (* KeyError: impossible, see Proofs *)
      | Some (c, ch) =>
          let c' := (c - 1)%Z in
          Some (if Z.eqb c' 0 then child :: roots else roots, aset child (c', ch) g)
      end
  end.

(* while roots: ...   [em] is sorted_names, most recent first *)
Fixpoint loop (fuel : nat) (roots : list node) (g : graph) (em : list node) : option (graph * list node) :=
  match roots with
  | [] => Some (g, em)
  | root :: rs =>
      match fuel with
      | O => None
      | S f =>
          match aget root g with
          | None => None
          | Some (_, children) =>
              match fold_left visit children (Some (rs, g)) with
              | None => None
              | Some (rs', g') => loop f rs' (adel root g') (root :: em)
              end
          end
      end
  end.

Inductive outcome :=
| Sorted (l : list (node * N))
| UnsatBefore (l : list node)
| UnsatAfter (l : list node)
| Cyclic (l : list (node * list node))
| Internal.                                  (* fuel exhausted / KeyError: proved impossible *)

(* cycledeps = {}; for k, v in graph.items(): cycledeps[k] = v[1:] *)
Definition cycle_dict (g : graph) : list (node * list node) :=
  fold_left (fun cd kv => aset (fst kv) (snd (snd kv)) cd) g [].

Definition val_of (s : sorter) (n : node) : N := match aget n (name2val s) with Some v => v | None => 0%N end.

Definition sorted (s : sorter) : outcome :=
  let nm := all_names s in
  let '(g, roots) := build s in
  let mb := missing (req_before s) (has_dep nm (name2before s)) in
  if nonempty mb then UnsatBefore mb else
  let ma := missing (req_after s) (has_dep nm (name2after s)) in
  if nonempty ma then UnsatAfter ma else
  match loop (length g) roots g [] with
  | None => Internal
  | Some (g', em) =>
      if nonempty g' then Cyclic (cycle_dict g')
      else Sorted (map (fun n => (n, val_of s n)) (filter (fun n => mem_text n (names s)) (rev em)))
  end.


Inductive handler := Base | Wrap (name : node) (factory : N) (inner : handler).
Inductive event := Enter (n : node) | Exit (n : node) | Call.

Fixpoint trace (h : handler) : list event :=
  match h with
  | Base => [Call]
  | Wrap n _ h' => Enter n :: trace h' ++ [Exit n]
  end.

Record tweens := mkTweens { tw_sorter : sorter; tw_explicit : list (node * N) }.
Definition add_explicit (n : node) (f : N) (t : tweens) : tweens :=
  mkTweens (tw_sorter t) (tw_explicit t ++ [(n, f)]).


(* ---- leaf primitives of the source-to-Gallina translator (harness/c18/translate.py) *)
Definition amem {V} (k : node) (d : list (node * V)) : bool :=                (* k in d *)
  match aget k d with Some _ => true | None => false end.
Definition gnew : gentry := (0%Z, []).                                        (* [0] *)
Definition gappend (k x : node) (g : graph) : graph :=                        (* graph[k].append(x) *)
  match aget k g with Some (c, ch) => aset k (c, ch ++ [x]) g | None => g end.
Definition gincr (k : node) (g : graph) : graph :=                            (* graph[k][0] += 1 *)
  match aget k g with Some (c, ch) => aset k ((c + 1)%Z, ch) g | None => g end.
Definition gcount (k : node) (g : graph) : option Z :=                        (* graph[k][0]   (KeyError = None) *)
  match aget k g with Some (c, _) => Some c | None => None end.
Definition gchildren (k : node) (g : graph) : option (list node) :=           (* graph[k][1:]  (KeyError = None) *)
  match aget k g with Some (_, ch) => Some ch | None => None end.
Definition gset_count (k : node) (c : Z) (g : graph) : graph :=               (* graph[k][0] = c *)
  match aget k g with Some (_, ch) => aset k (c, ch) g | None => g end.
Definition aget_val (k : node) (d : list (node * N)) : N :=                   (* d[k] on the value dictionary *)
  match aget k d with Some v => v | None => 0%N end.
Definition hint_is_none (h : hint) : bool := match h with HNone => true | _ => false end.

(* ---- leaf primitives of the directive translator (harness/c18/translate_args.py) *)
Fixpoint text_leb (a b : text) : bool :=       (* Python str <= : code point order *)
  match a, b with
  | [], _ => true
  | _ :: _, [] => false
  | x :: a', y :: b' => if N.ltb x y then true else if N.ltb y x then false else text_leb a' b'
  end.
Fixpoint insert_sorted (x : text) (l : list text) : list text :=
  match l with
  | [] => [x]
  | y :: r => if text_leb y x then y :: insert_sorted x r else x :: l    (* stable: after equal elements *)
  end.
Definition sort_texts (l : list text) : list text := fold_left (fun acc x => insert_sorted x acc) l [].

(* as_sorted_tuple(hint): a bare name is wrapped, an iterable is sorted *)
Definition as_sorted_tuple (h : hint) : list node :=
  match h with HNone => [] | HOne u => [u] | HMany l => sort_texts l end.

(* `h is C` for a constraint argument and an interned module constant C (identity, modelled as equality of a BARE hint) *)
Definition hint_is_one (u : node) (h : hint) : bool := match h with HOne x => text_eqb x u | _ => false end.
(* is_nonstr_iter(h) *)
Definition hint_is_many (h : hint) : bool := match h with HMany _ => true | _ => false end.
(* `C in h` under is_nonstr_iter(h) *)
Definition hint_many_has (u : node) (h : hint) : bool := match h with HMany l => mem_text u l | _ => false end.
(* what the register() closure of _add_tween does to the Tweens utility *)
Inductive tw_reg := TRExplicit (n : node) (f : N) | TRImplicit (n : node) (f : N) (under over : hint).

(* ---- PredicateList.make (config/predicates.py): primitives of its translator (harness/c18/translate_make.py) *)
Inductive pval := PV (x : N) | PNot (x : N).                 (* a predicate value, possibly wrapped in not_(..) *)
Inductive pvals := VOne (v : pval) | VSeq (l : list pval).   (* one value, or a predvalseq of values *)
Inductive pred := Pred (name : node) (factory : N) (v : pval) | NottedP (p : pred).
Inductive phres := PhOne (p : pred) | PhMany (l : list pred). (* what pred.phash() returns: opaque; here the predicate(s) it names *)
Definition pv_is_not (v : pval) : bool := match v with PNot _ => true | PV _ => false end.   (* isinstance(val, not_) *)
Definition pv_value (v : pval) : pval := match v with PNot x => PV x | PV x => PV x end.      (* val.value *)
Definition pvals_list (v : pvals) : list pval := match v with VOne x => [x] | VSeq l => l end.
                                                  (* if not isinstance(vals, predvalseq): vals = (vals,) *)
Definition ph_of (p : pred) : phres := PhOne p.                                               (* pred.phash() *)
Definition ph_list (r : phres) : list pred := match r with PhOne p => [p] | PhMany l => l end.
                                                  (* if not is_nonstr_iter(hashes): hashes = [hashes] *)
Inductive make_result :=
| MkOk (order : Z) (preds : list pred) (phash : list pred)
| MkUnknown (names : list node)                   (* ConfigurationError('Unknown predicate values ..') *)
| MkSortError (e : outcome).                      (* the error of self.sorter.sorted() *)
Fixpoint pred_name (p : pred) : node := match p with Pred n _ _ => n | NottedP q => pred_name q end.

(* reference model of make(): for the sorted (name, factory) pairs in order, the values given for that name -- one
   predicate per value, not_ values wrapped in Notted; weight 1 << n+1 for position n; leftover keywords = error *)
Definition mk_pred (n : node) (f : N) (v : pval) : pred :=
  if pv_is_not v then NottedP (Pred n f (pv_value v)) else Pred n f v.
Definition make_step (st : list (node * pvals) * list pred * list pred * list Z) (x : nat * (node * N))
  : list (node * pvals) * list pred * list pred * list Z :=
  let '(kw, phash, preds, weights) := st in
  let '(n, (name, f)) := x in
  match aget name kw with
  | None => st
  | Some vals =>
      let ps := map (mk_pred name f) (pvals_list vals) in
      (adel name kw, phash ++ ps, preds ++ ps, weights ++ map (fun _ => Z.shiftl 1 (Z.of_nat n + 1)) ps)
  end.
Fixpoint enumerate_from {A} (i : nat) (l : list A) : list (nat * A) :=
  match l with [] => [] | x :: r => (i, x) :: enumerate_from (S i) r end.
Definition max_order_default : Z := Z.shiftl 1 30.
Definition pl_make (max_order : Z) (o : outcome) (kw : list (node * pvals)) : make_result :=
  match o with
  | Sorted ordered =>
      let '(kw', phash, preds, weights) := fold_left make_step (enumerate_from 0 ordered) (kw, [], [], []) in
      if nonempty kw' then MkUnknown (map fst kw')
      else MkOk (Z.div (max_order - fold_left Z.lor weights 0%Z) (Z.of_nat (length preds) + 1)) preds phash
  | e => MkSortError e
  end.
