(* C03 -- view lookup: PredicateList.make, the built-in predicates, add_view's
   register_view / MultiView, _find_views and _call_view.
   Executable definitions only.  Sources followed (pinned in harness/c03/pins.json):
     pyramid/config/predicates.py  PredicateList.make
     pyramid/predicates.py         every built-in predicate class, Notted
     pyramid/config/views.py       MultiView, attr_wrapped_view, predicated_view, add_view.register_view
     pyramid/view.py               _find_views, _call_view
   Exports for C05 / C14 / C15: [reg] (registration record), [register_view], [mview]/[mv_add],
   [find_views], [call_view], [spec_winners] and the theorems of Proofs/C03.v. *)
From Coq Require Import List NArith ZArith Bool.
Import ListNotations.
Require Import Verif.Lib.Wire Verif.Lib.Text Verif.Gen.Facts_C03.

(* ------------------------------------------------------------------ *)
(* small generic helpers *)

Fixpoint text_leb (a b : text) : bool :=           (* Python str <= : code points, lexicographic *)
  match a, b with
  | [], _ => true
  | _ :: _, [] => false
  | x :: a', y :: b' => if N.ltb x y then true else if N.ltb y x then false else text_leb a' b'
  end.

(* stable insertion sort = list.sort / sorted with a key *)
Fixpoint insert_by {A} (leb : A -> A -> bool) (x : A) (l : list A) : list A :=
  match l with
  | [] => [x]
  | y :: r => if leb x y then x :: l else y :: insert_by leb x r
  end.
Fixpoint isort {A} (leb : A -> A -> bool) (l : list A) : list A :=
  match l with [] => [] | x :: r => insert_by leb x (isort leb r) end.

Fixpoint texts_eqb (a b : list text) : bool :=
  match a, b with
  | [], [] => true
  | x :: a', y :: b' => text_eqb x y && texts_eqb a' b'
  | _, _ => false
  end.

Definition sorted_texts (l : list text) : list text := isort text_leb l.

Fixpoint assoc {B} (k : text) (l : list (text * B)) : option B :=
  match l with [] => None | (k', v) :: r => if text_eqb k k' then Some v else assoc k r end.

Fixpoint index_of (x : text) (l : list text) (i : Z) : option Z :=
  match l with [] => None | y :: r => if text_eqb x y then Some i else index_of x r (i + 1)%Z end.

(* str(int) for non-negative ints *)
Fixpoint dec_fuel (fuel : nat) (n : N) (acc : text) : text :=
  match fuel with
  | O => acc
  | S f => let d := (48 + N.modulo n 10)%N in
           if N.eqb (N.div n 10) 0 then d :: acc else dec_fuel f (N.div n 10) (d :: acc)
  end.
Definition dec (n : N) : text := dec_fuel (S (N.size_nat n)) n [].

(* str.strip(): characters for which str.isspace() holds *)
Definition py_space : list N :=
  [9; 10; 11; 12; 13; 28; 29; 30; 31; 32; 133; 160; 5760; 8192; 8193; 8194; 8195; 8196; 8197; 8198;
   8199; 8200; 8201; 8202; 8232; 8233; 8239; 8287; 12288]%N.
Fixpoint lstrip_ws (s : text) : text :=
  match s with x :: r => if memN x py_space then lstrip_ws r else s | [] => [] end.
Definition strip_ws (s : text) : text := rev (lstrip_ws (rev (lstrip_ws s))).

(* s.split(c, 1) when c occurs: (before, after); None when c does not occur *)
Fixpoint split1 (c : N) (s : text) : option (text * text) :=
  match s with
  | [] => None
  | x :: r => if N.eqb x c then Some ([], r)
              else match split1 c r with Some (a, b) => Some (x :: a, b) | None => None end
  end.

Definition bool_text (b : bool) : text := if b then lit_true else lit_false.
Definition nonempty (t : text) : bool := match t with [] => false | _ => true end.

(* repr of a tuple of plain str (no quote, backslash or non-printable character inside) *)
Definition repr_str (s : text) : text := [39%N] ++ s ++ [39%N].
Definition repr_tuple (l : list text) : text :=
  match l with
  | [] => [40; 41]%N
  | [x] => [40%N] ++ repr_str x ++ [44; 41]%N
  | _ => [40%N] ++ join [44; 32]%N (map repr_str l) ++ [41%N]
  end.

(* ------------------------------------------------------------------ *)
(* predicate values as given to add_view, and predicate objects *)

Inductive pval :=
| VBool (b : bool)
| VText (t : text)
| VTexts (l : list text)            (* tuple / list of str *)
| VObj (id : N) (str : text)        (* class, interface or callable: identity (hash) and str() *)
| VThird (id : N) (ph : text).      (* value of a third-party predicate: truth-table id, phash text *)

Inductive pred :=
| PXhr (v : bool)
| PMethod (vals : list text)
| PPathInfo (orig : text)
| PParam (reqs : list (text * option text))
| PHeader (vals : list (text * option text))
| PAccept (values : list text)
| PContainment (id : N) (str : text)
| PMatchParam (reqs : list (text * text))
| PPhysPath (val : list text)
| PIsAuth (v : bool)
| PCustom (id : N)
| PThird (id : N) (ph : text)
| PNot (p : pred).

Definition as_tuple (v : pval) : option (list text) :=   (* is_nonstr_iter ? val : (val,) *)
  match v with VText t => Some [t] | VTexts l => Some l | _ => None end.
Definition as_sorted_tuple (v : pval) : option (list text) :=
  match as_tuple v with Some l => Some (sorted_texts l) | None => None end.

(* RequestMethodPredicate.__init__ *)
Definition mk_method (v : pval) : option pred :=
  olet l := as_sorted_tuple v in
  Some (PMethod (if mem_text rm_get l && negb (mem_text rm_head l)
                 then sorted_texts (l ++ [rm_head]) else l)).

(* RequestParamPredicate.__init__ : one (k, v) per item *)
Definition eqc : N := 61%N.
Definition param_req (p : text) : text * option text :=
  match p with
  | c :: rest =>
      if N.eqb c eqc then
        match split1 eqc rest with                         (* '=' in p[1:] *)
        | Some (k, v) => (strip_ws (eqc :: k), Some (strip_ws v))
        | None => (p, None)
        end
      else match split1 eqc p with
           | Some (k, v) => (strip_ws k, Some (strip_ws v))
           | None => (p, None)
           end
  | [] => (p, None)
  end.
Definition mk_param (v : pval) : option pred :=
  olet l := as_sorted_tuple v in Some (PParam (map param_req l)).

(* HeaderPredicate.__init__ : (name, val_str) ; the compiled regex is the oracle's *)
Definition header_req (n : text) : text * option text :=
  match split1 58%N n with Some (a, b) => (a, Some b) | None => (n, None) end.
Definition mk_header (v : pval) : option pred :=
  olet l := as_sorted_tuple v in Some (PHeader (map header_req l)).

(* MatchParamPredicate.__init__ : an item without '=' is a ValueError at configuration time *)
Definition mk_match_param (v : pval) : option pred :=
  olet l := as_sorted_tuple v in
  olet reqs := map_opt (fun p => match split1 eqc p with
                                 | Some (x, y) => Some (strip_ws x, strip_ws y)
                                 | None => None end) l in
  Some (PMatchParam reqs).

(* PhysicalPathPredicate.__init__ *)
Definition mk_phys (v : pval) : option pred :=
  match v with
  | VTexts l => Some (PPhysPath l)
  | VText s => Some (PPhysPath ([] :: filter nonempty (split_on 47%N s)))
  | _ => None
  end.

(* factory by predicate name (add_default_view_predicates); third-party names take VThird values *)
Definition factory (name : text) (v : pval) : option pred :=
  if text_eqb name nm_xhr then match v with VBool b => Some (PXhr b) | _ => None end
  else if text_eqb name nm_request_method then mk_method v
  else if text_eqb name nm_path_info then match v with VText t => Some (PPathInfo t) | _ => None end
  else if text_eqb name nm_request_param then mk_param v
  else if text_eqb name nm_header then mk_header v
  else if text_eqb name nm_accept then olet l := as_tuple v in Some (PAccept l)
  else if text_eqb name nm_containment then match v with VObj i s => Some (PContainment i s) | _ => None end
  else if text_eqb name nm_match_param then mk_match_param v
  else if text_eqb name nm_physical_path then mk_phys v
  else if text_eqb name nm_is_authenticated then match v with VBool b => Some (PIsAuth b) | _ => None end
  else if text_eqb name nm_custom then match v with VObj i _ => Some (PCustom i) | _ => None end
  else match v with VThird i ph => Some (PThird i ph) | _ => None end.

(* text() / phash() of a predicate *)
Definition kv_text (kv : text * option text) : text :=
  match kv with
  | (x, Some y) => if nonempty y then x ++ lit_eq ++ y else x
  | (x, None) => x
  end.
Fixpoint pred_phash (p : pred) : text :=
  match p with
  | PXhr v => pfx_xhr ++ bool_text v
  | PMethod vals => pfx_request_method ++ join sep_request_method vals
  | PPathInfo o => pfx_path_info ++ o
  | PParam reqs => pfx_request_param ++ join sep_request_param (map kv_text reqs)
  | PHeader vals => pfx_header ++ join sep_header (map kv_text vals)
  | PAccept values => pfx_accept ++ join sep_accept values
  | PContainment _ s => pfx_containment ++ s
  | PMatchParam reqs => pfx_match_param ++ join sep_match_param (map (fun xy => fst xy ++ lit_eq ++ snd xy) reqs)
  | PPhysPath val => pfx_physical_path ++ repr_tuple val
  | PIsAuth v => pfx_is_authenticated ++ bool_text v
  | PCustom i => pfx_custom ++ dec i
  | PThird _ ph => ph
  | PNot q => let h := pred_phash q in if nonempty h then not_mark ++ h else h
  end.

(* ------------------------------------------------------------------ *)
(* the abstract request: what the predicates and the lookup read.  Fields marked
   (oracle) are computed by the harness with WebOb / re / zope.interface. *)

Record request := mkReq {
  q_method : text;
  q_params : list (text * text);          (* (oracle) request.params.get(k) for the keys present *)
  q_headers : list (text * text);         (* (oracle) request.headers.get(name), by the name as written in the predicate *)
  q_xhr : bool;
  q_matchdict : option (list (text * text));   (* str-valued entries only *)
  q_auth : bool;
  q_upath : text;
  q_lineage : list (text * list N);       (* context first: __name__ or '', ids of classes/interfaces the location is/provides (oracle) *)
  q_has_name : bool;                      (* context has a __name__ attribute *)
  q_regex : list (text * (text * bool));  (* (oracle) pattern, subject, re.compile(pattern).match(subject) is not None *)
  q_accept_q : list (text * N);           (* (oracle) quality*1000 of an offer under request.accept; absent = not acceptable *)
  q_truth : list N;                       (* ids of custom / third-party predicates returning true for this request *)
  q_req_sro : list N;                     (* (oracle) request_iface.__sro__ *)
  q_ctx_sro : list N;                     (* (oracle) providedBy(context).__sro__ *)
  q_view_name : text
}.

Fixpoint regex_match (tbl : list (text * (text * bool))) (p s : text) : bool :=
  match tbl with
  | [] => false
  | (p', (s', b)) :: r => if text_eqb p p' && text_eqb s s' then b else regex_match r p s
  end.

Definition opt_text_eqb (a : option text) (b : text) : bool :=
  match a with Some x => text_eqb x b | None => false end.

Definition offer_q (rq : request) (o : text) : N :=
  match assoc o (q_accept_q rq) with Some q => q | None => 0%N end.

Fixpoint eval_pred (rq : request) (p : pred) : bool :=
  match p with
  | PXhr v => Bool.eqb (q_xhr rq) v
  | PMethod vals => mem_text (q_method rq) vals
  | PPathInfo o => regex_match (q_regex rq) o (q_upath rq)
  | PParam reqs =>
      forallb (fun kv => match assoc (fst kv) (q_params rq) with
                         | None => false
                         | Some actual => match snd kv with Some v => text_eqb actual v | None => true end
                         end) reqs
  | PHeader vals =>
      forallb (fun nv => match assoc (fst nv) (q_headers rq) with
                         | None => false
                         | Some value => match snd nv with
                                         | Some pat => regex_match (q_regex rq) pat value
                                         | None => true end
                         end) vals
  | PAccept values => existsb (fun o => N.ltb 0 (offer_q rq o)) values
  | PContainment i _ => existsb (fun loc => memN i (snd loc)) (q_lineage rq)
  | PMatchParam reqs =>
      match q_matchdict rq with
      | None | Some [] => false
      | Some md => forallb (fun kv => opt_text_eqb (assoc (fst kv) md) (snd kv)) reqs
      end
  | PPhysPath val =>
      q_has_name rq &&
      texts_eqb (rev (map fst (q_lineage rq))) val
  | PIsAuth v => Bool.eqb (q_auth rq) v
  | PCustom i => memN i (q_truth rq)
  | PThird i _ => memN i (q_truth rq)
  | PNot q => let r := eval_pred rq q in if nonempty (pred_phash p) then negb r else r
  end.

(* ------------------------------------------------------------------ *)
(* PredicateList.make *)

Definition kwargs := list (text * list (bool * pval)).   (* name -> values; bool = wrapped in not_ *)

Record made := mkMade { m_order : Z; m_preds : list pred; m_phash : text; m_weights : list Z }.

(* for val in vals *)
Fixpoint make_vals (name : text) (n : Z) (vals : list (bool * pval)) (acc : list pred * list Z) :
    option (list pred * list Z) :=
  match vals with
  | [] => Some acc
  | (notted, v) :: r =>
      olet p := factory name v in
      let p := if notted then PNot p else p in
      make_vals name n r (fst acc ++ [p], snd acc ++ [weight n])
  end.

(* for n, (name, predicate_factory) in enumerate(ordered) *)
Fixpoint make_loop (names : list text) (n : Z) (kw : kwargs) (acc : list pred * list Z) :
    option (list pred * list Z) :=
  match names with
  | [] => Some acc
  | name :: r =>
      match assoc name kw with
      | None => make_loop r (n + 1)%Z kw acc
      | Some vals => olet acc' := make_vals name n vals acc in make_loop r (n + 1)%Z kw acc'
      end
  end.

Definition score_of (weights : list Z) : Z := fold_left score_step weights score_init.

(* None = ConfigurationError (unknown predicate name) or a factory rejecting its value *)
Definition make (names : list text) (kw : kwargs) : option made :=
  if forallb (fun e => mem_text (fst e) names) kw then
    olet pw := make_loop names 0%Z kw ([], []) in
    let '(preds, weights) := pw in
    Some (mkMade (order_of (score_of weights) (Z.of_nat (length preds))) preds
                 (concat (map pred_phash preds)) weights)
  else None.

(* ------------------------------------------------------------------ *)
(* registrations, MultiView, the adapter registry *)

Inductive vtype := IView | ISecuredView | IMultiView.
Definition vtype_eqb (a b : vtype) : bool :=
  match a, b with IView, IView | ISecuredView, ISecuredView | IMultiView, IMultiView => true | _, _ => false end.
Definition vtype_of_name (t : text) : option vtype :=
  if text_eqb t nm_IView then Some IView else if text_eqb t nm_ISecuredView then Some ISecuredView
  else if text_eqb t nm_IMultiView then Some IMultiView else None.
Fixpoint vtypes_of (l : list text) : list vtype :=
  match l with [] => [] | t :: r => match vtype_of_name t with Some v => v :: vtypes_of r | None => vtypes_of r end end.
Definition find_view_types := vtypes_of find_view_type_names.
Definition register_view_types := vtypes_of register_view_type_names.
Definition unregister_view_types := vtypes_of unregister_view_type_names.
(* view types unregistered before a single view is (re)registered: [] in the text before the
   repair of C03-override-keeps-old-iface, (IView, ISecuredView) after it *)
Definition override_unregister_types := vtypes_of override_unregister_view_type_names.

Record slot := mkSlot { s_cls : N; s_req : N; s_ctx : N; s_name : text }.
Definition slot_eqb (a b : slot) : bool :=
  N.eqb (s_cls a) (s_cls b) && N.eqb (s_req a) (s_req b) && N.eqb (s_ctx a) (s_ctx b)
  && text_eqb (s_name a) (s_name b).

(* an offer as normalised by Accept.parse_offer (oracle): full text, type/subtype, has params *)
Record offer := mkOffer { o_full : text; o_base : text; o_params : bool }.

(* one derived view callable handed to register_view, with the slot it is registered in *)
Record reg := mkReg {
  r_slot : slot;
  r_tag : N;                 (* identity of the view body *)
  r_preds : list pred;
  r_order : Z;
  r_phash : text;
  r_accept : option offer;
  r_secured : bool           (* has __call_permissive__ *)
}.

(* attr_wrapped_view: the attributes exist only on a wrapped view *)
Definition attr_wrapped (r : reg) : bool :=
  negb (match r_accept r with None => true | Some _ => false end
        && Z.eqb (r_order r) max_order && text_eqb (r_phash r) default_phash).
Definition attr_phash (r : reg) : text := if attr_wrapped r then r_phash r else default_phash.
Definition attr_order (r : reg) : Z := if attr_wrapped r then r_order r else max_order.
Definition attr_accept (r : reg) : option offer := if attr_wrapped r then r_accept r else None.

Definition entry := (Z * reg * text)%type.          (* (order, view, phash) *)
Definition e_order (e : entry) : Z := fst (fst e).
Definition e_view (e : entry) : reg := snd (fst e).
Definition e_phash (e : entry) : text := snd e.
Definition entry_leb (a b : entry) : bool := Z.leb (e_order a) (e_order b).

Record mview := mkMV {
  mv_views : list entry;
  mv_media : list (text * list entry);     (* dict: offer -> subset *)
  mv_accepts : list offer
}.
Definition mv_empty : mview := mkMV [] [] [].

(* for i, (s, v, h) in enumerate(list(l)): if phash == h: l[i] = new; return *)
Fixpoint replace_phash (ph : text) (new : entry) (l : list entry) : option (list entry) :=
  match l with
  | [] => None
  | e :: r => if text_eqb ph (e_phash e) then Some (new :: r)
              else match replace_phash ph new r with Some r' => Some (e :: r') | None => None end
  end.

Fixpoint media_set (k : text) (v : list entry) (m : list (text * list entry)) : list (text * list entry) :=
  match m with
  | [] => [(k, v)]
  | (k', v') :: r => if text_eqb k k' then (k, v) :: r else (k', v') :: media_set k v r
  end.

(* sort_accept_offers(offers, order) *)
Definition offer_key (order : list text) (maxw : Z) (o : offer) : Z * Z :=
  (match index_of (o_base o) order 0%Z with Some i => i | None => maxw end,
   if o_params o then match index_of (o_full o) order 0%Z with Some i => i | None => maxw end
   else (maxw + 1)%Z).
Definition key_leb (a b : Z * Z) : bool :=
  Z.ltb (fst a) (fst b) || (Z.eqb (fst a) (fst b) && Z.leb (snd a) (snd b)).
Definition sort_accept_offers (offers : list offer) (order : list text) : list offer :=
  let maxw := Z.of_nat (length offers) in
  isort (fun a b => key_leb (offer_key order maxw a) (offer_key order maxw b)) offers.

Definition offer_mem (o : offer) (l : list offer) : bool :=
  existsb (fun x => text_eqb (o_full x) (o_full o)) l.

(* MultiView.add(view, order, phash, accept, accept_order) *)
Definition mv_add (m : mview) (v : reg) (order : Z) (phash : text) (accept : option offer)
                  (accept_order : option (list text)) : mview :=
  let new : entry := (order, v, phash) in
  match replace_phash phash new (mv_views m) with     (* phash is never None here *)
  | Some views' => mkMV views' (mv_media m) (mv_accepts m)
  | None =>
      match accept with
      | None => mkMV (isort entry_leb (mv_views m ++ [new])) (mv_media m) (mv_accepts m)
      | Some a =>
          let subset := match assoc (o_full a) (mv_media m) with Some s => s | None => [] end in
          match replace_phash phash new subset with
          | Some subset' => mkMV (mv_views m) (media_set (o_full a) subset' (mv_media m)) (mv_accepts m)
          | None =>
              let subset' := isort entry_leb (subset ++ [new]) in
              let accepts := if offer_mem a (mv_accepts m) then mv_accepts m else mv_accepts m ++ [a] in
              mkMV (mv_views m) (media_set (o_full a) subset' (mv_media m))
                   (sort_accept_offers accepts (match accept_order with Some o => o | None => [] end))
          end
      end
  end.

(* request.accept.acceptable_offers(offers): offers of positive quality, best first, ties in offer order *)
Definition acceptable_offers (rq : request) (offers : list offer) : list offer :=
  isort (fun a b => N.leb (offer_q rq (o_full b)) (offer_q rq (o_full a)))
        (filter (fun o => N.ltb 0 (offer_q rq (o_full o))) offers).

(* MultiView.get_views *)
Definition get_views (m : mview) (rq : request) : list entry :=
  match mv_accepts m with
  | [] => mv_views m
  | _ => flat_map (fun o => match assoc (o_full o) (mv_media m) with Some s => s | None => [] end)
                  (acceptable_offers rq (mv_accepts m))
         ++ mv_views m
  end.

Inductive component := CView (v : reg) | CMulti (m : mview).

(* registry.adapters restricted to views: exact (classifier, request iface, context iface), provided, name *)
Definition registry := slot -> vtype -> option component.
Definition reg_empty : registry := fun _ _ => None.
Definition reg_set (R : registry) (s : slot) (vt : vtype) (c : option component) : registry :=
  fun s' vt' => if slot_eqb s s' && vtype_eqb vt vt' then c else R s' vt'.

Definition unregister_all (R : registry) (s : slot) (vts : list vtype) : registry :=
  fold_left (fun R vt => reg_set R s vt None) vts R.

Fixpoint first_registered (R : registry) (s : slot) (vts : list vtype) : option component :=
  match vts with
  | [] => None
  | vt :: r => match R s vt with Some c => Some c | None => first_registered R s r end
  end.

(* add_view.register_view(classifier, request_iface, derived_view) *)
Definition register_view (accept_order : list text) (R : registry) (v : reg) : registry :=
  let s := r_slot v in
  let old := first_registered R s register_view_types in
  let old_phash := match old with Some (CView o) => attr_phash o | _ => default_phash end in
  let is_multiview := match old with Some (CMulti _) => true | _ => false end in
  let want_multiview :=
    is_multiview || (match old with Some _ => true | None => false end && negb (text_eqb old_phash (r_phash v))) in
  if negb want_multiview then
    reg_set (unregister_all R s override_unregister_types) s
            (if r_secured v then ISecuredView else IView) (Some (CView v))
  else
    let multiview :=
      match old with
      | Some (CMulti m) => m
      | Some (CView o) => mv_add mv_empty o (attr_order o) old_phash (attr_accept o) None
      | None => mv_empty       (* unreachable: want_multiview implies old is not None *)
      end in
    let multiview := mv_add multiview v (r_order v) (r_phash v) (r_accept v) (Some accept_order) in
    reg_set (unregister_all R s unregister_view_types) s IMultiView (Some (CMulti multiview)).

Definition register_all (accept_order : list text) (regs : list reg) : registry :=
  fold_left (register_view accept_order) regs reg_empty.

(* ------------------------------------------------------------------ *)
(* _find_views (the cache is C15's), predicated_view, MultiView.__call__, _call_view *)

Definition find_views (R : registry) (cls : N) (req_sro ctx_sro : list N) (name : text) : list component :=
  flat_map (fun rc =>
              flat_map (fun vt => match R (mkSlot cls (fst rc) (snd rc) name) vt with
                                  | Some c => [c] | None => [] end) find_view_types)
           (list_prod req_sro ctx_sro).

Definition qualifies (rq : request) (v : reg) : bool := forallb (eval_pred rq) (r_preds v).

(* Some tag = the body ran; None = PredicateMismatch *)
Definition call_reg (rq : request) (v : reg) : option N :=
  if qualifies rq v then Some (r_tag v) else None.

Fixpoint mv_call (rq : request) (l : list entry) : option N :=
  match l with
  | [] => None
  | e :: r => match call_reg rq (e_view e) with Some t => Some t | None => mv_call rq r end
  end.

Definition call_component (rq : request) (c : component) : option N :=
  match c with CView v => call_reg rq v | CMulti m => mv_call rq (get_views m rq) end.

Inductive result := Ran (tag : N) | NotFoundPme | NotFoundNone.

Fixpoint call_loop (rq : request) (l : list component) (pme : bool) : result :=
  match l with
  | [] => if pme then NotFoundPme else NotFoundNone
  | c :: r => match call_component rq c with Some t => Ran t | None => call_loop rq r true end
  end.

Definition view_classifier : N := 0%N.       (* IViewClassifier; 1 = IExceptionViewClassifier (C14) *)

Definition call_view (R : registry) (cls : N) (rq : request) : result :=
  call_loop rq (find_views R cls (q_req_sro rq) (q_ctx_sro rq) (q_view_name rq)) false.

(* ------------------------------------------------------------------ *)
(* add_view: predicates are made, then the derived view is registered *)

Record view_args := mkArgs {
  a_req : N;                 (* IRequest or the route's request interface *)
  a_ctx : N;
  a_name : text;
  a_kw : kwargs;             (* predicate keyword arguments other than accept *)
  a_accept : option offer;
  a_secured : bool;
  a_tag : N
}.

Definition args_kw (a : view_args) : kwargs :=
  match a_accept a with
  | Some o => a_kw a ++ [(nm_accept, [(false, VText (o_full o))])]
  | None => a_kw a
  end.

Definition reg_of_args (names : list text) (cls : N) (a : view_args) : option reg :=
  olet m := make names (args_kw a) in
  Some (mkReg (mkSlot cls (a_req a) (a_ctx a) (a_name a)) (a_tag a) (m_preds m) (m_order m) (m_phash m)
              (a_accept a) (a_secured a)).

(* ------------------------------------------------------------------ *)
(* declarative specification: the property's wording.
   Candidates: registrations of the looked-up classifier and view name whose request and
   context interfaces occur in the two resolution orders and whose predicates all hold.
   [more_specific a b]: a is strictly preferred to b -- earlier request interface (route-bound
   before global), else earlier context interface, else same slot and more predicates. *)

(* the first occurrence of a in l comes strictly before the first occurrence of b (both occur) *)
Fixpoint precedes (l : list N) (a b : N) : bool :=
  match l with
  | [] => false
  | x :: r => if N.eqb x a then negb (N.eqb x b) && memN b r
              else if N.eqb x b then false else precedes r a b
  end.

Definition candidate (cls : N) (rq : request) (v : reg) : bool :=
  N.eqb (s_cls (r_slot v)) cls && text_eqb (s_name (r_slot v)) (q_view_name rq)
  && memN (s_req (r_slot v)) (q_req_sro rq) && memN (s_ctx (r_slot v)) (q_ctx_sro rq)
  && qualifies rq v.

Definition n_preds (v : reg) : nat := length (r_preds v).

Definition more_specific (rq : request) (a b : reg) : bool :=
  precedes (q_req_sro rq) (s_req (r_slot a)) (s_req (r_slot b))
  || (N.eqb (s_req (r_slot a)) (s_req (r_slot b))
      && precedes (q_ctx_sro rq) (s_ctx (r_slot a)) (s_ctx (r_slot b)))
  || (slot_eqb (r_slot a) (r_slot b) && Nat.ltb (n_preds b) (n_preds a)).

(* the registrations the property allows to run: qualifying candidates that no qualifying
   candidate is strictly more specific than.  Empty = the Not Found view must run. *)
Definition winners_by (ms : reg -> reg -> bool) (cls : N) (regs : list reg) (rq : request) : list reg :=
  let cands := filter (candidate cls rq) regs in
  filter (fun v => negb (existsb (fun w => ms w v) cands)) cands.

Definition ok_by (ms : reg -> reg -> bool) (cls : N) (regs : list reg) (rq : request) (res : result) : bool :=
  match res with
  | Ran t => existsb (fun v => N.eqb (r_tag v) t) (winners_by ms cls regs rq)
  | _ => match winners_by ms cls regs rq with [] => true | _ => false end
  end.

(* a later registration for the same slot with the same predicates replaces the earlier one *)
Definition same_registration (a b : reg) : bool :=
  slot_eqb (r_slot a) (r_slot b)
  && texts_eqb (map pred_phash (r_preds a)) (map pred_phash (r_preds b)).
Fixpoint effective (l : list reg) : list reg :=
  match l with
  | [] => []
  | v :: r => if existsb (same_registration v) r then effective r else v :: effective r
  end.

Definition spec_winners (cls : N) (regs : list reg) (rq : request) : list reg :=
  winners_by (more_specific rq) cls (effective regs) rq.
Definition spec_ok (cls : N) (regs : list reg) (rq : request) (res : result) : bool :=
  ok_by (more_specific rq) cls (effective regs) rq res.

(* the same order with the one amendment the code makes (deviation C03-accept-first): inside a
   slot, a view registered with accept= whose offer the request accepts is tried before every
   view without accept=, offers in the request's order of preference; the number of predicates
   decides only between views of the same offer (or both without) *)
Definition slot_offers (regs : list reg) (s : slot) : list offer :=
  fold_left (fun acc v => match r_accept v with
                          | Some o => if slot_eqb (r_slot v) s && negb (offer_mem o acc) then acc ++ [o] else acc
                          | None => acc
                          end) regs [].
Fixpoint pos_text (x : text) (l : list text) (i : nat) : option nat :=
  match l with [] => None | y :: r => if text_eqb x y then Some i else pos_text x r (S i) end.
Definition media_pos (rq : request) (regs : list reg) (v : reg) : option nat :=
  match r_accept v with
  | None => None
  | Some o => pos_text (o_full o)
                (map o_full (acceptable_offers rq (sort_accept_offers (slot_offers regs (r_slot v))
                                                                      accept_order_default))) 0
  end.
Definition more_specific_media (rq : request) (regs : list reg) (a b : reg) : bool :=
  precedes (q_req_sro rq) (s_req (r_slot a)) (s_req (r_slot b))
  || (N.eqb (s_req (r_slot a)) (s_req (r_slot b))
      && precedes (q_ctx_sro rq) (s_ctx (r_slot a)) (s_ctx (r_slot b)))
  || (slot_eqb (r_slot a) (r_slot b) &&
      match media_pos rq regs a, media_pos rq regs b with
      | Some i, Some j => Nat.ltb i j || (Nat.eqb i j && Nat.ltb (n_preds b) (n_preds a))
      | Some _, None => true
      | None, Some _ => false
      | None, None => Nat.ltb (n_preds b) (n_preds a)
      end).
Definition winners_media (cls : N) (regs : list reg) (rq : request) : list reg :=
  winners_by (more_specific_media rq regs) cls regs rq.

(* ------------------------------------------------------------------ *)
(* wire glue *)

Definition get_pval (v : val) : option pval :=
  match v with
  | VL [VI 0%Z; VI b] => Some (VBool (negb (Z.eqb b 0)))
  | VL [VI 1%Z; VT t] => Some (VText t)
  | VL [VI 2%Z; l] => olet ts := get_texts l in Some (VTexts ts)
  | VL [VI 3%Z; VI i; VT s] => Some (VObj (Z.to_N i) s)
  | VL [VI 4%Z; VI i; VT s] => Some (VThird (Z.to_N i) s)
  | _ => None
  end.
Definition get_nval (v : val) : option (bool * pval) :=
  match v with VL [n; p] => olet n := get_bool n in olet p := get_pval p in Some (n, p) | _ => None end.
Definition get_kw (v : val) : option kwargs :=
  get_list_of (fun e => match e with
                        | VL [VT k; vs] => olet vs := get_list_of get_nval vs in Some (k, vs)
                        | _ => None end) v.
Definition get_offer (v : val) : option offer :=
  match v with VL [VT f; VT b; p] => olet p := get_bool p in Some (mkOffer f b p) | _ => None end.
Definition get_args (v : val) : option view_args :=
  match v with
  | VL [rq; cx; VT nm; kw; acc; sec; tg] =>
      olet rq := get_N rq in olet cx := get_N cx in olet kw := get_kw kw in
      olet acc := get_opt get_offer acc in olet sec := get_bool sec in olet tg := get_N tg in
      Some (mkArgs rq cx nm kw acc sec tg)
  | _ => None
  end.
Definition get_pair (v : val) : option (text * text) :=
  match v with VL [VT a; VT b] => Some (a, b) | _ => None end.
Definition get_Ns := get_list_of get_N.
Definition get_request (v : val) : option request :=
  match v with
  | VL [VT meth; params; headers; xhr; md; auth; VT upath; lin; hasname; rx; accq; truth; rsro; csro; VT vn] =>
      olet params := get_list_of get_pair params in
      olet headers := get_list_of get_pair headers in
      olet xhr := get_bool xhr in
      olet md := get_opt (get_list_of get_pair) md in
      olet auth := get_bool auth in
      olet lin := get_list_of (fun e => match e with
                                        | VL [VT n; ids] => olet ids := get_Ns ids in Some (n, ids)
                                        | _ => None end) lin in
      olet hasname := get_bool hasname in
      olet rx := get_list_of (fun e => match e with
                                       | VL [VT p; VT s; b] => olet b := get_bool b in Some (p, (s, b))
                                       | _ => None end) rx in
      olet accq := get_list_of (fun e => match e with
                                         | VL [VT o; q] => olet q := get_N q in Some (o, q)
                                         | _ => None end) accq in
      olet truth := get_Ns truth in olet rsro := get_Ns rsro in olet csro := get_Ns csro in
      Some (mkReq meth params headers xhr md auth upath lin hasname rx accq truth rsro csro vn)
  | _ => None
  end.

Definition put_result (r : result) : val :=
  match r with Ran t => VL [VI 1; vN t] | NotFoundPme => VL [VI 0; VI 1] | NotFoundNone => VL [VI 0; VI 0] end.

(* add_view over the argument list; a failing make (ConfigurationError) registers nothing *)
Fixpoint regs_of (names : list text) (l : list view_args) : list (option reg) :=
  match l with [] => [] | a :: r => reg_of_args names view_classifier a :: regs_of names r end.
Fixpoint somes {A} (l : list (option A)) : list A :=
  match l with [] => [] | Some x :: r => x :: somes r | None :: r => somes r end.

(* index of the first registration with the same phash (digest equality classes) *)
Fixpoint phash_class (ph : text) (l : list (option reg)) (i : Z) : Z :=
  match l with
  | [] => i
  | Some r :: t => if text_eqb (r_phash r) ph then i else phash_class ph t (i + 1)%Z
  | None :: t => phash_class ph t (i + 1)%Z
  end.

Definition put_made (all : list (option reg)) (o : option reg) : val :=
  match o with
  | None => VL []
  | Some r => VL [VI (r_order r); VI (phash_class (r_phash r) all 0%Z); vnat (n_preds r)]
  end.

Definition put_tags (l : list reg) : val := VL (map (fun w => vN (r_tag w)) l).

(* registrations not overwritten by a later one with the same slot and phash *)
Fixpoint live_regs (l : list reg) : list reg :=
  match l with
  | [] => []
  | v :: r => if existsb (fun w => slot_eqb (r_slot w) (r_slot v) && text_eqb (r_phash w) (r_phash v)) r
              then live_regs r else v :: live_regs r
  end.

(* case = [extra predicate names; [view_args ...]; [request ...]]
   answer = [[made ...]; [[result; spec winners (tags); winners with the accept amendment;
   the same after dropping registrations overwritten by a later one of equal (slot, phash);
   the same over all registrations, overridden ones included; spec_ok of the model's result] per request]] *)
Definition run_C03 (v : val) : val :=
  ret_or_bad (
    match v with
    | VL [extra; views; reqs] =>
        olet extra := get_texts extra in
        olet views := get_list_of get_args views in
        olet reqs := get_list_of get_request reqs in
        let names := pred_names ++ extra in
        let oregs := regs_of names views in
        let regs := somes oregs in
        let R := register_all accept_order_default regs in
        Some (VL [VL (map (put_made oregs) oregs);
                  VL (map (fun rq =>
                             let res := call_view R view_classifier rq in
                             VL [put_result res;
                                 put_tags (spec_winners view_classifier regs rq);
                                 put_tags (winners_media view_classifier (effective regs) rq);
                                 put_tags (winners_media view_classifier (live_regs regs) rq);
                                 put_tags (winners_media view_classifier regs rq);
                                 vbool (spec_ok view_classifier regs rq res)]) reqs)])
    | _ => None
    end).

(* the same with a history: each request is [after; request] and is answered from the first
   [after] add_view calls only (the model has no lookup cache; C15 owns it) *)
Definition run_C03i (v : val) : val :=
  ret_or_bad (
    match v with
    | VL [extra; views; reqs] =>
        olet extra := get_texts extra in
        olet views := get_list_of get_args views in
        olet reqs := get_list_of (fun e => match e with
                                           | VL [VI k; r] => olet r := get_request r in Some (Z.to_nat k, r)
                                           | _ => None end) reqs in
        let names := pred_names ++ extra in
        let oregs := regs_of names views in
        Some (VL [VL (map (put_made oregs) oregs);
                  VL (map (fun krq =>
                             let rq := snd krq in
                             let regs := somes (firstn (fst krq) oregs) in
                             let R := register_all accept_order_default regs in
                             let res := call_view R view_classifier rq in
                             VL [put_result res;
                                 put_tags (spec_winners view_classifier regs rq);
                                 put_tags (winners_media view_classifier (effective regs) rq);
                                 put_tags (winners_media view_classifier (live_regs regs) rq);
                                 put_tags (winners_media view_classifier regs rq);
                                 vbool (spec_ok view_classifier regs rq res)]) reqs)])
    | _ => None
    end).
