(* C03 -- wire glue of the runner: every request is answered by the lookup REGENERATED from the
   source on this run (Gen/Facts_C03_gen.v: gen_call_view and everything it calls) and, next to
   it, by the hand-written reference model.  Executable definitions only. *)
From Coq Require Import List NArith ZArith Bool.
Import ListNotations.
Require Import Verif.Lib.Wire Verif.Gen.Facts_C03 Verif.Model.C03 Verif.Gen.Facts_C03_gen.

Definition put_gen_made (all : list (option reg)) (names : list text) (a : view_args) : val :=
  match gen_make names (args_kw a) with
  | None => VL []
  | Some (o, ps, ph) => VL [VI o; VI (phash_class ph all 0%Z); vnat (length ps)]
  end.

(* answer = [[made by the regenerated make ...]; [made by the reference ...];
             [[regenerated result; winners x4; spec_ok; reference result] per request]] *)
Definition run_C03g (v : val) : val :=
  ret_or_bad (
    match v with
    | VL [extra; views; reqs] =>
        olet extra := get_texts extra in
        olet views := get_list_of get_args views in
        olet reqs := get_list_of (fun e => match e with
                                           | VL [VI k; r] => olet r := get_request r in Some (Z.to_nat k, r)
                                           | _ => None end) reqs in
        let names := pred_names ++ extra in
        let oregs := regs_of names views in
        Some (VL [VL (map (put_gen_made oregs names) views);
                  VL (map (put_made oregs) oregs);
                  VL (map (fun krq =>
                             let rq := snd krq in
                             let regs := somes (firstn (fst krq) oregs) in
                             let R := register_all accept_order_default regs in
                             let res := gen_call_view R view_classifier rq in
                             VL [put_result res;
                                 put_tags (spec_winners view_classifier regs rq);
                                 put_tags (winners_media view_classifier (effective regs) rq);
                                 put_tags (winners_media view_classifier (live_regs regs) rq);
                                 put_tags (winners_media view_classifier regs rq);
                                 vbool (spec_ok view_classifier regs rq res);
                                 put_result (call_view R view_classifier rq)]) reqs)])
    | _ => None
    end).
