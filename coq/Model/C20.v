(* C20 -- Introspector / Introspectable (src/pyramid/registry.py) as a state
   machine, the registration step of execute_actions, and the regenerated
   directive tables (Gen/Facts_C20.v).  Executable definitions only. *)
From Coq Require Import List NArith ZArith Bool.
Import ListNotations.
Require Import Verif.Lib.Wire Verif.Lib.C20Types.
Require Export Verif.Model.C20_base.
Require Import Verif.Gen.Facts_C20.
Require Verif.Model.C04.

(* ---- Introspector methods *)
Definition cat_of (s : st) (c : text) : list entry :=
  match assoc c (cats s) with Some l => l | None => [] end.

(* add: category[discriminator] = intr; intr.order = counter; counter += 1
   (the second key, discriminator_hash, is not modelled: see assumptions) *)
Definition add (s : st) (i : intr) : st :=
  mkSt (assoc_set (icat i) (assoc_set (idisc i) (i, counter s) (cat_of s (icat i))) (cats s))
       (refs s) (counter s + 1).

(* get uses setdefault: an unknown category is created empty *)
Definition get (s : st) (c d : text) : st * option intr :=
  let s' := match assoc c (cats s) with
            | Some _ => s
            | None => mkSt (assoc_set c [] (cats s)) (refs s) (counter s)
            end in
  (s', match assoc d (cat_of s c) with Some (i, _) => Some i | None => None end).

Definition lookup (s : st) (c d : text) : option intr :=
  match assoc d (cat_of s c) with Some (i, _) => Some i | None => None end.

Definition related (s : st) (i : intr) : res (list intr) :=
  match lookup s (icat i) (idisc i) with
  | None => Err KeyError
  | Some j => Ok (match refs_get j (refs s) with Some l => l | None => [] end)
  end.

(* get_category: None when the category does not exist, else the objects sorted by order *)
Definition get_category (s : st) (c : text) : option (list (intr * N)) :=
  match assoc c (cats s) with
  | None => None
  | Some l => Some (sort_by_order (map snd l))
  end.

(* get_category with the `related` list of every row (what the method really returns); the
   correspondence run observes only the objects and their order *)
Fixpoint related_rows (s : st) (l : list (intr * N)) : res (list ((intr * N) * list intr)) :=
  match l with
  | [] => Ok []
  | x :: r => match related s (fst x) with
              | Err e => Err e
              | Ok rl => match related_rows s r with Ok t => Ok ((x, rl) :: t) | Err e => Err e end
              end
  end.
Definition get_category_rows (s : st) (c : text) : res (option (list ((intr * N) * list intr))) :=
  match get_category s c with
  | None => Ok None
  | Some l => match related_rows s l with Ok r => Ok (Some r) | Err e => Err e end
  end.
Definition categories (s : st) : list text := sorted_texts (map fst (cats s)).

Fixpoint intrs_by_pairs (s : st) (pairs : list (text * text)) : res (list intr) :=
  match pairs with
  | [] => Ok []
  | (c, d) :: r =>
      match lookup s c d with
      | None => Err KeyError
      | Some i => match intrs_by_pairs s r with Ok l => Ok (i :: l) | Err e => Err e end
      end
  end.

(* for x, y in product: L = refs.setdefault(x, []); if x is not y and y not in L: L.append(y) *)
Definition relate1 (rf : list (intr * list intr)) (xy : intr * intr) : list (intr * list intr) :=
  let '(x, y) := xy in
  let L := match refs_get x rf with Some l => l | None => [] end in
  let L' := if negb (N.eqb (iid x) (iid y)) && negb (mem_intr y L) then L ++ [y] else L in
  refs_set x L' rf.
Definition unrelate1 (rf : list (intr * list intr)) (xy : intr * intr) : list (intr * list intr) :=
  let '(x, y) := xy in
  match refs_get x rf with
  | None => rf
  | Some L => match remove_first y L with Some L' => refs_set x L' rf | None => rf end
  end.

Definition product (l : list intr) : list (intr * intr) :=
  flat_map (fun x => map (fun y => (x, y)) l) l.

Definition relate (s : st) (pairs : list (text * text)) : res st :=
  match intrs_by_pairs s pairs with
  | Err e => Err e
  | Ok l => Ok (mkSt (cats s) (fold_left relate1 (product l) (refs s)) (counter s))
  end.
Definition unrelate (s : st) (pairs : list (text * text)) : res st :=
  match intrs_by_pairs s pairs with
  | Err e => Err e
  | Ok l => Ok (mkSt (cats s) (fold_left unrelate1 (product l) (refs s)) (counter s))
  end.

(* remove: L = _refs.pop(intr, []); for d in L: _refs[d].remove(intr); del category[...] *)
Fixpoint remove_backrefs (i : intr) (L : list intr) (rf : list (intr * list intr))
  : list (intr * list intr) * option err :=
  match L with
  | [] => (rf, None)
  | d :: r =>
      match refs_get d rf with
      | None => (rf, Some KeyError)
      | Some L2 => match remove_first i L2 with
                   | None => (rf, Some ValueError)
                   | Some L2' => remove_backrefs i r (refs_set d L2' rf)
                   end
      end
  end.

(* returns the state reached (also when an exception escapes part-way) *)
Definition remove (s : st) (c d : text) : st * option err :=
  let '(s1, o) := get s c d in
  match o with
  | None => (s1, None)
  | Some i =>
      let L := match refs_get i (refs s1) with Some l => l | None => [] end in
      match remove_backrefs i L (refs_del i (refs s1)) with
      | (rf, Some e) => (mkSt (cats s1) rf (counter s1), Some e)
      | (rf, None) => (mkSt (assoc_set (icat i) (assoc_del (idisc i) (cat_of s1 (icat i))) (cats s1))
                            rf (counter s1), None)
      end
  end.

(* Introspectable.register: add, then replay the recorded relations *)
Fixpoint replay (s : st) (i : intr) (rs : list relop) : st * option err :=
  match rs with
  | [] => (s, None)
  | Rel c d :: r =>
      match relate s [(icat i, idisc i); (c, d)] with Ok s' => replay s' i r | Err e => (s, Some e) end
  | Unrel c d :: r =>
      match unrelate s [(icat i, idisc i); (c, d)] with Ok s' => replay s' i r | Err e => (s, Some e) end
  end.
Definition register (s : st) (i : intr) (rs : list relop) : st * option err := replay (add s i) i rs.

(* the registration step of execute_actions / action(): the introspectables of
   the EXECUTED actions are registered in execution order; with introspection
   disabled action() replaced them by () beforehand *)
Fixpoint register_all (s : st) (l : list (intr * list relop)) : res st :=
  match l with
  | [] => Ok s
  | (i, rs) :: r => match register s i rs with (s', None) => register_all s' r | (_, Some e) => Err e end
  end.
Definition commit_register (introspection : bool) (s : st) (executed : list (list (intr * list relop))) : res st :=
  if introspection then register_all s (concat executed) else Ok s.

(* ---- composed with the C04 commit model: execute_actions registers the
   introspectables of an action right after its callable ran, so what is
   registered follows the Run events of the commit log, whatever the final
   outcome (done, conflict, refusal) *)
Definition run_ids (evs : list C04.event) : list N :=
  flat_map (fun e => match e with C04.Run a => [a] | C04.Force _ => [] end) evs.
Definition commit_and_register (introspection : bool) (acts : list C04.action)
           (intrs_of : N -> list (intr * list relop)) : res st :=
  commit_register introspection init (map intrs_of (run_ids (snd (C04.commit acts)))).

(* ---- operations of the correspondence run *)
Inductive op :=
| OAdd (i : intr) | OGet (c d : text) | OCategory (c : text) | ORelate (ps : list (text * text))
| OUnrelate (ps : list (text * text)) | ORemove (c d : text) | ORelated (i : intr)
| ORegister (i : intr) (rs : list relop) | OCategories.

Definition put_err (e : err) : val := match e with KeyError => VL [VT [75]%N] | ValueError => VL [VT [86]%N] end.
Definition put_intrs (l : list intr) : val := VL (map (fun i => vN (iid i)) l).

Definition step (s : st) (o : op) : st * val :=
  match o with
  | OAdd i => (add s i, VL [])
  | OGet c d => let '(s', r) := get s c d in (s', vopt (fun i => vN (iid i)) r)
  | OCategory c => (s, vopt (fun l => VL (map (fun e => VL [vN (iid (fst e)); vN (snd e)]) l)) (get_category s c))
  | ORelate ps => match relate s ps with Ok s' => (s', VL []) | Err e => (s, put_err e) end
  | OUnrelate ps => match unrelate s ps with Ok s' => (s', VL []) | Err e => (s, put_err e) end
  | ORemove c d => match remove s c d with (s', None) => (s', VL []) | (s', Some e) => (s', put_err e) end
  | ORelated i => (s, match related s i with Ok l => put_intrs l | Err e => put_err e end)
  | ORegister i rs => match register s i rs with (s', None) => (s', VL []) | (s', Some e) => (s', put_err e) end
  | OCategories => (s, vtexts (categories s))
  end.

Fixpoint run_ops (s : st) (ops : list op) : list val :=
  match ops with
  | [] => []
  | o :: r => let '(s', v) := step s o in v :: run_ops s' r
  end.

(* ---- the same operations run by the program REGENERATED from the source (Gen/Facts_C20.v);
   this is what the correspondence run compares with the real Introspector *)
Definition put_unit (r : res unit) : val := match r with Ok _ => VL [] | Err e => put_err e end.
Definition gen_step (s : st) (o : op) : st * val :=
  match o with
  | OAdd i => let '(s', r) := gen_add s i in (s', put_unit r)
  | OGet c d => let '(s', r) := gen_get s c d in
                (s', match r with Ok v => vopt (fun i => vN (iid i)) v | Err e => put_err e end)
  | OCategory c => let '(s', r) := gen_get_category s c in
                   (s', match r with
                        | Ok v => vopt (fun l => VL (map (fun row => VL [vN (iid (fst (fst row))); vN (snd (fst row))]) l)) v
                        | Err e => put_err e end)
  | ORelate ps => let '(s', r) := gen_relate s ps in (s', put_unit r)
  | OUnrelate ps => let '(s', r) := gen_unrelate s ps in (s', put_unit r)
  | ORemove c d => let '(s', r) := gen_remove s c d in (s', put_unit r)
  | ORelated i => let '(s', r) := gen_related s i in
                  (s', match r with Ok l => put_intrs l | Err e => put_err e end)
  | ORegister i rs => let '(s', r) := gen_register s i rs in (s', put_unit r)
  | OCategories => let '(s', r) := gen_categories s in
                   (s', match r with Ok l => vtexts l | Err e => put_err e end)
  end.
Fixpoint gen_run_ops (s : st) (ops : list op) : list val :=
  match ops with
  | [] => []
  | o :: r => let '(s', v) := gen_step s o in v :: gen_run_ops s' r
  end.

(* ---- declarative reading of the relation graph (the property's wording):
   after registering, x and y are linked iff some recorded (and not later
   withdrawn) relation names the pair, in either direction *)
Definition linked (s : st) (x y : intr) : bool :=
  match refs_get x (refs s) with Some l => mem_intr y l | None => false end.

(* ---- regenerated directive tables (Gen/Facts_C20.v):
   site = (directive, variable, category, params, [(key, form)]) with
   form = FArg p | FNorm f p | FConst | FOther *)
Definition root_arg (f : form) : option text :=
  match f with FArg p => Some p | FNorm _ p => Some p | _ => None end.

(* keys documented (docs/narr/introspector.rst) as carrying something else than
   the directive argument of the same name: (directive, key) *)
Definition documented_otherwise : list (text * text) := doc_exceptions.

Definition pair_mem (d k : text) (l : list (text * text)) : bool :=
  existsb (fun p => text_eqb d (fst p) && text_eqb k (snd p)) l.

(* a key that names a parameter of its directive must record that parameter *)
Definition key_ok (s : site) (kf : text * form) : bool :=
  let '(k, f) := kf in
  if mem_text k (s_params s) && negb (pair_mem (s_func s ++ [46%N] ++ s_var s) k documented_otherwise)
  then match root_arg f with Some p => text_eqb p k | None => false end
  else true.
Definition site_ok (s : site) : bool := forallb (key_ok s) (s_keys s).
Definition tables_ok : bool := forallb site_ok sites.

(* every documented (category, key) is recorded by a directive of that category *)
Definition records (c k : text) : bool :=
  existsb (fun s => text_eqb (s_category s) c && existsb (fun kf => text_eqb (fst kf) k) (s_keys s)) sites.
Definition documented_ok : bool :=
  forallb (fun ck => forallb (records (fst ck)) (snd ck)) documented.
Definition undocumented_missing : list (text * text) :=
  flat_map (fun ck => map (fun k => (fst ck, k)) (filter (fun k => negb (records (fst ck) k)) (snd ck))) documented.

(* wiring facts of the directive sites (regenerated): every site's introspectable reaches the introspectables=
   argument of an action, and the site runs under an action method (so the entry points at the statement) *)
Definition wiring_ok : bool := forallb (fun w => fst (snd w) && snd (snd w)) sites_wiring.
Definition wiring_covers : bool :=
  forallb (fun s => existsb (fun w => text_eqb (fst w) (s_func s ++ [46%N] ++ s_var s)) sites_wiring) sites.

(* discriminators (regenerated): every parameter the discriminator of the entry-carrying action depends on also reaches
   the entry's own discriminator -- the entry key determines the conflict key, so two statements that do not conflict
   never share a slot of the introspector *)
Definition disc_row_ok (r : text * (list text * list text)) : bool :=
  forallb (fun p => mem_text p (snd (snd r))) (fst (snd r)).
Definition disc_ok : bool := forallb disc_row_ok sites_disc.
Definition disc_covers : bool :=
  forallb (fun s => existsb (fun r => text_eqb (fst r) (s_func s ++ [46%N] ++ s_var s)) sites_disc) sites.

(* ---- action info (config/actions.py: action_method's wrapper, ActionConfiguratorMixin.action_info; hand model, both
   functions are shape-pinned).  Infos are numbers: 0 = the placeholder ActionInfo(None, 0, '', ''), 10+k = an explicit
   `_info` argument, anything else = what the stack extraction yields for the calling frame (given per call site).
   The stack `_ainfo` grows at the END (append) and the info reported is its FIRST element. *)
Inductive call := Call (given : option N) (body : items) (fails : bool)
with items := INil | IProbe (r : items) | ISub (c : call) (caught : bool) (r : items).

Definition action_info_of (zcml : option N) (stk : list N) : N :=
  match zcml with Some i => i | None => match stk with i :: _ => i | [] => 0%N end end.
Definition info_of (given : option N) (site : N) : N := match given with Some k => (10 + k)%N | None => site end.
Definition site_top : N := 1%N.
Definition site_body : N := 2%N.

(* -> (stack afterwards, (infos seen by the action() calls in order, an exception escapes)) *)
Fixpoint run_call (zc : option N) (stk : list N) (site : N) (c : call) : list N * (list N * bool) :=
  match c with
  | Call given body fails =>
      let '(stk1, (obs, raised)) := run_items zc (stk ++ [info_of given site]) body in
      (removelast stk1, (obs, raised || fails))            (* finally: self._ainfo.pop() *)
  end
with run_items (zc : option N) (stk : list N) (b : items) : list N * (list N * bool) :=
  match b with
  | INil => (stk, ([], false))
  | IProbe r => let '(s', (o, e)) := run_items zc stk r in (s', (action_info_of zc stk :: o, e))
  | ISub c caught r =>
      let '(s1, (o1, e1)) := run_call zc stk site_body c in
      if e1 && negb caught then (s1, (o1, true))
      else let '(s2, (o2, e2)) := run_items zc s1 r in (s2, (o1 ++ o2, e2))
  end.

(* a history of statements on one configurator (an escaping exception is caught by the application) *)
Fixpoint run_statements (zc : option N) (stk : list N) (cs : list call) : list N * list (list N) :=
  match cs with
  | [] => (stk, [])
  | c :: r => let '(s1, (o, _)) := run_call zc stk site_top c in
              let '(s2, os) := run_statements zc s1 r in (s2, o :: os)
  end.

Fixpoint parse_call (fuel : nat) (v : val) : option call :=
  match fuel with
  | O => None
  | S n => match v with
           | VL [g; VL its; VI f] =>
               olet g := get_opt get_N g in olet b := parse_items n its in Some (Call g b (negb (Z.eqb f 0)))
           | _ => None
           end
  end
with parse_items (fuel : nat) (l : list val) : option items :=
  match fuel with
  | O => None
  | S n => match l with
           | [] => Some INil
           | VL [VI 0%Z] :: r => olet r' := parse_items n r in Some (IProbe r')
           | VL [VI 1%Z; c; VI k] :: r =>
               olet c' := parse_call n c in olet r' := parse_items n r in Some (ISub c' (negb (Z.eqb k 0)) r')
           | _ => None
           end
  end.

(* ---- wire glue *)
Definition get_intr (v : val) : option intr :=
  match v with
  | VL [c; d; f; VI z] => olet c := get_text c in olet d := get_text d in olet f := get_text f in
                          Some (mkIntr c d f (Z.to_N z))
  | _ => None
  end.
Definition get_pair (v : val) : option (text * text) :=
  match v with VL [c; d] => olet c := get_text c in olet d := get_text d in Some (c, d) | _ => None end.
Definition get_relop (v : val) : option relop :=
  match v with
  | VL [VI 1%Z; c; d] => olet c := get_text c in olet d := get_text d in Some (Rel c d)
  | VL [VI 0%Z; c; d] => olet c := get_text c in olet d := get_text d in Some (Unrel c d)
  | _ => None
  end.
Definition get_op (v : val) : option op :=
  match v with
  | VL [VI 0%Z; i] => olet i := get_intr i in Some (OAdd i)
  | VL [VI 1%Z; c; d] => olet c := get_text c in olet d := get_text d in Some (OGet c d)
  | VL [VI 2%Z; c] => olet c := get_text c in Some (OCategory c)
  | VL [VI 3%Z; ps] => olet ps := get_list_of get_pair ps in Some (ORelate ps)
  | VL [VI 4%Z; ps] => olet ps := get_list_of get_pair ps in Some (OUnrelate ps)
  | VL [VI 5%Z; c; d] => olet c := get_text c in olet d := get_text d in Some (ORemove c d)
  | VL [VI 6%Z; i] => olet i := get_intr i in Some (ORelated i)
  | VL [VI 7%Z; i; rs] => olet i := get_intr i in olet rs := get_list_of get_relop rs in Some (ORegister i rs)
  | VL [VI 8%Z] => Some OCategories
  | _ => None
  end.

Definition get_action (v : val) : option C04.action :=
  match v with
  | VL [VI a; d; p; VI o] =>
      olet d := get_opt get_N d in olet p := get_texts p in
      Some (C04.mkA (Z.to_N a) (C04.Eager d) p (Some o) [])
  | _ => None
  end.
Definition get_intrs (v : val) : option (N * list (intr * list relop)) :=
  match v with
  | VL [VI a; l] =>
      olet l := get_list_of (fun x => match x with
                                      | VL [i; rs] => olet i := get_intr i in olet rs := get_list_of get_relop rs in Some (i, rs)
                                      | _ => None end) l in
      Some (Z.to_N a, l)
  | _ => None
  end.
Fixpoint assocN {B} (k : N) (l : list (N * B)) : option B :=
  match l with [] => None | (k', v) :: r => if N.eqb k k' then Some v else assocN k r end.
Definition put_outcome (o : C04.outcome) : val :=
  match o with C04.Done => VI 0 | C04.Conflict _ => VI 1 | C04.Late _ _ => VI 2 | _ => VI 3 end.
Definition all_entries (s : st) : val :=
  VL (flat_map (fun c => match get_category s c with
                         | Some l => map (fun e => VL [VT c; VT (idisc (fst e)); VT (ifp (fst e))]) l
                         | None => [] end) (sorted_texts (map fst (cats s)))).

(* case = [0; ops]  -> [per-op results of the regenerated program; per-op results of the reference model]
   case = [1]       -> [tables_ok] *)
Definition run_C20 (v : val) : val :=
  ret_or_bad (
    match v with
    | VL [VI 0%Z; ops] => olet ops := get_list_of get_op ops in
                          Some (VL [VL (gen_run_ops init ops); VL (run_ops init ops)])
    | VL [VI 2%Z; intro; acts; intrs] =>
        olet intro := get_bool intro in olet acts := get_list_of get_action acts in
        olet intrs := get_list_of get_intrs intrs in
        let intrs_of := fun a => match assocN a intrs with Some l => l | None => [] end in
        Some (VL [put_outcome (fst (C04.commit acts));
                  match commit_and_register intro acts intrs_of with
                  | Ok s => all_entries s
                  | Err e => put_err e
                  end])
    | VL [VI 3%Z; VL cs] =>
        olet cs := map_opt (parse_call 200) cs in
        let '(stk, os) := run_statements None [] cs in
        Some (VL [VL (map (fun o => VL (map vN o)) os); vN (action_info_of None stk)])
    | VL [VI 1%Z] => Some (VL [vbool tables_ok; vbool documented_ok;
                           VL (map (fun ck => VL [VT (fst ck); VT (snd ck)]) undocumented_missing)])
    | _ => None
    end).
