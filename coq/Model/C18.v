(* C18 -- TopologicalSorter (src/pyramid/util.py), Tweens (config/tweens.py),
   add_view_deriver/_apply_view_derivers/add_default_view_derivers
   (config/views.py), PredicateList.add (config/predicates.py).
   Executable definitions only; the model follows the code of the repaired
   tree statement by statement.  Exported for reuse (C05): [sorter], [add],
   [remove], [sorted], [deriver_add], [default_derivers], [derivers_sorted]. *)
From Coq Require Import List NArith ZArith Bool.
Import ListNotations.
Require Import Verif.Lib.Wire.
Require Export Verif.Model.C18_base.
Require Import Verif.Gen.Facts_C18.

(* the three sorters the framework creates (constructor arguments are regenerated facts) *)
Definition cfg_plain : cfg := cfg_of_raw cfg_plain_raw.        (* TopologicalSorter(): predicate lists *)
Definition cfg_tweens : cfg := cfg_of_raw cfg_tweens_raw.      (* Tweens.__init__ *)
Definition cfg_derivers : cfg := cfg_of_raw cfg_derivers_raw.  (* add_view_deriver *)

(* ---- operations on a sorter, as driven by the harness *)
Inductive op := OAdd (name : node) (val : N) (after before : hint) | ORemove (name : node).
Inductive step_result := RSorted (o : outcome) | RValueError.

Definition apply_op (s : sorter) (o : op) : sorter * bool :=      (* bool: raised ValueError *)
  match o with
  | OAdd n v a b => (add n v a b s, false)
  | ORemove n => match remove n s with Some s' => (s', false) | None => (s, true) end
  end.

(* after every operation the harness calls sorted() *)
Fixpoint run_ops (s : sorter) (ops : list op) : list step_result :=
  match ops with
  | [] => []
  | o :: r => let '(s', ve) := apply_op s o in
              (if ve then RValueError else RSorted (sorted s')) :: run_ops s' r
  end.

Definition final_state (s : sorter) (ops : list op) : sorter :=
  fold_left (fun s o => fst (apply_op s o)) ops s.

(* =====================================================================
   Declarative specification (the property's wording) *)
Record decl := mkDecl { dname : node; dval : N; dafter : option (list node); dbefore : option (list node) }.

Definition spec_remove (n : node) (ds : list decl) : list decl :=
  filter (fun d => negb (text_eqb n (dname d))) ds.

(* a re-added name replaces the earlier declaration; no hints = the sorter's defaults *)
Definition spec_add (c : cfg) (n : node) (v : N) (a b : hint) (ds : list decl) : list decl :=
  let '(db, da, _, _) := c in
  let '(a, b) := match a, b with HNone, HNone => (da, db) | _, _ => (a, b) end in
  spec_remove n ds ++ [mkDecl n v (norm_hint a) (norm_hint b)].

Definition spec_op (c : cfg) (ds : list decl) (o : op) : list decl :=
  match o with
  | OAdd n v a b => spec_add c n v a b ds
  | ORemove n => spec_remove n ds
  end.

Definition cfg_first (c : cfg) : node := let '(_, _, f, _) := c in f.
Definition cfg_last (c : cfg) : node := let '(_, _, _, l) := c in l.
Definition dnames (ds : list decl) : list node := map dname ds.
Definition spec_nodes (c : cfg) (ds : list decl) : list node := cfg_first c :: cfg_last c :: dnames ds.
Definition decl_arcs (d : decl) : list arc :=
  map (fun u => (u, dname d)) (opt_list (dafter d)) ++ map (fun o => (dname d, o)) (opt_list (dbefore d)).
(* every constraint whose both ends are present, plus first-before-last *)
Definition spec_arcs (c : cfg) (ds : list decl) : list arc :=
  filter (arc_present (spec_nodes c ds)) ((cfg_first c, cfg_last c) :: flat_map decl_arcs ds).

Definition unsat (nodes : list node) (o : option (list node)) : bool :=
  match o with Some l => negb (existsb (fun a => mem_text a nodes) l) | None => false end.
Definition unsat_before (c : cfg) (ds : list decl) : list node :=
  dnames (filter (fun d => unsat (spec_nodes c ds) (dbefore d)) ds).
Definition unsat_after (c : cfg) (ds : list decl) : list node :=
  dnames (filter (fun d => unsat (spec_nodes c ds) (dafter d)) ds).

(* a occurs in l and b occurs after the first occurrence of a *)
Fixpoint precedes (l : list node) (a b : node) : bool :=
  match l with
  | [] => false
  | x :: r => if text_eqb x a then mem_text b r else precedes r a b
  end.

Definition subset (a b : list node) : bool := forallb (fun x => mem_text x b) a.
Definition same_set (a b : list node) : bool := subset a b && subset b a.
Fixpoint nodupb (l : list node) : bool :=
  match l with [] => true | x :: r => negb (mem_text x r) && nodupb r end.

Definition decl_val (ds : list decl) (n : node) : N :=
  match find (fun d => text_eqb n (dname d)) ds with Some d => dval d | None => 0%N end.

(* arcs between declared names only (the sentinels are not part of the output) *)
Definition named_arcs (c : cfg) (ds : list decl) : list arc :=
  filter (arc_present (dnames ds)) (flat_map decl_arcs ds).

(* The judge: is [o] an acceptable answer for the declarations [ds]?
   Sorted: every declared name exactly once with its latest value, every
   constraint between present declared names respected, nothing unsatisfied.
   Errors: only when the declared constraints justify them. *)
Definition respects (l : list node) (arcs : list arc) : bool :=
  forallb (fun e => precedes l (fst e) (snd e)) arcs.

Definition judge (c : cfg) (ds : list decl) (o : outcome) : bool :=
  match o with
  | Sorted l =>
      let ns := map fst l in
      nodupb ns && same_set ns (dnames ds)
      && forallb (fun nv => N.eqb (snd nv) (decl_val ds (fst nv))) l
      && respects ns (named_arcs c ds)
      && negb (nonempty (unsat_before c ds)) && negb (nonempty (unsat_after c ds))
  | UnsatBefore l => nonempty l && same_set l (unsat_before c ds)
  | UnsatAfter l => nonempty l && same_set l (unsat_after c ds)
  | Cyclic l =>
      (* certificate of a cycle: a non-empty set of nodes each of which has a
         predecessor in the set along a present constraint *)
      let ks := map fst l in
      nonempty ks && subset ks (spec_nodes c ds)
      && forallb (fun k => existsb (fun e => text_eqb (snd e) k && mem_text (fst e) ks) (spec_arcs c ds)) ks
  | Internal => false
  end.

Fixpoint spec_states (c : cfg) (ds : list decl) (ops : list op) : list (list decl) :=
  match ops with
  | [] => []
  | o :: r => let ds' := spec_op c ds o in ds' :: spec_states c ds' r
  end.

(* ---- constraint lists never empty (an empty iterable of alternatives is a
   degenerate call; see Proofs: the code keeps a stale requirement for it) *)
Definition hint_ok (h : hint) : bool := match h with HMany [] => false | _ => true end.
Definition op_ok (o : op) : bool :=
  match o with OAdd _ _ a b => hint_ok a && hint_ok b | ORemove _ => true end.
Definition cfg_ok (c : cfg) : bool := let '(db, da, _, _) := c in hint_ok db && hint_ok da.

(* =====================================================================
   Tweens (config/tweens.py) *)
Definition new_tweens : tweens := mkTweens (new_sorter cfg_tweens) [].
(* self.sorter.add(name, factory, after=under, before=over) *)
Definition add_implicit (n : node) (f : N) (under over : hint) (t : tweens) : tweens :=
  let '(a, b) := if tw_after_is_under then (under, over) else (over, under) in
  mkTweens (add n f a b (tw_sorter t)) (tw_explicit t).
Definition implicit (t : tweens) : outcome := sorted (tw_sorter t).

(* for name, factory in use[::-1]: handler = factory(handler, registry) *)
Definition wrap_all (use : list (node * N)) (h : handler) : handler :=
  fold_left (fun h nf => Wrap (fst nf) (snd nf) h) (if tw_use_reversed then rev use else use) h.

Definition tweens_call (t : tweens) (h : handler) : outcome + handler :=
  if nonempty (tw_explicit t) then inr (wrap_all (tw_explicit t) h)
  else match implicit t with
       | Sorted use => inr (wrap_all use h)
       | e => inl e
       end.

(* _add_tween argument checks: 0 ok, 1 reserved name, 2 over INGRESS, 3 under MAIN *)
Definition hint_has (u : node) (h : hint) : bool :=
  match h with HNone => false | HOne x => text_eqb x u | HMany l => mem_text u l end.
Definition add_tween_check (n : node) (under over : hint) : N :=
  if text_eqb n tw_main || text_eqb n tw_ingress then 1%N
  else if hint_has tw_ingress over then 2%N
  else if hint_has tw_main under then 3%N
  else 0%N.

(* _add_tween as a whole: refusal code, or the call its register() closure makes on the Tweens utility *)
Definition add_tween_model (n : node) (f : N) (under over : hint) (explicit : bool) : N + tw_reg :=
  let c := add_tween_check n under over in
  if N.eqb c 0 then inr (if explicit then TRExplicit n f else TRImplicit n f under over) else inl c.
Definition apply_reg (r : tw_reg) (t : tweens) : tweens :=
  match r with
  | TRExplicit n f => add_explicit n f t
  | TRImplicit n f u o => add_implicit n f u o t
  end.

(* =====================================================================
   View derivers (config/views.py) *)
(* add_view_deriver argument processing: inl code = ConfigurationError
   (1 reserved name, 2 over INGRESS, 3 under VIEW, 4 under mapped_view);
   inr (under, over) = the processed hints *)
Definition deriver_hints (n : node) (under over : hint) : N + (list node * list node) :=
  if text_eqb n dv_ingress || text_eqb n dv_view then inl 1%N else
  let under := match under with HNone => HOne dv_default_under | _ => under end in
  let over := match over with HNone => HOne dv_default_over | _ => over end in
  let over := as_sorted_tuple over in
  let under := as_sorted_tuple under in
  if mem_text dv_ingress over then inl 2%N else
  let over := if mem_text dv_view over && negb (text_eqb n dv_forced_over)
              then sort_texts (over ++ [dv_forced_over]) else over in
  if mem_text dv_view under then inl 3%N else
  if mem_text dv_forced_over under then inl 4%N else
  inr (under, over).

(* inr (after, before) = the arguments of derivers.add as the CODE passes them (keyword mapping = regenerated fact) *)
Definition deriver_args (n : node) (under over : hint) : N + (list node * list node) :=
  match deriver_hints n under over with
  | inl c => inl c
  | inr (u, o) => inr (if dv_after_is_under then (u, o) else (o, u))
  end.

Definition deriver_add (n : node) (v : N) (under over : hint) (s : sorter) : N + sorter :=
  match deriver_args n under over with
  | inl c => inl c
  | inr (a, b) => inr (add n v (HMany a) (HMany b) s)
  end.

(* add_default_view_derivers: the declarations are a regenerated fact *)
Definition default_derivers : sorter :=
  fold_left (fun s d => let '(n, u, o) := d in
                        match deriver_add n 0%N (hint_of_fact u) (hint_of_fact o) s with
                        | inr s' => s' | inl _ => s end)
            dv_default_decls (new_sorter cfg_derivers).
Definition derivers_sorted (s : sorter) : outcome := sorted s.

(* _apply_view_derivers: for name, deriver in reversed(outer_derivers + derivers.sorted()) *)
Definition apply_view_derivers (s : sorter) (view : handler) : outcome + handler :=
  match sorted s with
  | Sorted ds =>
      let all := map (fun n => (n, 0%N)) dv_outer ++ ds in
      inr (fold_left (fun h nf => Wrap (fst nf) (snd nf) h) (if dv_reversed then rev all else all) view)
  | e => inl e
  end.

(* =====================================================================
   Predicate lists (config/predicates.py): PredicateList.add *)
Definition predlist_add (n : node) (v : N) (more_than less_than : hint) (s : sorter) : sorter :=
  let '(a, b) := if pl_after_is_more_than then (more_than, less_than) else (less_than, more_than) in
  add n v a b s.

(* the three predicate directives: add_view_predicate / add_route_predicate /
   add_subscriber_predicate -> _add_predicate -> PredicateList.add; which directive
   argument reaches which parameter is a regenerated fact at each hop *)
Inductive pkind := PView | PRoute | PSubscriber.
Definition pd_straight (k : pkind) : bool :=
  match k with PView => pd_view_straight | PRoute => pd_route_straight | PSubscriber => pd_subscriber_straight end.
Definition pd_defaults (k : pkind) : list node :=
  match k with PView => pl_default_view_predicates | PRoute => pl_default_route_predicates
             | PSubscriber => pl_default_subscriber_predicates end.
Definition pred_directive (k : pkind) (n : node) (v : N) (more_than less_than : hint) (s : sorter) : sorter :=
  let '(m, l) := if pd_straight k then (more_than, less_than) else (less_than, more_than) in
  let '(m, l) := if pd_inner_straight then (m, l) else (l, m) in
  predlist_add n v m l s.
(* the name of the predicate list a directive works on (get_predlist(type)) *)
Definition pkind_text (k : pkind) : text :=
  match k with
  | PView => [118; 105; 101; 119]%N
  | PRoute => [114; 111; 117; 116; 101]%N
  | PSubscriber => [115; 117; 98; 115; 99; 114; 105; 98; 101; 114]%N
  end.
Definition preds_scenario (k : pkind) (adds : list (node * N * hint * hint)) : sorter :=
  fold_left (fun s x => let '(n, f, m, l) := x in pred_directive k n f m l s) adds
            (fold_left (fun s n => pred_directive k n 0%N HNone HNone s) (pd_defaults k) (new_sorter cfg_plain)).
(* the property's reading: weighs_more_than X = sorts after X; weighs_less_than X = before X *)
Definition pred_ops (k : pkind) (adds : list (node * N * hint * hint)) : list op :=
  map (fun n => OAdd n 0%N HNone HNone) (pd_defaults k) ++
  map (fun x => let '(n, f, m, l) := x in OAdd n f m l) adds.
(* instrumented (id > 0) predicates are evaluated in list order *)
Definition eval_order (use : list (node * N)) : list node :=
  map fst (filter (fun nf => negb (N.eqb (snd nf) 0)) use).

(* =====================================================================
   wire glue *)
Definition get_hint (v : val) : option hint :=
  match v with
  | VL [] => Some HNone
  | VL [VT u] => Some (HOne u)
  | VL [VL l] => match map_opt get_text l with Some ts => Some (HMany ts) | None => None end
  | _ => None
  end.
Definition get_op (v : val) : option op :=
  match v with
  | VL [VI 0%Z; VT n; VI z; a; b] =>
      olet a := get_hint a in olet b := get_hint b in Some (OAdd n (Z.to_N z) a b)
  | VL [VI 1%Z; VT n] => Some (ORemove n)
  | _ => None
  end.
Definition get_cfg (v : val) : option cfg :=
  match v with
  | VI 0%Z => Some cfg_plain
  | VI 1%Z => Some cfg_tweens
  | VI 2%Z => Some cfg_derivers
  | _ => None
  end.

Definition put_outcome (o : outcome) : val :=
  match o with
  | Sorted l => VL [VI 0; VL (map (fun nv => VL [VT (fst nv); vN (snd nv)]) l)]
  | UnsatBefore l => VL [VI 1; vtexts l]
  | UnsatAfter l => VL [VI 2; vtexts l]
  | Cyclic l => VL [VI 3; VL (map (fun kv => VL [VT (fst kv); vtexts (snd kv)]) l)]
  | Internal => VL [VI 4]
  end.
Definition get_outcome (v : val) : option outcome :=
  match v with
  | VL [VI 0%Z; VL l] =>
      olet l := map_opt (fun x => match x with VL [VT n; VI z] => Some (n, Z.to_N z) | _ => None end) l in
      Some (Sorted l)
  | VL [VI 1%Z; l] => olet l := get_texts l in Some (UnsatBefore l)
  | VL [VI 2%Z; l] => olet l := get_texts l in Some (UnsatAfter l)
  | VL [VI 3%Z; VL l] =>
      olet l := map_opt (fun x => match x with
                                  | VL [VT n; c] => olet c := get_texts c in Some (n, c)
                                  | _ => None end) l in
      Some (Cyclic l)
  | _ => None
  end.
Definition put_step (r : step_result) : val :=
  match r with RSorted o => put_outcome o | RValueError => VL [VI 5] end.

Definition put_event (e : event) : val :=
  match e with Enter n => VL [VI 0; VT n] | Exit n => VL [VI 1; VT n] | Call => VL [VI 2] end.
Definition get_event (v : val) : option event :=
  match v with
  | VL [VI 0%Z; VT n] => Some (Enter n)
  | VL [VI 1%Z; VT n] => Some (Exit n)
  | VL [VI 2%Z] => Some Call
  | _ => None
  end.
Definition event_eqb (a b : event) : bool :=
  match a, b with
  | Enter x, Enter y | Exit x, Exit y => text_eqb x y
  | Call, Call => true
  | _, _ => false
  end.
Fixpoint events_eqb (a b : list event) : bool :=
  match a, b with
  | [], [] => true
  | x :: a', y :: b' => event_eqb x y && events_eqb a' b'
  | _, _ => false
  end.

(* judged step: the harness sends the implementation's observation back *)
Fixpoint judge_steps (c : cfg) (ds : list decl) (ops : list op) (obs : list val) : list val :=
  match ops, obs with
  | o :: r, v :: vr =>
      let ds' := spec_op c ds o in
      let verdict :=
        match v with
        | VL [VI 5%Z] =>                                  (* ValueError: only for removing an undeclared name *)
            match o with ORemove n => negb (mem_text n (dnames ds)) | _ => false end
        | _ => match get_outcome v with
               | Some out =>
                   match o with
                   | ORemove n => mem_text n (dnames ds) && judge c ds' out
                   | _ => judge c ds' out
                   end
               | None => false
               end
        end in
      vbool verdict :: judge_steps c ds' r vr
  | _, _ => []
  end.

(* ---- tweens scenario: default adds, explicit names, then add_tween calls *)
Definition get_tadd (v : val) : option (node * N * hint * hint) :=
  match v with
  | VL [VT n; VI z; u; o] => olet u := get_hint u in olet o := get_hint o in Some (n, Z.to_N z, u, o)
  | _ => None
  end.

Definition tweens_init (explicit : list (node * N)) : tweens :=
  let t0 := fold_left (fun t n => add_implicit n 0%N HNone HNone t) tw_default_adds new_tweens in
  fold_left (fun t nf => add_explicit (fst nf) (snd nf) t) explicit t0.

(* instrumented tweens only (factory id > 0) appear in the observed trace *)
Fixpoint trace_user (h : handler) : list event :=
  match h with
  | Base => [Call]
  | Wrap n f h' => if N.eqb f 0 then trace_user h' else Enter n :: trace_user h' ++ [Exit n]
  end.

Definition put_pairs (l : list (node * N)) : val := VL (map (fun nv => VL [VT (fst nv); vN (snd nv)]) l).

Definition decls_of (c : cfg) (ops : list op) : list decl := fold_left (spec_op c) ops [].

(* expected trace for a given use order: enter in order, leave in reverse *)
Definition nest_trace (use : list (node * N)) : list event :=
  let u := filter (fun nf => negb (N.eqb (snd nf) 0)) use in
  map (fun nf => Enter (fst nf)) u ++ [Call] ++ map (fun nf => Exit (fst nf)) (rev u).

Fixpoint forallb2_eq (a b : list (node * N)) : bool :=
  match a, b with
  | [], [] => true
  | x :: a', y :: b' => text_eqb (fst x) (fst y) && N.eqb (snd x) (snd y) && forallb2_eq a' b'
  | _, _ => false
  end.
Definition get_pairs (l : list val) : option (list (node * N)) :=
  map_opt (fun x => match x with VL [VT n; VI z] => Some (n, Z.to_N z) | _ => None end) l.

(* a history of a Tweens utility: add_tween calls interleaved with looks at the order *)
Inductive tevent := TAdd (x : node * N * hint * hint) | TImplicit | TRequest.

(* Router(registry): tweens(handle_request, registry), then one request *)
Definition request_obs (t : tweens) : val :=
  match tweens_call t Base with
  | inr h => VL [VI 0;
                 put_pairs (if nonempty (tw_explicit t) then tw_explicit t
                            else match implicit t with Sorted u => u | _ => [] end);
                 VL (map put_event (trace_user h))]
  | inl e => VL [VI 1; put_outcome e]
  end.

Fixpoint tweens_history (t : tweens) (evs : list tevent) : list val :=
  match evs with
  | [] => []
  | TAdd (n, f, u, o) :: r =>
      let c := add_tween_check n u o in
      if N.eqb c 0 then vN 0 :: tweens_history (add_implicit n f u o t) r
      else vN c :: tweens_history t r
  | TImplicit :: r => put_outcome (implicit t) :: tweens_history t r
  | TRequest :: r => request_obs t :: tweens_history t r
  end.

(* the declarations in force: under = after, over = before; refused calls declare nothing *)
Definition tween_decl_ops (x : node * N * hint * hint) : list op :=
  let '(n, f, u, o) := x in if N.eqb (add_tween_check n u o) 0 then [OAdd n f u o] else [].
Definition tweens_init_decls : list decl :=
  decls_of cfg_tweens (map (fun n => OAdd n 0%N HNone HNone) tw_default_adds).

(* judge of one request observation = what a fresh Tweens built from the current declarations may give *)
Definition judge_request (explicit : list (node * N)) (ds : list decl) (obs : val) : bool :=
  match obs with
  | VL [VI 0%Z; VL use; VL tr] =>
      match get_pairs use, map_opt get_event tr with
      | Some use, Some tr =>
          (if nonempty explicit
           then forallb2_eq use explicit
           else judge cfg_tweens ds (Sorted use))
          && events_eqb tr (nest_trace use)
      | _, _ => false
      end
  | VL [VI 1%Z; o] =>
      match get_outcome o with
      | Some (Sorted _) => false
      | Some out => negb (nonempty explicit) && judge cfg_tweens ds out
      | None => false
      end
  | _ => false
  end.

Fixpoint judge_history (explicit : list (node * N)) (ds : list decl) (evs : list tevent) (obs : list val) : list val :=
  match evs, obs with
  | TAdd x :: r, v :: vr =>
      let '(n, _, u, o) := x in
      vbool (match v with VI z => Z.eqb z (Z.of_N (add_tween_check n u o)) | _ => false end)
      :: judge_history explicit (fold_left (spec_op cfg_tweens) (tween_decl_ops x) ds) r vr
  | TImplicit :: r, v :: vr =>
      vbool (match get_outcome v with Some out => judge cfg_tweens ds out | None => false end)
      :: judge_history explicit ds r vr
  | TRequest :: r, v :: vr => vbool (judge_request explicit ds v) :: judge_history explicit ds r vr
  | _, _ => []
  end.

(* ---- deriver scenario: default derivers, then add_view_deriver calls, then one view *)
Definition deriver_step (st : sorter * list N) (x : node * N * hint * hint) : sorter * list N :=
  let '(s, codes) := st in
  let '(n, f, u, o) := x in
  match deriver_add n f u o s with
  | inl c => (s, codes ++ [c])
  | inr s' => (s', codes ++ [0%N])
  end.
Definition derivers_scenario (adds : list (node * N * hint * hint)) : sorter * list N :=
  fold_left deriver_step adds (default_derivers, []).

Definition deriver_op (x : node * N * hint * hint) : list op :=
  let '(n, f, u, o) := x in
  (* the property's reading, independent of how the code maps its keywords: under X = after X, over X = before X *)
  match deriver_hints n u o with inr (a, b) => [OAdd n f (HMany a) (HMany b)] | inl _ => [] end.
Definition deriver_ops (adds : list (node * N * hint * hint)) : list op :=
  flat_map (fun d => let '(n, u, o) := d in deriver_op (n, 0%N, hint_of_fact u, hint_of_fact o)) dv_default_decls
  ++ flat_map deriver_op adds.

(* the user's callable innermost: every other deriver is outside mapped_view (the deriver
   that adapts the user's callable), whatever hints and input forms were used *)
Definition mapped_innermost (ns : list node) : bool :=
  forallb (fun n => text_eqb n dv_forced_over || precedes ns n dv_forced_over) ns.

Definition judge_derivers (adds : list (node * N * hint * hint)) (obs : val) : bool :=
  let ds := decls_of cfg_derivers (deriver_ops adds) in
  match obs with
  | VL [VI 0%Z; VL use; VL tr] =>
      match get_pairs use, map_opt get_event tr with
      | Some use, Some tr => judge cfg_derivers ds (Sorted use) && mapped_innermost (map fst use)
                             && events_eqb tr (nest_trace use)
      | _, _ => false
      end
  | VL [VI 1%Z; o] =>
      match get_outcome o with
      | Some (Sorted _) => false
      | Some out => judge cfg_derivers ds out
      | None => false
      end
  | _ => false
  end.

Definition get_tevent (v : val) : option tevent :=
  match v with
  | VL [VI 0%Z; x] => olet x := get_tadd x in Some (TAdd x)
  | VL [VI 1%Z] => Some TImplicit
  | VL [VI 2%Z] => Some TRequest
  | _ => None
  end.
Definition get_pkind (v : val) : option pkind :=
  match v with VI 0%Z => Some PView | VI 1%Z => Some PRoute | VI 2%Z => Some PSubscriber | _ => None end.
Fixpoint texts_eqb (a b : list text) : bool :=
  match a, b with
  | [], [] => true
  | x :: a', y :: b' => text_eqb x y && texts_eqb a' b'
  | _, _ => false
  end.

Definition put_codes (l : list N) : val := VL (map vN l).
Definition put_events (l : list event) : val := VL (map put_event l).

(* what the harness observes of a deriver scenario (tag 4) and of a predicate scenario (tag 6) *)
Definition derivers_obs (s : sorter) : val :=
  match apply_view_derivers s Base with
  | inr h => VL [VI 0;
                 put_pairs (match sorted s with Sorted u => u | _ => [] end);
                 put_events (trace_user h)]
  | inl e => VL [VI 1; put_outcome e]
  end.
Definition preds_obs (s : sorter) : val * val :=
  let o := sorted s in
  (put_outcome o, vtexts (match o with Sorted use => eval_order use | _ => [] end)).
Definition judge_preds (k : pkind) (adds : list (node * N * hint * hint)) (o ev : val) : option bool :=
  olet out := get_outcome o in olet ev := get_texts ev in
  Some (judge cfg_plain (decls_of cfg_plain (pred_ops k adds)) out
        && texts_eqb ev (match out with Sorted use => eval_order use | _ => [] end)).

(* ---- PredicateList.make on a predicate scenario (tag 8): the keyword values of one add_view / add_route / add_subscriber *)
Definition get_pval (v : val) : option pval :=
  match v with VI z => Some (if Z.ltb z 0 then PNot (Z.to_N (- z)) else PV (Z.to_N z)) | _ => None end.
Definition get_pvals (v : val) : option pvals :=
  match v with
  | VL [VI 0%Z; x] => olet x := get_pval x in Some (VOne x)
  | VL [VI 1%Z; VL l] => olet l := map_opt get_pval l in Some (VSeq l)
  | _ => None
  end.
Definition get_kwitem (v : val) : option (node * pvals) :=
  match v with VL [VT n; x] => olet x := get_pvals x in Some (n, x) | _ => None end.
Fixpoint put_pred_aux (notted : bool) (p : pred) : val :=
  match p with
  | Pred n f (PV x) => VL [VT n; vN f; vN x; vbool notted; vbool false]
  | Pred n f (PNot x) => VL [VT n; vN f; vN x; vbool notted; vbool true]
  | NottedP q => put_pred_aux true q
  end.
Definition put_make (r : make_result) : val :=
  match r with
  | MkOk order ps ph => VL [VI 0; VI order; VL (map (put_pred_aux false) ps); VL (map (put_pred_aux false) ph)]
  | MkUnknown names => VL [VI 1; vtexts names]
  | MkSortError _ => VL [VI 2]
  end.
(* created predicates in order, first occurrence of each instrumented (id > 0) name: what is evaluated, in which order *)
Fixpoint dedupe (l : list node) : list node :=
  match l with [] => [] | x :: r => x :: filter (fun y => negb (text_eqb y x)) (dedupe r) end.
Fixpoint pred_factory (p : pred) : N := match p with Pred _ f _ => f | NottedP q => pred_factory q end.
Definition make_eval_order (r : make_result) : list node :=
  match r with
  | MkOk _ ps _ => dedupe (map pred_name (filter (fun p => negb (N.eqb (pred_factory p) 0)) ps))
  | _ => []
  end.
Definition make_obs (s : sorter) (kw : list (node * pvals)) : val * val * val :=
  let o := sorted s in
  let r := gen_pl_make pl_max_order o kw in
  (put_outcome o, vtexts (make_eval_order r), put_make r).

Definition run_C18 (v : val) : val :=
  ret_or_bad (
    match v with
    | VL [VI 0%Z; c; ops] =>
        olet c := get_cfg c in olet ops := get_list_of get_op ops in
        Some (VL (map put_step (run_ops (new_sorter c) ops)))
    | VL [VI 1%Z; c; ops; VL obs] =>
        olet c := get_cfg c in olet ops := get_list_of get_op ops in
        Some (VL (judge_steps c [] ops obs))
    | VL [VI 2%Z; VL ex; evs] =>
        olet ex := get_pairs ex in olet evs := get_list_of get_tevent evs in
        Some (VL (tweens_history (tweens_init ex) evs))
    | VL [VI 3%Z; VL ex; evs; VL obs] =>
        olet ex := get_pairs ex in olet evs := get_list_of get_tevent evs in
        Some (VL (judge_history ex tweens_init_decls evs obs))
    | VL [VI 4%Z; adds] =>
        olet adds := get_list_of get_tadd adds in
        let '(s, codes) := derivers_scenario adds in
        Some (VL [put_codes codes; derivers_obs s])
    | VL [VI 5%Z; adds; obs] =>
        olet adds := get_list_of get_tadd adds in
        Some (vbool (judge_derivers adds obs))
    | VL [VI 6%Z; k; adds] =>
        olet k := get_pkind k in olet adds := get_list_of get_tadd adds in
        let '(o, ev) := preds_obs (preds_scenario k adds) in
        Some (VL [o; ev])
    | VL [VI 7%Z; k; adds; VL [o; ev]] =>
        olet k := get_pkind k in olet adds := get_list_of get_tadd adds in
        olet b := judge_preds k adds o ev in Some (vbool b)
    | VL [VI 8%Z; k; adds; kw] =>
        olet k := get_pkind k in olet adds := get_list_of get_tadd adds in olet kw := get_list_of get_kwitem kw in
        let '(o, ev, mk) := make_obs (preds_scenario k adds) kw in
        Some (VL [o; ev; mk])
    | _ => None
    end).
