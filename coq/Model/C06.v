(* C06 -- a generated route URL is matched by its route and yields the supplied values.

   Composition of two finished models (imported, never edited):
     Model/C01.v  _compile_route's parser and compiled matcher, RoutesMapper.__call__,
                  webob's PATH_INFO decoding;
     Model/C17.v  _compile_route's generation half ([gen_template], [generate]), route_url /
                  route_path (script name, extra elements, query, anchor), the reference
                  decoder of urllib.parse ([url_split]).
   Here: the translation between the two pattern representations ([to_pattern]: what
   _compile_route keeps for generation of the pattern it also compiles into the matcher),
   the way back a WSGI server takes (urlsplit -> unquote_to_bytes -> SCRIPT_NAME / PATH_INFO as
   latin-1 text -> Router), and the declarative specification.
   Executable definitions only. *)
From Coq Require Import List NArith ZArith Bool.
Import ListNotations.
Require Import Verif.Lib.Wire Verif.Lib.Text Verif.Lib.PathNorm Verif.Lib.Utf8 Verif.Lib.Percent.
Require Verif.Gen.Facts_C01 Verif.Gen.Facts_C17 Verif.Model.C01 Verif.Model.C17.
Require Import Verif.Gen.Facts_C06.
Local Open Scope N_scope.

(* ------------------------------------------------------------------ facts decoding *)
Definition slot_fmt_expected : text := [37; 37; 40; 37; 115; 41; 115].     (* '%%(%s)s' *)
Definition utf8_name : text := [117; 116; 102; 45; 56].                      (* 'utf-8' *)
Definition latin1_name : text := [108; 97; 116; 105; 110; 45; 49].           (* 'latin-1' *)

(* the composition below is written against these texts of the current source: both kinds of
   placeholder become a '%(name)s' slot, the pieces are joined with nothing in between and applied
   with '%'; both sides of the round trip use UTF-8, PATH_INFO is a latin-1 rendering of bytes;
   route_url separates extra elements from the path with one '/' unless the path ends with one;
   every name the model follows is bound once in its scope, by the def that is pinned / translated;
   the closures of a compiled route (matcher, generator, q) keep nothing between calls *)
Definition gen_sources_ok : bool :=
  text_eqb hole_slot_fmt slot_fmt_expected && text_eqb star_slot_fmt slot_fmt_expected
  && text_eqb template_join_sep [] && template_applied_by_percent
  && star_key_test_is_eq && matcher_star_key_test_is_eq
  && text_eqb generator_bytes_codec utf8_name && text_eqb segment_text_codec utf8_name
  && text_eqb url_quote_str_codec utf8_name && text_eqb url_quote_other_codec utf8_name
  && text_eqb path_info_encode_codec latin1_name && text_eqb path_info_decode_codec utf8_name
  && text_eqb route_url_suffix_sep [47] && text_eqb route_url_endswith_arg [47]
  && names_bound_once && closures_stateless.

(* ------------------------------------------------------------------ pattern translation *)
(* _compile_route walks route_re.split(route) once and feeds both halves: every literal piece goes
   to the regex (re.escape) and to the template (quoted), every placeholder becomes a named group
   and a slot.  C01's AST keeps the pieces as [items]; C17's [pattern] is (prefix, (name, literal
   that follows)*, star).  Adjacent literals (which the parser never produces) are concatenated. *)
Fixpoint to_holes (n lit : text) (its : list C01.item) : list (text * text) :=
  match its with
  | [] => [(n, lit)]
  | C01.Lit l :: r => to_holes n (lit ++ l) r
  | C01.Hole m _ :: r => (n, lit) :: to_holes m [] r
  end.
Fixpoint to_prefix (pre : text) (its : list C01.item) : text * list (text * text) :=
  match its with
  | [] => (pre, [])
  | C01.Lit l :: r => to_prefix (pre ++ l) r
  | C01.Hole m _ :: r => (pre, to_holes m [] r)
  end.
Definition to_pattern (p : C01.pat) : C17.pattern :=
  let '(pre, hs) := to_prefix [] (C01.items p) in C17.mkPat pre hs (C01.star p).

(* ------------------------------------------------------------------ one route: generate, then match *)
(* Route.generate of the route compiled from [src] *)
Definition parse (O : C01.oracle) (src : text) : C01.res C01.pat :=
  if negb gen_sources_ok then C01.FactsDrift else C01.parse_pattern O src.

(* what a WSGI server hands to the application for the path component [upath] of a URL:
   percent-decoded bytes; the mount point SCRIPT_NAME (UTF-8 bytes of the decoded script name)
   is cut off, the rest is PATH_INFO (bytes shown as latin-1 text = the same numbers) *)
Definition wsgi_path_info (script upath : text) : option text :=
  strip_prefix (encode script) (unquote (C17.text_bytes upath)).

(* request.path_info (UTF-8 decoding of PATH_INFO) and the route's own matcher *)
Definition match_back (O : C01.oracle) (p : C01.pat) (path_info : text) : option C01.matchdict :=
  match C01.request_path (Some path_info) with
  | C01.RPath t => C01.match_pat O p t
  | C01.RErr => None
  end.

(* generate and match again, without the URL machinery around it: Route.generate, the server's
   decoding, Route.match *)
Definition roundtrip (O : C01.oracle) (p : C01.pat) (kw : list (text * C17.kwval)) : option C01.matchdict :=
  match C17.generate (to_pattern p) kw with
  | C17.Ok u => match_back O p (unquote u)
  | C17.Err _ => None
  end.

(* ------------------------------------------------------------------ an application: routes, route_url, Router *)
Definition c01_decl (d : text * text) : C01.decl := C01.mkDecl (fst d) (snd d) false [].

Fixpoint gen_routes (O : C01.oracle) (ds : list (text * text)) : list (text * C17.pattern) :=
  match ds with
  | [] => []
  | d :: r => match parse O (snd d) with
              | C01.Ok p => (fst d, to_pattern p) :: gen_routes O r
              | _ => gen_routes O r
              end
  end.

Fixpoint find_src (name : text) (ds : list (text * text)) : option text :=
  match ds with [] => None | d :: r => if text_eqb name (fst d) then Some (snd d) else find_src name r end.

Definition method_get : text := [71; 69; 84].

(* the generated URL fed back: urlsplit, server decoding, Router (outcome) and the target
   route's own matcher (own) *)
Definition route_back (O : C01.oracle) (m : C01.mapper) (target : option C01.pat) (script : text) (u : C17.res text) : val :=
  match u with
  | C17.Err _ => VL []
  | C17.Ok u =>
      match C17.url_split u with
      | C17.Err _ => VL [VI 4]
      | C17.Ok s =>
          match wsgi_path_info script (C17.u_path s) with
          | None => VL [VI 5]
          | Some pi =>
              VL [C01.put_outcome (fst (C01.dispatch_request O m method_get (Some pi)));
                  match target with
                  | Some p => vopt C01.put_dict (match_back O p pi)
                  | None => VL []
                  end]
          end
      end
  end.

(* ================================================================== declarative specification *)
(* the text a supplied keyword value stands for: str as is, bytes as UTF-8, anything else
   stringified; a sequence given for the remainder stands for its elements joined by '/' *)
Definition val_text (is_star : bool) (v : C17.kwval) : option text :=
  match v with
  | C17.KScalar x => C17.spec_text x
  | C17.KSeq l shown =>
      if is_star then olet ts := map_opt C17.spec_text l in Some (join [47] ts)
      else if forallb valid_scalar shown then Some shown else None
  end.

Definition cap_of (st : option text) (kw : list (text * C17.kwval)) (n : text) : option text :=
  match C17.assoc n kw with
  | Some v => val_text (match st with Some r => text_eqb n r | None => false end) v
  | None => None
  end.

(* the captures the supplied values stand for, in placeholder order, the remainder last *)
Definition kw_caps (p : C01.pat) (kw : list (text * C17.kwval)) : option (list text) :=
  olet hc := map_opt (cap_of (C01.star p) kw) (C01.hole_names (C01.items p)) in
  olet sc := match C01.star p with
             | None => Some []
             | Some [] => Some [[]]
             | Some r => olet t := cap_of (C01.star p) kw r in Some [t]
             end in
  Some (hc ++ sc).

(* value-level separability: the literal after a placeholder starts with a character that does not
   occur in the placeholder's value and that either can never occur in such a value or does not
   occur again in the rest of the path; a placeholder at the very end, or followed only by a final
   literal, is always fine; two adjacent placeholders, or a placeholder directly before the
   remainder, are not separable *)
Definition final_lit (r : list C01.item) (st : option text) : bool :=
  match r, st with [], None => true | _, _ => false end.

Fixpoint sep_val (O : C01.oracle) (st : option text) (its : list C01.item) (caps : list text) : bool :=
  match its with
  | [] => true
  | C01.Lit _ :: r => sep_val O st r caps
  | C01.Hole _ h :: r =>
      match caps with
      | [] => false
      | v :: caps' =>
          (match r with
           | [] => match st with None => true | Some _ => false end
           | C01.Lit [] :: _ => false
           | C01.Lit (c :: l) :: r' =>
               final_lit r' st
               || (negb (memN c v)
                   && (negb (C01.cls_mem O (C01.h_cls h) c) || negb (memN c (l ++ C01.render r' caps'))))
           | C01.Hole _ _ :: _ => false
           end) && sep_val O st r caps'
      end
  end.

(* pattern-level separability (no values needed): the separator cannot occur in ANY value of the
   placeholder before it *)
Fixpoint separable (O : C01.oracle) (st : option text) (its : list C01.item) : bool :=
  match its with
  | [] => true
  | C01.Lit _ :: r => separable O st r
  | C01.Hole _ h :: r =>
      (match r with
       | [] => match st with None => true | Some _ => false end
       | C01.Lit [] :: _ => false
       | C01.Lit (c :: _) :: r' => final_lit r' st || negb (C01.cls_mem O (C01.h_cls h) c)
       | C01.Hole _ _ :: _ => false
       end) && separable O st r
  end.

(* the match dictionary the property promises: every {name} maps to the text of its value, the
   remainder to the supplied segments (normalised when they are not normal segments, or when a
   '/'-joined string was given) *)
Definition star_segs (v : C17.kwval) : option (list text) :=
  match v with
  | C17.KSeq l _ => olet ts := map_opt C17.spec_text l in
                    Some (if forallb normal_segb ts then ts else split_path_info (join [47] ts))
  | C17.KScalar x => olet t := C17.spec_text x in Some (split_path_info t)
  end.

Fixpoint spec_hole_dict (cap : text -> option text) (its : list C01.item) : option C01.matchdict :=
  match its with
  | [] => Some []
  | C01.Lit _ :: r => spec_hole_dict cap r
  | C01.Hole n _ :: r => olet t := cap n in olet d := spec_hole_dict cap r in Some ((n, C01.MText t) :: d)
  end.

Definition spec_dict (p : C01.pat) (kw : list (text * C17.kwval)) : option C01.matchdict :=
  olet hd := spec_hole_dict (cap_of (C01.star p) kw) (C01.items p) in
  olet sd := match C01.star p with
             | None => Some []
             | Some [] => Some [([], C01.MSegs [])]
             | Some r => olet v := C17.assoc r kw in olet s := star_segs v in Some [(r, C01.MSegs s)]
             end in
  Some (hd ++ sd).

(* the decoded path the property promises: the pattern's text with the values in place, then the
   extra elements as further segments *)
Definition elements_suffix (path : text) (ts : list text) : text :=
  match ts with
  | [] => []
  | _ => (if C17.endswith_char 47 path then [] else [47]) ++ join [47] ts
  end.

(* everything the caller supplied stands for a text (nothing the property does not speak about) *)
Definition wf_query (q : option C17.query) : bool :=
  match q with
  | None => true
  | Some (C17.QStr t) => forallb valid_scalar t
  | Some (C17.QPairs l) => match C17.spec_pairs l with Some _ => true | None => false end
  end.
Definition wf_anchor (a : option C17.pval) : bool :=
  match C17.spec_anchor a with Some _ => true | None => false end.
Definition wf_kw (st : option text) (kw : list (text * C17.kwval)) : bool :=
  forallb (fun kv : text * C17.kwval =>
             match val_text (match st with Some r => text_eqb (fst kv) r | None => false end) (snd kv) with
             | Some _ => true | None => false end) kw.

Inductive spec_out :=
| SNothing                       (* the property says nothing about this case *)
| SKeyError                      (* no such route / a placeholder without a value *)
| SRoute (path : text)           (* decoded PATH_INFO of the produced URL *)
         (own : option C01.matchdict)      (* what the target route must match it to (None: not specified) *)
         (sel : C01.spec_outcome).         (* what the application must select (C01's declarative dispatch) *)

Definition spec_route (O : C01.oracle) (ds : list (text * text)) (target : text) (e : C17.env)
           (els : list C17.pval) (o : C17.overrides) (kw : list (text * C17.kwval)) : spec_out :=
  if negb (C01.all_ok O (map c01_decl ds)) then SNothing else
  if negb (forallb valid_scalar (C17.e_script e) && wf_query (C17.o_query o) && wf_anchor (C17.o_anchor o)) then SNothing else
  match find_src target ds with
  | None => SKeyError
  | Some src =>
      match C01.parse_core O (Some C01.spec_default_hole) src with
      | C01.Ok p =>
          if negb (forallb valid_scalar src && wf_kw (C01.star p) kw) then SNothing else
          match C17.spec_elements els with
          | None => SNothing
          | Some ets =>
              match kw_caps p kw with
              | None => SKeyError
              | Some caps =>
                  let body := C01.render (C01.items p) caps in
                  let path := body ++ elements_suffix body ets in
                  let own :=
                    match ets with
                    | [] => if C01.caps_ok O (C01.star p) (C01.items p) caps && sep_val O (C01.star p) (C01.items p) caps
                            then spec_dict p kw else None
                    | _ => None
                    end in
                  SRoute path own (C01.spec_request O (map c01_decl ds) method_get (Some (encode path)))
              end
          end
      | _ => SNothing
      end
  end.

(* ================================================================== wire glue *)
Definition get_decl2 (v : val) : option (text * text) :=
  match v with VL [VT n; VT s] => Some (n, s) | _ => None end.

Definition put_spec_out (s : spec_out) : val :=
  match s with
  | SNothing => VL []
  | SKeyError => VL [VI 1]
  | SRoute path own sel => VL [VI 0; VT path; vopt C01.put_dict own; C01.put_spec sel]
  end.

(* ================================================================== histories: the process-wide _segment_cache *)
(* traversal._segment_cache memoises quote_path_segment under the key (segment, safe).  In the
   generator only the elements of a remainder SEQUENCE reach quote_path_segment without having been
   stringified by the caller, so only there can two values that are equal as dictionary keys but
   print differently (1 / True / 1.0 / Decimal('1.00')) meet one cache entry.  Whether the key is
   the stringified segment (the str() conversion happens before the lookup) is a regenerated fact;
   the functions below are parametric in it ([sf]).  Entries for other safe sets (literals: '/',
   extra elements: PATH_SEGMENT_SAFE) never answer a lookup under PATH_SAFE and are left out. *)
Definition scache := list (C17.pval * text).
Fixpoint sc_find (c : scache) (k : C17.pval) : option text :=
  match c with [] => None | (k', r) :: c' => if C17.py_eq k k' then Some r else sc_find c' k end.
(* the key after [segment = str(segment)] *)
Definition canon (v : C17.pval) : C17.pval :=
  match v with C17.PInt z => C17.PStr (C17.show_Z z) | C17.PNum _ s => C17.PStr s | _ => v end.

Definition qv_ck (sf : bool) (c : scache) (v : C17.pval) : C17.res text * scache :=
  let k := if sf then canon v else v in
  match sc_find c k with
  | Some r => (C17.Ok r, c)
  | None => match C17.q_value v with
            | C17.Ok r => (C17.Ok r, c ++ [(k, r)])
            | C17.Err e => (C17.Err e, c)          (* the exception leaves before the store *)
            end
  end.

Fixpoint seq_ck (sf : bool) (c : scache) (l : list C17.pval) : C17.res (list text) * scache :=
  match l with
  | [] => (C17.Ok [], c)
  | x :: r => match qv_ck sf c x with
              | (C17.Ok q, c1) => match seq_ck sf c1 r with
                                  | (C17.Ok qs, c2) => (C17.Ok (q :: qs), c2)
                                  | (C17.Err e, c2) => (C17.Err e, c2)
                                  end
              | (C17.Err e, c1) => (C17.Err e, c1)
              end
  end.

(* generator(): scalars are decoded / stringified by the generator itself before q() *)
Definition gen_value_ck (sf : bool) (c : scache) (is_star : bool) (v : C17.kwval) : C17.res text * scache :=
  match v with
  | C17.KScalar x => match C17.text_of x with
                     | C17.Ok t => qv_ck sf c (C17.PStr t)
                     | C17.Err e => (C17.Err e, c)
                     end
  | C17.KSeq l shown =>
      if is_star then match seq_ck sf c l with
                      | (C17.Ok qs, c1) => (C17.Ok (join [47] qs), c1)
                      | (C17.Err e, c1) => (C17.Err e, c1)
                      end
      else qv_ck sf c (C17.PStr shown)
  end.

Fixpoint newdict_ck (sf : bool) (c : scache) (g : C17.pattern) (kw : list (text * C17.kwval))
  : C17.res (list (text * text)) * scache :=
  match kw with
  | [] => (C17.Ok [], c)
  | kv :: r => match gen_value_ck sf c (C17.is_star_key g (fst kv)) (snd kv) with
               | (C17.Ok q, c1) => match newdict_ck sf c1 g r with
                                   | (C17.Ok d, c2) => (C17.Ok ((fst kv, q) :: d), c2)
                                   | (C17.Err e, c2) => (C17.Err e, c2)
                                   end
               | (C17.Err e, c1) => (C17.Err e, c1)
               end
  end.

Definition generate_ck (sf : bool) (c : scache) (g : C17.pattern) (kw : list (text * C17.kwval)) : C17.res text * scache :=
  match C17.gen_template g with
  | C17.Err e => (C17.Err e, c)
  | C17.Ok tpl =>
      match newdict_ck sf c g kw with
      | (C17.Ok d, c1) => (C17.rbind (C17.mapM (C17.format_part d) tpl) (fun parts => C17.Ok (concat parts)), c1)
      | (C17.Err e, c1) => (C17.Err e, c1)
      end
  end.

(* the generator as it is in the current source *)
Definition generate_c : scache -> C17.pattern -> list (text * C17.kwval) -> C17.res text * scache :=
  generate_ck segment_key_stringified.

(* a history of generations in one process, starting from an empty cache *)
Fixpoint history_ck (sf : bool) (c : scache) (g : C17.pattern) (calls : list (list (text * C17.kwval))) : list (C17.res text) :=
  match calls with
  | [] => []
  | kw :: r => let '(u, c1) := generate_ck sf c g kw in u :: history_ck sf c1 g r
  end.

(* ================================================================== vocabulary of the translator (harness/c06/translate.py) *)
(* calls that may raise or touch traversal._segment_cache: state (the cache) and error *)
Definition M (A : Type) : Type := scache -> C17.res A * scache.
Definition mret {A} (a : A) : M A := fun c => (C17.Ok a, c).
Definition mlift {A} (r : C17.res A) : M A := fun c => (r, c).
Definition mbind {A B} (m : M A) (f : A -> M B) : M B :=
  fun c => match m c with (C17.Ok a, c1) => f a c1 | (C17.Err e, c1) => (C17.Err e, c1) end.
Fixpoint mmapM {A B} (f : A -> M B) (l : list A) : M (list B) :=
  match l with
  | [] => mret []
  | x :: r => mbind (f x) (fun y => mbind (mmapM f r) (fun ys => mret (y :: ys)))
  end.
(* for k, v in d.items(): body -- [s] is the state the body rebinds, [continue_] the next iteration *)
Fixpoint mfold {S A} (body : text * C17.kwval -> S -> (S -> M A) -> M A) (l : list (text * C17.kwval)) (s : S)
         (k_end : S -> M A) : M A :=
  match l with
  | [] => k_end s
  | x :: t => body x s (fun s' => mfold body t s' k_end)
  end.

Definition kv_is_bytes (v : C17.kwval) : bool := match v with C17.KScalar (C17.PBytes _) => true | _ => false end.
Definition kv_is_str (v : C17.kwval) : bool := match v with C17.KScalar (C17.PStr _) => true | _ => false end.
Definition kv_is_seq (v : C17.kwval) : bool := match v with C17.KSeq _ _ => true | _ => false end.     (* is_nonstr_iter *)
Definition kv_items (v : C17.kwval) : list C17.pval := match v with C17.KSeq l _ => l | _ => [] end.
(* v.decode('utf-8'): only bytes have it *)
Definition kv_decode_utf8 (v : C17.kwval) : C17.res C17.kwval :=
  match v with
  | C17.KScalar (C17.PBytes b) => C17.rbind (C17.utf8_dec b) (fun t => C17.Ok (C17.KScalar (C17.PStr t)))
  | _ => C17.Err C17.EVal
  end.
(* str(v); str of bytes is their repr, which the model does not print: an error value *)
Definition kv_str (v : C17.kwval) : C17.res C17.kwval :=
  match v with
  | C17.KScalar (C17.PStr _) => C17.Ok v
  | C17.KScalar (C17.PInt z) => C17.Ok (C17.KScalar (C17.PStr (C17.show_Z z)))
  | C17.KScalar (C17.PNum _ s) => C17.Ok (C17.KScalar (C17.PStr s))
  | C17.KScalar (C17.PBytes _) => C17.Err C17.EVal
  | C17.KSeq _ shown => C17.Ok (C17.KScalar (C17.PStr shown))
  end.
(* quote_path_segment(x, safe=PATH_SAFE) through the cache; a list / tuple is stringified by quote_path_segment *)
Definition q_pv (sf : bool) (x : C17.pval) : M text := fun c => qv_ck sf c x.
Definition q_kw (sf : bool) (v : C17.kwval) : M text :=
  match v with C17.KScalar x => q_pv sf x | C17.KSeq _ shown => q_pv sf (C17.PStr shown) end.
(* k == remainder (remainder is None without a '*') *)
Definition star_eq (star : option text) (k : text) : bool :=
  match star with Some r => text_eqb k r | None => false end.
(* newdict[k] = v for a key not stored before (the keys of the iterated dict are distinct) *)
Definition dstore (d : list (text * text)) (k v : text) : list (text * text) := d ++ [(k, v)].
(* gen % newdict *)
Definition format_template (tpl : list C17.tpart) (d : list (text * text)) : C17.res text :=
  C17.rbind (C17.mapM (C17.format_part d) tpl) (fun parts => C17.Ok (concat parts)).

(* reference model of the generator closure: what [generate_ck] does once the template is there *)
Definition star_pat (star : option text) : C17.pattern := C17.mkPat [] [] star.
Definition generator_model (sf : bool) (star : option text) (tpl : list C17.tpart) (kw : list (text * C17.kwval)) : M text :=
  fun c => match newdict_ck sf c (star_pat star) kw with
           | (C17.Ok d, c1) => (format_template tpl d, c1)
           | (C17.Err e, c1) => (C17.Err e, c1)
           end.

(* a history of generations answered by a generator function [G] (the reference model or the translated source) *)
Fixpoint history_g (G : option text -> list C17.tpart -> list (text * C17.kwval) -> M text) (c : scache) (g : C17.pattern)
         (calls : list (list (text * C17.kwval))) : list (C17.res text) :=
  match calls with
  | [] => []
  | kw :: r =>
      match C17.gen_template g with
      | C17.Err e => C17.Err e :: history_g G c g r
      | C17.Ok tpl => let '(u, c1) := G (C17.p_star g) tpl kw c in u :: history_g G c1 g r
      end
  end.

Definition empty_env : C17.env := C17.mkEnv [104; 116; 116; 112] None [115] [56; 48] [].
Definition no_overrides : C17.overrides := C17.mkOv None None None None None None.

(* ================================================================== histories on ONE request object *)
(* A request lives on while its SCRIPT_NAME / PATH_INFO change (request.script_name = ..., a write to
   environ['SCRIPT_NAME'], webob's path_info_pop moving a segment from PATH_INFO to SCRIPT_NAME).  URL
   generation reads the environ at the time of the call.  Whether any function on the way writes to
   the request is a regenerated fact ([request_state_written]); the step function is parametric in
   it ([mf]): the stateful variant modelled is "the quoted script name is kept on the request after
   its first use". *)
Record rstate := mkRS { rs_script : text; rs_pinfo : text; rs_memo : option text }.
Inductive rstep :=
| RSet (s : text)                                            (* SCRIPT_NAME := s *)
| RPop                                                       (* request.path_info_pop() *)
| RGen (els : list C17.pval) (o : C17.overrides) (kw : list (text * C17.kwval)).   (* route_url, then route_path *)

Fixpoint lstrip_count (s : text) (acc : text) : text * text :=      (* leading slashes, rest *)
  match s with c :: r => if c =? 47 then lstrip_count r (acc ++ [47]) else (acc, s) | [] => (acc, []) end.
Fixpoint upto_slash (s : text) : text * text :=
  match s with
  | [] => ([], [])
  | c :: r => if c =? 47 then ([], s) else let '(a, b) := upto_slash r in (c :: a, b)
  end.
(* webob BaseRequest.path_info_pop (no pattern), on the decoded texts *)
Definition path_info_pop (script pinfo : text) : text * text :=
  match pinfo with
  | [] => (script, pinfo)
  | _ => let '(slashes, rest) := lstrip_count pinfo [] in
         let '(seg, rest') := upto_slash rest in
         (script ++ slashes ++ seg, rest')
  end.

Definition env_with (e : C17.env) (s : text) : C17.env :=
  C17.mkEnv (C17.e_scheme e) (C17.e_http_host e) (C17.e_server_name e) (C17.e_server_port e) s.

(* [c]: the lru_cache of url._join_elements as earlier generations in the process left it (C17's model of it) *)
Definition gen_step (mf : bool) (e : C17.env) (rs : list (text * C17.pattern)) (target : text) (st : rstate) (c : C17.jcache)
           (els : list C17.pval) (o : C17.overrides) (kw : list (text * C17.kwval))
  : (C17.res text * C17.res text) * rstate * C17.jcache :=
  let cur := env_with e (rs_script st) in
  let u := C17.route_url c cur rs target els o kw in
  let c1 := match els with [] => c | _ => C17.warm_step c els end in
  let s_eff := if mf then match rs_memo st with Some s0 => s0 | None => rs_script st end else rs_script st in
  let p := C17.route_path c1 (env_with e s_eff) rs target els o kw in
  let memo' := if mf && forallb valid_scalar s_eff then Some s_eff else rs_memo st in
  ((u, p), mkRS (rs_script st) (rs_pinfo st) memo', c1).

(* outputs of the generation steps (with the SCRIPT_NAME current at that step), in order *)
Fixpoint run_req (mf : bool) (e : C17.env) (rs : list (text * C17.pattern)) (target : text) (st : rstate) (c : C17.jcache)
         (steps : list rstep) : list (text * (C17.res text * C17.res text)) :=
  match steps with
  | [] => []
  | RSet s :: r => run_req mf e rs target (mkRS s (rs_pinfo st) (rs_memo st)) c r
  | RPop :: r => let '(s', p') := path_info_pop (rs_script st) (rs_pinfo st) in
                 run_req mf e rs target (mkRS s' p' (rs_memo st)) c r
  | RGen els o kw :: r =>
      let '(up, st', c') := gen_step mf e rs target st c els o kw in
      (rs_script st, up) :: run_req mf e rs target st' c' r
  end.

(* declarative: every generation step is route_url / route_path of the environ as it is then *)
Fixpoint spec_req (e : C17.env) (rs : list (text * C17.pattern)) (target : text) (script pinfo : text)
         (steps : list rstep) : list (text * (C17.res text * C17.res text)) :=
  match steps with
  | [] => []
  | RSet s :: r => spec_req e rs target s pinfo r
  | RPop :: r => let '(s', p') := path_info_pop script pinfo in spec_req e rs target s' p' r
  | RGen els o kw :: r =>
      (script, (C17.route_url [] (env_with e script) rs target els o kw,
                C17.route_path [] (env_with e script) rs target els o kw))
      :: spec_req e rs target script pinfo r
  end.

(* the SCRIPT_NAME current at each generation step (for the per-step specification) *)
Fixpoint scripts_at (script pinfo : text) (steps : list rstep) : list (text * rstep) :=
  match steps with
  | [] => []
  | RSet s :: r => scripts_at s pinfo r
  | RPop :: r => let '(s', p') := path_info_pop script pinfo in scripts_at s' p' r
  | g :: r => (script, g) :: scripts_at script pinfo r
  end.

Definition get_rstep (v : val) : option rstep :=
  match v with
  | VL [VI 0%Z; VT s] => Some (RSet s)
  | VL [VI 1%Z] => Some RPop
  | VL [VI 2%Z; els; ov; kw] =>
      olet els := C17.get_pvals els in olet ov := C17.get_ov ov in olet kw := C17.get_kw kw in Some (RGen els ov kw)
  | _ => None
  end.

(* ================================================================== placeholders outside C01's sublanguage *)
(* {name:regex} accepts any `re` text (groups, alternation, lazy quantifiers ...).  For those C01's
   model of the compiled matcher declines; the specification still speaks.  The pattern is read with
   every regex dropped ([parse_open]: same pieces, same names, the regex texts kept aside in placeholder
   order); whether a text lies in a placeholder's language is an oracle input ([otable]: regex text,
   candidate, re.fullmatch?), and the match dictionary is promised when the supplied values are the
   ONLY way of cutting the decoded path along the pattern ([all_decs_open] lists every way). *)
Definition otable := list (text * text * bool).
Fixpoint ot_find (t : otable) (r v : text) : option bool :=
  match t with
  | [] => None
  | (r', v', b) :: t' => if text_eqb r r' && text_eqb v v' then Some b else ot_find t' r v
  end.
(* for the alternatives that have to be excluded an unknown answer counts as "may match"; for the
   supplied values themselves as "does not" *)
Definition lang_may (O : C01.oracle) (t : otable) (reg : option text) (v : text) : bool :=
  match reg with
  | None => C01.hole_ok O C01.spec_default_hole v
  | Some r => match ot_find t r v with Some b => b | None => true end
  end.
Definition lang_must (O : C01.oracle) (t : otable) (reg : option text) (v : text) : bool :=
  match reg with
  | None => C01.hole_ok O C01.spec_default_hole v
  | Some r => match ot_find t r v with Some b => b | None => false end
  end.

Definition strip_reg (p : C01.piece) : C01.piece * list (option text) :=
  match p with
  | C01.PLit _ => (p, [])
  | C01.PHole body => let '(name, reg) := C01.split_colon body in (C01.PHole name, [reg])
  end.

(* _compile_route's reading of the pattern text (the steps of C01.parse_core), regexes kept aside *)
Definition parse_open (O : C01.oracle) (src : text) : C01.res (C01.pat * list (option text)) :=
  let r1 := if C01.has_old src && negb (C01.has_brace src) then C01.old_sub O src false else src in
  let r2 := if startswith [47] r1 then r1 else 47 :: r1 in
  let '(r3, rem) := match C01.rsplit_star r2 with
                    | Some (a, b) => if C01.word_then_end O b then (a, b) else (r2, [])
                    | None => (r2, [])
                    end in
  let ps := map strip_reg (C01.split_route r3 0 []) in
  match C01.seq_items (map (fun x => C01.piece_item (Some C01.spec_default_hole) (fst x)) ps) with
  | C01.Ok its =>
      let regs := flat_map snd ps in
      match rem with
      | [] => let p := C01.mkPat its None in
              if C01.has_dup (C01.pat_names p) then C01.CompileError else C01.Ok (p, regs)
      | _ => match C01.name_check rem with
             | C01.Ok _ => let p := C01.mkPat its (Some rem) in
                           if C01.has_dup (C01.pat_names p) then C01.CompileError else C01.Ok (p, regs)
             | C01.CompileError => C01.CompileError
             | C01.Unsupported => C01.Unsupported
             | C01.FactsDrift => C01.FactsDrift
             end
      end
  | C01.CompileError => C01.CompileError
  | C01.Unsupported => C01.Unsupported
  | C01.FactsDrift => C01.FactsDrift
  end.

(* every way of cutting the whole text along the pattern, the language of the i-th placeholder given
   by the i-th element of [langs] (longest candidate first, as C01.all_decs) *)
Fixpoint all_decs_open (langs : list (text -> bool)) (st : option text) (its : list C01.item) (s : text)
  : list (list text) :=
  match its with
  | [] => C01.all_decs_end st s
  | C01.Lit l :: its' => match strip_prefix l s with Some r => all_decs_open langs st its' r | None => [] end
  | C01.Hole _ _ :: its' =>
      match langs with
      | [] => []
      | L :: langs' =>
          flat_map (fun k => let v := firstn k s in
                             if L v then map (cons v) (all_decs_open langs' st its' (skipn k s)) else [])
                   (C01.lens_desc (List.length s))
      end
  end.

(* one capture per placeholder, each in its placeholder's language; one more for the remainder *)
Fixpoint caps_in (langs : list (text -> bool)) (st : option text) (its : list C01.item) (caps : list text) : bool :=
  match its with
  | [] => match st, caps with None, [] => true | Some _, [_] => true | _, _ => false end
  | C01.Lit _ :: r => caps_in langs st r caps
  | C01.Hole _ _ :: r => match langs, caps with
                         | L :: langs', v :: c => L v && caps_in langs' st r c
                         | _, _ => false
                         end
  end.

Definition caps_eqb (a b : list text) : bool :=
  (List.length a =? List.length b)%nat && forallb (fun xy : text * text => text_eqb (fst xy) (snd xy)) (combine a b).

Definition only_way (langs : list (text -> bool)) (st : option text) (its : list C01.item) (caps : list text) : bool :=
  match all_decs_open langs st its (C01.render its caps) with
  | [c] => caps_eqb c caps
  | _ => false
  end.

Definition open_ok (O : C01.oracle) (d : text * text) : bool :=
  match parse_open O (snd d) with C01.Ok _ => true | _ => false end.

Definition spec_route_open (O : C01.oracle) (tbl : otable) (ds : list (text * text)) (target : text) (e : C17.env)
           (els : list C17.pval) (o : C17.overrides) (kw : list (text * C17.kwval)) : spec_out :=
  if negb (forallb (open_ok O) ds) then SNothing else
  if negb (forallb valid_scalar (C17.e_script e) && wf_query (C17.o_query o) && wf_anchor (C17.o_anchor o)) then SNothing else
  match find_src target ds with
  | None => SKeyError
  | Some src =>
      match parse_open O src with
      | C01.Ok (p, regs) =>
          if negb (forallb valid_scalar src && wf_kw (C01.star p) kw) then SNothing else
          match C17.spec_elements els with
          | None => SNothing
          | Some ets =>
              match kw_caps p kw with
              | None => SKeyError
              | Some caps =>
                  let body := C01.render (C01.items p) caps in
                  let path := body ++ elements_suffix body ets in
                  let own :=
                    match ets with
                    | [] => if caps_in (map (lang_must O tbl) regs) (C01.star p) (C01.items p) caps
                               && only_way (map (lang_may O tbl) regs) (C01.star p) (C01.items p) caps
                            then spec_dict p kw else None
                    | _ => None
                    end in
                  SRoute path own C01.SNothing
              end
          end
      | _ => SNothing
      end
  end.

Definition get_oentry (v : val) : option (text * text * bool) :=
  match v with VL [VT r; VT t; b] => olet b := get_bool b in Some (r, t, b) | _ => None end.

Definition is_nothing (s : spec_out) : bool := match s with SNothing => true | _ => false end.

(* case   = [[wordchars; digitchars]; [[name; pattern] ...]; target; env; elements; overrides; kw]
            (env / overrides / elements / kw in C17's wire format)
   answer = [[statuses; route_url; route_path; way back of the url form]; spec] *)
Definition run_plain (o ds : val) (target : text) (e els ov kw tbl : val) : option val :=
  olet orc := C01.get_oracle o in
  olet ds := get_list_of get_decl2 ds in
  olet e := C17.get_env e in olet els := C17.get_pvals els in
  olet ov := C17.get_ov ov in olet kw := C17.get_kw kw in
  olet tbl := get_list_of get_oentry tbl in
  let '(m, sts) := C01.connect_all orc C01.empty_mapper 0 (map c01_decl ds) in
  let sts := if gen_sources_ok then sts else map (fun _ => C01.FactsDrift) sts in
  let rs := gen_routes orc ds in
  let u := C17.route_url [] e rs target els ov kw in
  let p := C17.route_path [] e rs target els ov kw in
  let tp := match find_src target ds with
            | Some src => match parse orc src with C01.Ok p => Some p | _ => None end
            | None => None
            end in
  let sp := spec_route orc ds target e els ov kw in
  (* patterns with a placeholder outside the modelled sublanguage: the open specification speaks *)
  let sp := if is_nothing sp then spec_route_open orc tbl ds target e els ov kw else sp in
  Some (VL [VL [VL (map C01.put_status sts); C17.put_res u; C17.put_res p;
                route_back orc m tp (C17.e_script e) u];
            put_spec_out sp]).

(* history of Route.generate calls in one process: [[status; [[path; own match] ...]]; [spec per call]] *)
Definition run_hist (G : bool -> option text -> list C17.tpart -> list (text * C17.kwval) -> M text) (o d calls : val)
  : option val :=
  olet orc := C01.get_oracle o in
  olet d := get_decl2 d in
  olet calls := get_list_of C17.get_kw calls in
  (* the specification does not depend on the facts guard: a drifting tree is still judged *)
  let specs := VL (map (fun kw => put_spec_out (spec_route orc [d] (fst d) empty_env [] no_overrides kw)) calls) in
  match parse orc (snd d) with
  | C01.Ok p =>
      let us := history_g (G segment_key_stringified) [] (to_pattern p) calls in
      Some (VL [VL [VI 0; VL (map (fun u : C17.res text =>
                                     VL [C17.put_res u;
                                         match u with
                                         | C17.Ok t => vopt C01.put_dict (match_back orc p (unquote t))
                                         | C17.Err _ => VL []
                                         end]) us)];
                specs])
  | C01.CompileError => Some (VL [VL [VI 1; VL []]; specs])
  | C01.Unsupported => Some (VL [VL [VI 2; VL []]; VL []])
  | C01.FactsDrift => Some (VL [VL [VI 3; VL []]; specs])
  end.

(* [G]: the generator closure that answers the history stream -- the reference model ([run_C06]) or the program
   translated from the source (Extract/C06.v runs [run_C06_g gen_generator]; equal by Proofs/C06_gen.v) *)
Definition run_C06_g (G : bool -> option text -> list C17.tpart -> list (text * C17.kwval) -> M text) (v : val) : val :=
  ret_or_bad (
    match v with
    | VL [o; ds; VT target; e; els; ov; kw] => run_plain o ds target e els ov kw (VL [])
    | VL [o; ds; VT target; e; els; ov; kw; tbl] => run_plain o ds target e els ov kw tbl
    | VL [VI 2%Z; o; ds; VT target; e; VT pinfo; steps] =>
        (* history on one request object: [[statuses; [[route_url; route_path; way back] per generation step]]; [spec per step]] *)
        olet orc := C01.get_oracle o in
        olet ds := get_list_of get_decl2 ds in
        olet e := C17.get_env e in
        olet steps := get_list_of get_rstep steps in
        let '(m, sts) := C01.connect_all orc C01.empty_mapper 0 (map c01_decl ds) in
        let sts := if gen_sources_ok then sts else map (fun _ => C01.FactsDrift) sts in
        let rs := gen_routes orc ds in
        let tp := match find_src target ds with
                  | Some src => match parse orc src with C01.Ok p => Some p | _ => None end
                  | None => None
                  end in
        let outs := run_req request_state_written e rs target (mkRS (C17.e_script e) pinfo None) [] steps in
        Some (VL [VL [VL (map C01.put_status sts);
                      VL (map (fun x : text * (C17.res text * C17.res text) =>
                                 VL [C17.put_res (fst (snd x)); C17.put_res (snd (snd x));
                                     route_back orc m tp (fst x) (fst (snd x))]) outs)];
                  VL (map (fun x : text * rstep =>
                             match snd x with
                             | RGen els ov kw => put_spec_out (spec_route orc ds target (env_with e (fst x)) els ov kw)
                             | _ => VL []
                             end) (scripts_at (C17.e_script e) pinfo steps))])
    | VL [VI 1%Z; o; d; calls] => run_hist G o d calls
    | _ => None
    end).

Definition run_C06 : val -> val := run_C06_g generator_model.
